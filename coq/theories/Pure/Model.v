(* C19: executable models of padding.PadInPlace / UnpadInPlace, commonprefix.Prefix /
   TrimPrefix and prng's randReader.Read.  Bytes are N (the harness only produces 0..255).
   No proofs in this file. *)
From Util Require Import Common.Base.

(* ---------------- padding ---------------- *)
Definition align : nat := 32.

(* paddingLen in PadInPlace: dataLen := len+1; dlm := dataLen % 32; if dlm != 0 { 32 - dlm } *)
Definition pad_amount (n : nat) : nat :=
  let m := (n + 1) mod align in if Nat.eqb m 0 then 0 else align - m.

(* reference result *)
Definition pad (x : list N) : list N :=
  x ++ repeat 0%N (pad_amount (length x)) ++ [N.of_nat (pad_amount (length x))].

(* the code, literally, with the spare capacity [tail] of the argument slice visible:
   if cap(data) >= nlen { data = data[:nlen]; zero data[oldLen:nlen]; data[nlen-1] = paddingLen }
   else { fresh zeroed array; copy; data[nlen-1] = paddingLen } *)
Fixpoint zero_from (k : nat) (l : list N) : list N :=
  match l with
  | [] => []
  | h :: t => match k with 0 => 0%N :: zero_from 0 t | S k' => h :: zero_from k' t end
  end.

Definition set_last (l : list N) (v : N) : list N := set_nth l (length l - 1) v.

Definition pad_mem (x tail : list N) : list N :=
  let p := pad_amount (length x) in
  let nlen := length x + 1 + p in
  if Nat.leb nlen (length x + length tail)
  then set_last (zero_from (length x) (x ++ firstn (nlen - length x) tail)) (N.of_nat p)
  else set_last (x ++ repeat 0%N (nlen - length x)) (N.of_nat p).

Inductive uout := UPanic | UErr | UOk (l : list N).

(* UnpadInPlace (after fix D14): empty input is an error; paddingLen > len-1 or >= 32 is an error *)
Definition unpad (d : list N) : uout :=
  match d with
  | [] => UErr
  | _ =>
    let p := last d 0%N in
    if (N.ltb (N.of_nat (length d - 1)) p || N.leb 32 p)%bool then UErr
    else UOk (firstn (length d - N.to_nat p - 1) d)
  end.

(* the pinned (unrepaired) code, kept for the refutation theorem: index -1 panics on [],
   and the bound is >= instead of > *)
Definition unpad_pinned (d : list N) : uout :=
  match d with
  | [] => UPanic
  | _ =>
    let p := last d 0%N in
    if (N.leb (N.of_nat (length d - 1)) p || N.leb 32 p)%bool then UErr
    else UOk (firstn (length d - N.to_nat p - 1) d)
  end.

(* ---------------- commonprefix ---------------- *)
Fixpoint is_prefix (p s : list N) : bool :=
  match p, s with
  | [], _ => true
  | a :: p', b :: s' => N.eqb a b && is_prefix p' s'
  | _ :: _, [] => false
  end.

(* for _, s := range strs { if len(short) >= len(s) { short = s } } *)
Definition shortest (s0 : list N) (strs : list (list N)) : list N :=
  fold_left (fun sh s => if Nat.leb (length s) (length sh) then s else sh) strs s0.

(* for i := 0; i < len(short); i++ { prefix = short[:i+1]; if some s lacks it return old; old = prefix } *)
Fixpoint prefix_loop (strs : list (list N)) (short : list N) (n i : nat) (old : list N) : list N :=
  match n with
  | 0 => old
  | S n' =>
    let p := firstn (S i) short in
    if forallb (is_prefix p) strs then prefix_loop strs short n' (S i) p else old
  end.

Definition prefix (strs : list (list N)) : list N :=
  match strs with
  | [] => []
  | s0 :: _ => let short := shortest s0 strs in prefix_loop strs short (length short) 0 []
  end.

(* strings.TrimPrefix(s, p) *)
Definition trim1 (p s : list N) : list N := if is_prefix p s then skipn (length p) s else s.
Definition trim (strs : list (list N)) : list (list N) :=
  let p := prefix strs in
  match p with [] => strs | _ => map (trim1 p) strs end.

(* the pinned code builds the candidate with string(short[i]): the UTF-8 encoding of the rune *)
Definition utf8_of_byte (b : N) : list N :=
  if N.ltb b 128 then [b] else [(192 + N.div b 64)%N; (128 + N.modulo b 64)%N].
Fixpoint prefix_loop_pinned (strs : list (list N)) (short : list N) (acc old : list N) : list N :=
  match short with
  | [] => old
  | c :: rest =>
    let p := acc ++ utf8_of_byte c in
    if forallb (is_prefix p) strs then prefix_loop_pinned strs rest p p else old
  end.
Definition prefix_pinned (strs : list (list N)) : list N :=
  match strs with
  | [] => []
  | s0 :: _ => prefix_loop_pinned strs (shortest s0 strs) [] []
  end.

(* ---------------- prng reader ---------------- *)
(* byte i of a uint64, little endian: byte(val >> (i*8)) *)
Definition le_byte (v : N) (i : nat) : N := N.modulo (N.shiftr v (N.of_nat (8 * i))) 256.
Definition le_bytes (v : N) : list N := map (le_byte v) (seq 0 8).

Section Reader.
  Variable src : nat -> N.           (* the k-th value returned by Source.Uint64 *)

  Record rstate := { rbuf : list N; roff : nat; rdraws : nat }.
  Definition rinit : rstate := {| rbuf := repeat 0%N 8; roff := 0; rdraws := 0 |}.

  (* one iteration of the for loop in Read, given that [want] > 0 bytes are still missing *)
  Definition read_iter (r : rstate) (want : nat) : rstate * list N :=
    let r1 := if Nat.eqb (roff r) 0
              then {| rbuf := le_bytes (src (rdraws r)); roff := 0; rdraws := S (rdraws r) |}
              else r in
    let take := Nat.min want (8 - roff r1) in
    ({| rbuf := rbuf r1; roff := (roff r1 + take) mod 8; rdraws := rdraws r1 |},
     firstn take (skipn (roff r1) (rbuf r1))).

  (* Read(p) with len(p) = n; fuel n suffices because every iteration yields >= 1 byte *)
  Fixpoint read_fuel (fuel : nat) (r : rstate) (want : nat) : rstate * list N :=
    match fuel with
    | 0 => (r, [])
    | S f =>
      match want with
      | 0 => (r, [])
      | _ => let '(r', out) := read_iter r want in
             let '(r'', out') := read_fuel f r' (want - length out) in
             (r'', out ++ out')
      end
    end.
  Definition read (r : rstate) (n : nat) : rstate * list N := read_fuel n r n.

  Fixpoint reads (r : rstate) (chunks : list nat) : rstate * list (list N) :=
    match chunks with
    | [] => (r, [])
    | n :: cs => let '(r', o) := read r n in
                 let '(r'', os) := reads r' cs in (r'', o :: os)
    end.

  (* the reference stream: all draws, little endian, concatenated *)
  Fixpoint stream (k n : nat) : list N :=   (* bytes of draws k .. k+n-1 *)
    match n with 0 => [] | S n' => le_bytes (src k) ++ stream (S k) n' end.
End Reader.

(* seed of BuildSeededRand: H over the domain string followed by every data slice in order.
   SHA-256 and ChaCha8 are Go's; here they are parameters. *)
Section Seed.
  Variable H : list N -> list N.
  Variable domain : list N.
  Definition seed (datas : list (list N)) : list N := H (domain ++ concat datas).
End Seed.
