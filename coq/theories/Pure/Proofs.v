(* C19 proofs. *)
From Util Require Import Common.Base Pure.Model Pure.Spec.
From Coq Require Import ZifyBool ZifyNat ZifyN.
Ltac Zify.zify_post_hook ::= Z.div_mod_to_equations.

(* ================= padding ================= *)
Lemma pad_amount_lt n : pad_amount n < 32.
Proof. unfold pad_amount, align. destruct (Nat.eqb_spec ((n + 1) mod 32) 0); lia. Qed.

Lemma pad_amount_mod n : (n + 1 + pad_amount n) mod 32 = 0.
Proof. unfold pad_amount, align. destruct (Nat.eqb_spec ((n + 1) mod 32) 0); lia. Qed.

Lemma pad_length x : length (pad x) = length x + 1 + pad_amount (length x).
Proof. unfold pad. rewrite !app_length, repeat_length. simpl. lia. Qed.

Lemma pad_len_pos_mult x : 0 < length (pad x) /\ length (pad x) mod 32 = 0.
Proof. rewrite pad_length. split; [lia | apply pad_amount_mod]. Qed.

Lemma is_prefix_app p s : is_prefix p (p ++ s) = true.
Proof. induction p as [|a p IH]; simpl; [reflexivity|]. now rewrite N.eqb_refl, IH. Qed.

Lemma is_prefix_spec p s : is_prefix p s = true <-> exists t, s = p ++ t.
Proof.
  revert s; induction p as [|a p IH]; intros s; simpl.
  - split; [eexists; reflexivity | reflexivity].
  - destruct s as [|b s].
    + split; [discriminate | intros [t Ht]; discriminate].
    + rewrite andb_true_iff, N.eqb_eq, IH. split.
      * intros [-> [t ->]]. now exists t.
      * intros [t Ht]. inversion Ht; subst. split; [reflexivity | now exists t].
Qed.

Lemma pad_starts_with x : is_prefix x (pad x) = true.
Proof. apply is_prefix_app. Qed.

Lemma set_nth_app_last {A} (l : list A) (a v : A) : set_nth (l ++ [a]) (length l) v = l ++ [v].
Proof. induction l as [|h t IH]; simpl; [reflexivity | now rewrite IH]. Qed.

Lemma set_last_snoc l a v : set_last (l ++ [a]) v = l ++ [v].
Proof. unfold set_last. rewrite app_length. simpl. replace (length l + 1 - 1) with (length l) by lia. apply set_nth_app_last. Qed.

Lemma repeat_snoc {A} (a : A) n : repeat a (S n) = repeat a n ++ [a].
Proof. induction n as [|n IH]; simpl; [reflexivity|]. simpl in IH. now rewrite <- IH. Qed.

Lemma zero_from_0 l : zero_from 0 l = repeat 0%N (length l).
Proof. induction l as [|h t IH]; simpl; [reflexivity | now rewrite IH]. Qed.

Lemma zero_from_app x l : zero_from (length x) (x ++ l) = x ++ repeat 0%N (length l).
Proof. induction x as [|h t IH]; simpl; [apply zero_from_0 | now rewrite IH]. Qed.

(* the in-place branch and the allocating branch produce the same bytes, whatever the
   spare capacity holds *)
Lemma pad_mem_eq x tail : pad_mem x tail = pad x.
Proof.
  unfold pad_mem, pad.
  set (p := pad_amount (length x)).
  replace (length x + 1 + p - length x) with (S p) by lia.
  destruct (Nat.leb_spec (length x + 1 + p) (length x + length tail)) as [Hc|Hc].
  - rewrite zero_from_app, firstn_length, Nat.min_l by lia.
    rewrite repeat_snoc, app_assoc, set_last_snoc, <- app_assoc. reflexivity.
  - rewrite repeat_snoc, app_assoc, set_last_snoc, <- app_assoc. reflexivity.
Qed.

Lemma last_snoc (l : list N) a d : last (l ++ [a]) d = a.
Proof. induction l as [|h t IH]; simpl; [reflexivity|]. destruct (t ++ [a]) eqn:E; [destruct t; discriminate | exact IH]. Qed.

Lemma unpad_pad x : unpad (pad x) = UOk x.
Proof.
  unfold unpad.
  destruct (pad x) as [|h t] eqn:E.
  { pose proof (pad_len_pos_mult x) as [H _]. rewrite E in H. simpl in H. lia. }
  rewrite <- E. clear E h t.
  assert (Hl : last (pad x) 0%N = N.of_nat (pad_amount (length x))).
  { unfold pad. rewrite app_assoc. apply last_snoc. }
  rewrite Hl, pad_length.
  pose proof (pad_amount_lt (length x)) as Hp.
  destruct (N.ltb_spec (N.of_nat (length x + 1 + pad_amount (length x) - 1)) (N.of_nat (pad_amount (length x)))) as [H1|H1]; [lia|].
  destruct (N.leb_spec 32 (N.of_nat (pad_amount (length x)))) as [H2|H2]; [lia|].
  simpl. rewrite Nat2N.id.
  replace (length x + 1 + pad_amount (length x) - pad_amount (length x) - 1) with (length x + 0) by lia.
  unfold pad. now rewrite firstn_app_2, firstn_O, app_nil_r.
Qed.

Lemma unpad_never_panics d : unpad d <> UPanic.
Proof.
  unfold unpad. destruct d as [|h t]; [discriminate|].
  destruct (_ || _); discriminate.
Qed.

Lemma unpad_result_is_prefix d y : unpad d = UOk y -> exists z, d = y ++ z.
Proof.
  unfold unpad. destruct d as [|h t]; [discriminate|].
  destruct (_ || _); [discriminate|]. intros H; inversion H.
  eexists. symmetry. apply firstn_skipn.
Qed.

(* the pinned code violated the round trip on the empty message and panicked on nil *)
Lemma unpad_pinned_refuted : unpad_pinned (pad []) = UErr /\ unpad_pinned [] = UPanic.
Proof. split; vm_compute; reflexivity. Qed.

(* ================= commonprefix ================= *)
Lemma is_prefix_firstn n s : is_prefix (firstn n s) s = true.
Proof. apply is_prefix_spec. exists (skipn n s). symmetry; apply firstn_skipn. Qed.

Lemma is_prefix_length p s : is_prefix p s = true -> length p <= length s.
Proof. intros H. apply is_prefix_spec in H as [t ->]. rewrite app_length. lia. Qed.

Lemma is_prefix_eq_firstn p s : is_prefix p s = true -> p = firstn (length p) s.
Proof. intros H. apply is_prefix_spec in H as [t ->]. now rewrite firstn_app, Nat.sub_diag, firstn_all, firstn_O, app_nil_r. Qed.

Lemma is_prefix_trans p q s : is_prefix p q = true -> is_prefix q s = true -> is_prefix p s = true.
Proof.
  intros H1 H2. apply is_prefix_spec in H1 as [t ->]. apply is_prefix_spec in H2 as [u ->].
  apply is_prefix_spec. exists (t ++ u). now rewrite app_assoc.
Qed.

(* two prefixes of one string: the shorter is a prefix of the longer *)
Lemma prefixes_comparable p q s :
  is_prefix p s = true -> is_prefix q s = true -> length p <= length q -> is_prefix p q = true.
Proof.
  intros Hp Hq Hl. rewrite (is_prefix_eq_firstn _ _ Hp), (is_prefix_eq_firstn _ _ Hq).
  apply is_prefix_spec. exists (firstn (length q - length p) (skipn (length p) s)).
  rewrite <- (firstn_skipn (length p) s) at 1.
  rewrite firstn_app, firstn_length.
  pose proof (is_prefix_length _ _ Hp). rewrite Nat.min_l by lia.
  rewrite (firstn_all2 (n := length q)) by (rewrite firstn_length; lia). reflexivity.
Qed.

Lemma shortest_fold_in s0 strs : In (fold_left (fun sh s : list N => if Nat.leb (length s) (length sh) then s else sh) strs s0) (s0 :: strs).
Proof.
  revert s0; induction strs as [|s strs IH]; intros s0; simpl; [now left|].
  destruct (Nat.leb (length s) (length s0)).
  - specialize (IH s). destruct IH as [<-|H]; [right; now left | right; now right].
  - specialize (IH s0). destruct IH as [<-|H]; [now left | right; now right].
Qed.

Lemma shortest_in s0 rest : In (shortest s0 (s0 :: rest)) (s0 :: rest).
Proof.
  unfold shortest. pose proof (shortest_fold_in s0 (s0 :: rest)) as H.
  destruct H as [H|H]; [rewrite <- H; now left | exact H].
Qed.

(* loop invariant: [old] = firstn i short is common to all strings *)
Lemma prefix_loop_common strs short n i old :
  old = firstn i short -> common old strs = true ->
  common (prefix_loop strs short n i old) strs = true.
Proof.
  revert i old; induction n as [|n IH]; intros i old Ho Hc; cbn [prefix_loop]; [exact Hc|].
  destruct (forallb (is_prefix (firstn (S i) short)) strs) eqn:E; [|exact Hc].
  apply (IH (S i)); [reflexivity | exact E].
Qed.

Lemma prefix_loop_is_firstn strs short n i old :
  old = firstn i short -> exists j, i <= j <= i + n /\ prefix_loop strs short n i old = firstn j short /\
    (j < i + n -> common (firstn (S j) short) strs = false).
Proof.
  revert i old; induction n as [|n IH]; intros i old Ho; cbn [prefix_loop].
  - exists i. repeat split; try lia. exact Ho.
  - destruct (forallb (is_prefix (firstn (S i) short)) strs) eqn:E.
    + destruct (IH (S i) _ eq_refl) as [j [Hj [He Hn]]]. exists j. repeat split; try lia; [exact He|].
      intros H. apply Hn. lia.
    + exists i. repeat split; try lia; [exact Ho|]. intros _. exact E.
Qed.

Lemma common_nil strs : common [] strs = true.
Proof. unfold common. apply forallb_forall. reflexivity. Qed.

Theorem prefix_is_common strs s : In s strs -> is_prefix (prefix strs) s = true.
Proof.
  intros Hin. unfold prefix. destruct strs as [|s0 rest]; [destruct Hin|].
  pose proof (prefix_loop_common (s0 :: rest) (shortest s0 (s0 :: rest)) (length (shortest s0 (s0 :: rest))) 0 [] eq_refl (common_nil _)) as H.
  unfold common in H. rewrite forallb_forall in H. now apply H.
Qed.

Theorem prefix_is_longest strs q :
  strs <> [] -> (forall s, In s strs -> is_prefix q s = true) -> is_prefix q (prefix strs) = true.
Proof.
  intros Hne Hq. unfold prefix. destruct strs as [|s0 rest]; [congruence|].
  set (short := shortest s0 (s0 :: rest)).
  assert (Hsin : In short (s0 :: rest)) by apply shortest_in.
  destruct (prefix_loop_is_firstn (s0 :: rest) short (length short) 0 [] eq_refl) as [j [Hj [He Hn]]].
  rewrite He.
  pose proof (Hq _ Hsin) as Hqs.
  destruct (Nat.le_gt_cases (length q) j) as [Hle|Hgt].
  - (* q no longer than the result: both prefixes of short *)
    apply (prefixes_comparable _ _ short); [exact Hqs | apply is_prefix_firstn |].
    rewrite firstn_length. pose proof (is_prefix_length _ _ Hqs). lia.
  - (* q strictly longer: then firstn (S j) short is common, contradiction *)
    exfalso.
    pose proof (is_prefix_length _ _ Hqs) as Hlen.
    assert (Hj' : j < 0 + length short) by lia.
    specialize (Hn Hj').
    assert (common (firstn (S j) short) (s0 :: rest) = true) as Hc.
    { unfold common. apply forallb_forall. intros s Hs.
      apply (is_prefix_trans _ q); [|now apply Hq].
      apply (prefixes_comparable _ _ short); [apply is_prefix_firstn | exact Hqs |].
      rewrite firstn_length. lia. }
    congruence.
Qed.

(* the two facts characterise the result uniquely: it is THE longest common prefix *)
Lemma is_prefix_antisym p q : is_prefix p q = true -> is_prefix q p = true -> p = q.
Proof.
  intros H1 H2. pose proof (is_prefix_length _ _ H1). pose proof (is_prefix_length _ _ H2).
  apply is_prefix_spec in H1 as [t ->]. rewrite app_length in *. destruct t; [now rewrite app_nil_r | simpl in *; lia].
Qed.

Lemma lcp2_prefix_l a b : is_prefix (lcp2 a b) a = true.
Proof. revert b; induction a as [|x a IH]; intros [|y b]; simpl; try reflexivity. destruct (N.eqb x y) eqn:E; simpl; [|reflexivity]. now rewrite N.eqb_refl, IH. Qed.

Lemma lcp2_prefix_r a b : is_prefix (lcp2 a b) b = true.
Proof. revert b; induction a as [|x a IH]; intros [|y b]; simpl; try reflexivity. destruct (N.eqb x y) eqn:E; simpl; [|reflexivity]. now rewrite E, IH. Qed.

Lemma lcp2_greatest q a b : is_prefix q a = true -> is_prefix q b = true -> is_prefix q (lcp2 a b) = true.
Proof.
  revert a b; induction q as [|c q IH]; intros a b Ha Hb; [reflexivity|].
  destruct a as [|x a]; [discriminate|]. destruct b as [|y b]; [discriminate|].
  simpl in Ha, Hb. apply andb_true_iff in Ha as [Ha1 Ha2]. apply andb_true_iff in Hb as [Hb1 Hb2].
  apply N.eqb_eq in Ha1, Hb1. subst. simpl. rewrite N.eqb_refl. simpl. rewrite N.eqb_refl. now apply IH.
Qed.

Lemma lcp_fold_common rest : forall s0 s, In s (s0 :: rest) -> is_prefix (fold_left lcp2 rest s0) s = true.
Proof.
  induction rest as [|r rest IH]; intros s0 s Hin; simpl.
  - destruct Hin as [<-|[]]. apply is_prefix_spec. exists []. now rewrite app_nil_r.
  - destruct Hin as [<-|[<-|Hin]].
    + apply (is_prefix_trans _ (lcp2 s0 r)); [apply IH; now left | apply lcp2_prefix_l].
    + apply (is_prefix_trans _ (lcp2 s0 r)); [apply IH; now left | apply lcp2_prefix_r].
    + apply IH. now right.
Qed.

Lemma lcp_fold_greatest rest : forall s0 q, (forall s, In s (s0 :: rest) -> is_prefix q s = true) -> is_prefix q (fold_left lcp2 rest s0) = true.
Proof.
  induction rest as [|r rest IH]; intros s0 q Hq; simpl.
  - apply Hq. now left.
  - apply IH. intros s [<-|Hin].
    + apply lcp2_greatest; apply Hq; [now left | right; now left].
    + apply Hq. right. now right.
Qed.

Theorem prefix_eq_lcp strs : prefix strs = lcp strs.
Proof.
  destruct strs as [|s0 rest]; [reflexivity|].
  apply is_prefix_antisym.
  - unfold lcp. apply lcp_fold_greatest. intros s Hs. now apply prefix_is_common.
  - apply prefix_is_longest; [discriminate|]. intros s Hs. unfold lcp. now apply lcp_fold_common.
Qed.

Theorem trim_removes_exactly_prefix strs :
  trim strs = map (skipn (length (prefix strs))) strs /\
  (forall s, In s strs -> prefix strs ++ skipn (length (prefix strs)) s = s).
Proof.
  split.
  - unfold trim. destruct (prefix strs) eqn:E.
    + simpl. clear. induction strs as [|s t IH]; simpl; [reflexivity | now rewrite <- IH].
    + rewrite <- E. apply map_ext_in. intros s Hs. unfold trim1. now rewrite prefix_is_common.
  - intros s Hs. pose proof (prefix_is_common strs s Hs) as H.
    rewrite (is_prefix_eq_firstn _ _ H) at 1. apply firstn_skipn.
Qed.

Lemma prefix_pinned_refuted :
  prefix_pinned [[195; 169; 49]; [195; 169; 50]]%N = [] /\ prefix [[195; 169; 49]; [195; 169; 50]]%N = [195; 169]%N.
Proof. split; vm_compute; reflexivity. Qed.

(* ================= prng reader ================= *)
Section ReaderProofs.
  Variable src : nat -> N.
  Notation read_iter := (read_iter src).
  Notation read_fuel := (read_fuel src).
  Notation read := (read src).
  Notation reads := (reads src).

  (* byte i of the infinite little-endian stream of draws *)
  Definition sbyte (i : nat) : N := le_byte (src (i / 8)) (i mod 8).
  Definition sbytes (p n : nat) : list N := map sbyte (seq p n).

  (* number of stream bytes consumed so far *)
  Definition pos (r : rstate) : nat := if Nat.eqb (roff r) 0 then 8 * rdraws r else 8 * (rdraws r - 1) + roff r.
  Definition Rinv (r : rstate) : Prop :=
    roff r < 8 /\ (roff r <> 0 -> 0 < rdraws r /\ rbuf r = le_bytes (src (rdraws r - 1))).

  Lemma rinit_inv : Rinv rinit /\ pos rinit = 0.
  Proof. unfold Rinv, pos; simpl. split; [split; [lia | intros H; congruence] | reflexivity]. Qed.

  Lemma le_bytes_slice v o t : o + t <= 8 ->
    firstn t (skipn o (le_bytes v)) = map (le_byte v) (seq o t).
  Proof.
    intros H. unfold le_bytes. rewrite skipn_map, firstn_map. f_equal.
    assert (Hs : forall o n, o <= n -> skipn o (seq 0 n) = seq o (n - o)).
    { clear. intros o n Hon. revert n Hon. induction o as [|o IH]; intros n Hon.
      - now rewrite Nat.sub_0_r.
      - destruct n as [|n]; [lia|]. simpl. rewrite <- seq_shift, skipn_map, IH by lia. now rewrite seq_shift. }
    rewrite Hs by lia.
    assert (Hf : forall t o n, t <= n -> firstn t (seq o n) = seq o t).
    { clear. induction t as [|t IH]; intros o n Ht; [reflexivity|]. destruct n; [lia|]. simpl. now rewrite IH by lia. }
    apply Hf. lia.
  Qed.

  Lemma sbytes_block k o t : o + t <= 8 -> map (le_byte (src k)) (seq o t) = sbytes (8 * k + o) t.
  Proof.
    intros H. unfold sbytes. revert o H. induction t as [|t IH]; intros o H; [reflexivity|].
    cbn [seq map]. rewrite IH by lia. replace (8 * k + S o) with (S (8 * k + o)) by lia. f_equal.
    unfold sbyte. replace ((8 * k + o) / 8) with k by lia. replace ((8 * k + o) mod 8) with o by lia. reflexivity.
  Qed.

  Lemma read_iter_spec r want : Rinv r -> 0 < want ->
    let '(r', out) := read_iter r want in
    Rinv r' /\ 0 < length out <= want /\ out = sbytes (pos r) (length out) /\ pos r' = pos r + length out.
  Proof.
    intros [Ho Hb] Hw. unfold Model.read_iter.
    destruct (Nat.eqb_spec (roff r) 0) as [E|E]; cbn [rbuf roff rdraws].
    - (* fresh draw *)
      set (take := Nat.min want (8 - 0)).
      assert (Ht : 0 < take <= 8) by (unfold take; lia).
      assert (Htw : take <= want) by (unfold take; lia).
      rewrite le_bytes_slice by lia.
      rewrite map_length, seq_length.
      assert (Hpos : pos r = 8 * rdraws r) by (unfold pos; rewrite E; reflexivity).
      rewrite Hpos.
      split; [|split; [lia|split]].
      + unfold Rinv; cbn [rbuf roff rdraws]. split; [lia|]. intros _. split; [lia|].
        replace (S (rdraws r) - 1) with (rdraws r) by lia. reflexivity.
      + rewrite sbytes_block by lia. f_equal. lia.
      + unfold pos; cbn [rbuf roff rdraws].
        destruct (Nat.eqb_spec ((0 + take) mod 8) 0); lia.
    - destruct (Hb E) as [Hd Hbuf].
      set (take := Nat.min want (8 - roff r)).
      assert (Ht : 0 < take <= 8 - roff r) by (unfold take; lia).
      assert (Htw : take <= want) by (unfold take; lia).
      rewrite Hbuf, le_bytes_slice by lia.
      rewrite map_length, seq_length.
      assert (Hpos : pos r = 8 * (rdraws r - 1) + roff r).
      { unfold pos. destruct (Nat.eqb_spec (roff r) 0); [congruence | reflexivity]. }
      rewrite Hpos.
      split; [|split; [lia|split]].
      + unfold Rinv; cbn [rbuf roff rdraws]. split; [lia|]. intros _. split; [exact Hd | reflexivity].
      + rewrite sbytes_block by lia. f_equal.
      + unfold pos; cbn [rbuf roff rdraws].
        destruct (Nat.eqb_spec ((roff r + take) mod 8) 0); lia.
  Qed.

  Lemma sbytes_app p a b : sbytes p (a + b) = sbytes p a ++ sbytes (p + a) b.
  Proof. unfold sbytes. now rewrite seq_app, map_app. Qed.

  Lemma sbytes_0 p : sbytes p 0 = [].
  Proof. reflexivity. Qed.

  Lemma read_fuel_spec fuel : forall r want, Rinv r -> want <= fuel ->
    let '(r', out) := read_fuel fuel r want in
    Rinv r' /\ out = sbytes (pos r) want /\ pos r' = pos r + want.
  Proof.
    induction fuel as [|f IH]; intros r want Hr Hw.
    - cbn [Model.read_fuel]. assert (want = 0) as -> by lia.
      split; [exact Hr | split; [reflexivity | lia]].
    - cbn [Model.read_fuel]. destruct want as [|w].
      + split; [exact Hr | split; [reflexivity | lia]].
      + pose proof (read_iter_spec r (S w) Hr ltac:(lia)) as H1.
        destruct (Model.read_iter src r (S w)) as [r1 o1]. destruct H1 as [Hr1 [Hl1 [Ho1 Hp1]]].
        specialize (IH r1 (S w - length o1) Hr1 ltac:(lia)).
        destruct (Model.read_fuel src f r1 (S w - length o1)) as [r2 o2]. destruct IH as [Hr2 [Ho2 Hp2]].
        split; [exact Hr2 | split; [|lia]].
        replace (S w) with (length o1 + (S w - length o1)) at 1 by lia.
        rewrite sbytes_app, <- Hp1, <- Ho2, <- Ho1. reflexivity.
  Qed.

  Lemma read_spec r n : Rinv r ->
    let '(r', out) := read r n in Rinv r' /\ out = sbytes (pos r) n /\ pos r' = pos r + n.
  Proof. intros Hr. unfold Model.read. apply read_fuel_spec; [exact Hr | lia]. Qed.

  Lemma reads_spec chunks : forall r, Rinv r ->
    let '(r', outs) := reads r chunks in
    Rinv r' /\ concat outs = sbytes (pos r) (fold_right plus 0 chunks) /\
    map (@length N) outs = chunks /\ pos r' = pos r + fold_right plus 0 chunks.
  Proof.
    induction chunks as [|n cs IH]; intros r Hr; cbn [Model.reads fold_right].
    - split; [exact Hr | split; [reflexivity | split; [reflexivity | lia]]].
    - pose proof (read_spec r n Hr) as H1. destruct (Model.read src r n) as [r1 o1]. destruct H1 as [Hr1 [Ho1 Hp1]].
      specialize (IH r1 Hr1). destruct (Model.reads src r1 cs) as [r2 os]. destruct IH as [Hr2 [Hc [Hl Hp2]]].
      cbn [concat map]. split; [exact Hr2 | split; [|split; [|lia]]].
      + rewrite Hc, Ho1, Hp1. now rewrite sbytes_app.
      + rewrite Hl, Ho1. unfold sbytes. now rewrite map_length, seq_length.
  Qed.

  (* Chunk independence: whatever the chunk sizes (zero included, larger than 8 included),
     read k returns exactly chunk k bytes and the concatenation is the first sum(chunks)
     bytes of the little-endian stream of the source's draws. *)
  Theorem reads_chunk_independent chunks :
    let outs := snd (reads rinit chunks) in
    map (@length N) outs = chunks /\ concat outs = sbytes 0 (fold_right plus 0 chunks).
  Proof.
    pose proof (reads_spec chunks rinit (proj1 rinit_inv)) as H.
    destruct (Model.reads src rinit chunks) as [r outs]. cbn [snd]. destruct H as [_ [Hc [Hl _]]].
    split; [exact Hl|]. rewrite Hc. now rewrite (proj2 rinit_inv).
  Qed.

  Corollary reads_same_stream chunks1 chunks2 :
    fold_right plus 0 chunks1 = fold_right plus 0 chunks2 ->
    concat (snd (reads rinit chunks1)) = concat (snd (reads rinit chunks2)).
  Proof.
    intros H. pose proof (reads_chunk_independent chunks1) as [_ H1].
    pose proof (reads_chunk_independent chunks2) as [_ H2]. simpl in *. now rewrite H1, H2, H.
  Qed.

  (* the source is consumed exactly ceil(total/8) times *)
  Theorem reads_draws chunks :
    rdraws (fst (reads rinit chunks)) = (fold_right plus 0 chunks + 7) / 8.
  Proof.
    pose proof (reads_spec chunks rinit (proj1 rinit_inv)) as H.
    destruct (Model.reads src rinit chunks) as [r outs]. cbn [fst]. destruct H as [[Ho Hb] [_ [_ Hp]]].
    rewrite (proj2 rinit_inv) in Hp. unfold pos in Hp.
    destruct (Nat.eqb_spec (roff r) 0) as [E|E]; [lia|]. destruct (Hb E) as [Hd _]. lia.
  Qed.
End ReaderProofs.

(* seed: only the concatenation of the data slices matters *)
Theorem seed_depends_only_on_concat (H : list N -> list N) domain d1 d2 :
  concat d1 = concat d2 -> seed H domain d1 = seed H domain d2.
Proof. unfold seed. now intros ->. Qed.

(* ================= the monitors accept everything the model produces ================= *)
Lemma list_eqb_refl l : list_eqb l l = true.
Proof. induction l as [|a l IH]; simpl; [reflexivity | now rewrite N.eqb_refl]. Qed.

Lemma model_ok_pad x tail : ok_pad x (pad_mem x tail) = true.
Proof.
  rewrite pad_mem_eq. unfold ok_pad. pose proof (pad_len_pos_mult x) as [H1 H2].
  rewrite pad_starts_with, H2. destruct (Nat.ltb_spec 0 (length (pad x))); [reflexivity | lia].
Qed.

Lemma model_ok_round x : ok_round x (enc_uout (unpad (pad_mem x []))) = true.
Proof. rewrite pad_mem_eq, unpad_pad. unfold ok_round. cbn [enc_uout]. apply list_eqb_refl. Qed.
Lemma model_ok_round_mem x tail : ok_round x (enc_uout (unpad (pad_mem x tail))) = true.
Proof. rewrite pad_mem_eq, unpad_pad. unfold ok_round. cbn [enc_uout]. apply list_eqb_refl. Qed.

Lemma model_ok_unpad d : ok_unpad d (enc_uout (unpad d)) = true.
Proof.
  unfold ok_unpad. destruct (unpad d) eqn:E; simpl.
  - now apply unpad_never_panics in E.
  - reflexivity.
  - apply unpad_result_is_prefix in E as [z ->]. apply is_prefix_app.
Qed.

Lemma model_ok_prefix ss : ok_prefix ss (prefix ss) = true.
Proof.
  unfold ok_prefix, longest_common. destruct ss as [|s0 rest]; [reflexivity|].
  assert (Hc : common (prefix (s0 :: rest)) (s0 :: rest) = true).
  { unfold common. apply forallb_forall. intros s Hs. now apply prefix_is_common. }
  rewrite Hc. cbn [andb].
  destruct (nth_error s0 (length (prefix (s0 :: rest)))) as [b|] eqn:E; [|reflexivity].
  destruct (common (prefix (s0 :: rest) ++ [b]) (s0 :: rest)) eqn:Hc2; [|reflexivity].
  exfalso. unfold common in Hc2. rewrite forallb_forall in Hc2.
  pose proof (prefix_is_longest (s0 :: rest) _ ltac:(discriminate) Hc2) as H.
  apply is_prefix_length in H. rewrite app_length in H. simpl in H. lia.
Qed.

Lemma model_ok_trim ss : ok_trim ss (enc_strs (trim ss)) = true.
Proof.
  unfold ok_trim. rewrite (proj1 (trim_removes_exactly_prefix ss)), prefix_eq_lcp. apply list_eqb_refl.
Qed.

Lemma dec_enc_chunks outs : forall fuel, length outs < fuel -> dec_chunks fuel (enc_strs outs) = Some outs.
Proof.
  induction outs as [|o outs IH]; intros fuel Hf.
  - destruct fuel; [lia | reflexivity].
  - destruct fuel as [|f]; [simpl in Hf; lia|].
    unfold enc_strs. cbn [map concat]. cbn [app dec_chunks]. rewrite Nat2N.id.
    fold (enc_strs outs).
    destruct (Nat.ltb_spec (length (o ++ enc_strs outs)) (length o)) as [H|H]; [rewrite app_length in H; lia|].
    rewrite skipn_app, skipn_all, Nat.sub_diag. cbn [app skipn].
    rewrite IH by (simpl in Hf; lia).
    now rewrite firstn_app, Nat.sub_diag, firstn_all, firstn_O, app_nil_r.
Qed.

Lemma enc_strs_length outs : length outs <= length (enc_strs outs).
Proof. induction outs as [|o outs IH]; [simpl; lia|]. unfold enc_strs in *. cbn [map concat]. rewrite app_length. simpl. lia. Qed.

Lemma model_ok_read vals chunks :
  ok_read vals chunks (let '(r, outs) := reads (src_of vals) rinit chunks in N.of_nat (rdraws r) :: enc_strs outs) = true.
Proof.
  pose proof (reads_chunk_independent (src_of vals) chunks) as [Hl Hc].
  pose proof (reads_draws (src_of vals) chunks) as Hd.
  destruct (reads (src_of vals) rinit chunks) as [r outs]. cbn [fst snd] in *.
  unfold ok_read. rewrite Hd, N.eqb_refl. cbn [andb].
  rewrite dec_enc_chunks by (pose proof (enc_strs_length outs); lia).
  rewrite Hc. rewrite <- Hl at 1. rewrite !map_map.
  rewrite list_eqb_refl. cbn [andb]. unfold sbytes, sbyte, spec_byte, src_of. apply list_eqb_refl.
Qed.

(* Every observation the model can produce, for every decodable call, satisfies every clause
   of the property: the monitor stays silent on the model's own trace. *)
Theorem model_satisfies_monitors e : snd (mon tt e (match step tt e with Some (_, o) => o | None => [] end)) = [].
Proof.
  unfold mon, step. destruct (decode e) as [c|]; [|reflexivity]. cbn [snd].
  destruct c; cbn [exec].
  - now rewrite model_ok_pad.
  - now rewrite model_ok_unpad.
  - now rewrite model_ok_round.
  - now rewrite model_ok_round_mem.
  - now rewrite model_ok_prefix.
  - now rewrite model_ok_trim.
  - now rewrite model_ok_read.
  - destruct (list_eqb (concat d1) (concat d2)); reflexivity.
Qed.
