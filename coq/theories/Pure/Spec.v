(* C19: codec (integer traces <-> model calls), the model-side step, and the property
   monitors.  The monitors are the property statement as boolean functions of what the
   IMPLEMENTATION returned; they never call the model functions of Model.v. *)
From Util Require Import Common.Base Pure.Model.

(* ---------- codec helpers ---------- *)
Fixpoint take_strs (n : nat) (l : list N) : option (list (list N)) :=
  match n with
  | 0 => match l with [] => Some [] | _ => None end
  | S n' =>
    match l with
    | [] => None
    | len :: rest =>
      let k := N.to_nat len in
      if Nat.ltb (length rest) k then None
      else match take_strs n' (skipn k rest) with
           | Some ss => Some (firstn k rest :: ss)
           | None => None
           end
    end
  end.

(* like take_strs but returns the unconsumed rest *)
Fixpoint take_strs_rest (n : nat) (l : list N) : option (list (list N) * list N) :=
  match n with
  | 0 => Some ([], l)
  | S n' =>
    match l with
    | [] => None
    | len :: rest =>
      let k := N.to_nat len in
      if Nat.ltb (length rest) k then None
      else match take_strs_rest n' (skipn k rest) with
           | Some (ss, r) => Some (firstn k rest :: ss, r)
           | None => None
           end
    end
  end.

Definition enc_strs (ss : list (list N)) : list N :=
  concat (map (fun s => N.of_nat (length s) :: s) ss).

Definition enc_uout (u : uout) : list N :=
  match u with UPanic => [0%N] | UErr => [1%N] | UOk l => 2%N :: l end.

Inductive call :=
| CPad (x tail : list N)
| CUnpad (d : list N)
| CRound (x : list N)
| CRoundMem (x tail : list N)   (* PadInPlace inside a re-used buffer whose spare capacity holds [tail], then UnpadInPlace *)
| CPrefix (ss : list (list N))
| CTrim (ss : list (list N))
| CRead (vals : list N) (chunks : list nat)
| CSeed (d1 d2 : list (list N)).

Definition decode (e : list N) : option call :=
  match e with
  | 1%N :: lx :: rest =>
    let k := N.to_nat lx in
    if Nat.ltb (length rest) k then None else Some (CPad (firstn k rest) (skipn k rest))
  | 2%N :: d => Some (CUnpad d)
  | 3%N :: x => Some (CRound x)
  | 8%N :: lx :: rest =>
    let k := N.to_nat lx in
    if Nat.ltb (length rest) k then None else Some (CRoundMem (firstn k rest) (skipn k rest))
  | 4%N :: n :: rest => option_map CPrefix (take_strs (N.to_nat n) rest)
  | 5%N :: n :: rest => option_map CTrim (take_strs (N.to_nat n) rest)
  | 6%N :: nv :: rest =>
    let k := N.to_nat nv in
    if Nat.ltb (length rest) k then None
    else Some (CRead (firstn k rest) (map N.to_nat (skipn k rest)))
  | 7%N :: n1 :: rest =>
    match take_strs_rest (N.to_nat n1) rest with
    | Some (d1, n2 :: rest2) => option_map (CSeed d1) (take_strs (N.to_nat n2) rest2)
    | _ => None
    end
  | _ => None
  end.

Definition src_of (vals : list N) (k : nat) : N := nth k vals 0%N.

Definition exec (c : call) : list N :=
  match c with
  | CPad x tail => pad_mem x tail
  | CUnpad d => enc_uout (unpad d)
  | CRound x => enc_uout (unpad (pad_mem x []))
  | CRoundMem x tail => enc_uout (unpad (pad_mem x tail))
  | CPrefix ss => prefix ss
  | CTrim ss => enc_strs (trim ss)
  | CRead vals chunks =>
    let '(r, outs) := reads (src_of vals) (rinit) chunks in
    N.of_nat (rdraws r) :: enc_strs outs
  | CSeed d1 d2 =>
    (* equal seeds give equal streams (seed_depends_only_on_concat); for different data the
       harness expects different streams: an oracle assumption about SHA-256/ChaCha8 *)
    if list_eqb (concat d1) (concat d2) then [1%N] else [0%N]
  end.

Definition step (s : unit) (e : list N) : option (unit * list N) :=
  match decode e with Some c => Some (tt, exec c) | None => None end.

(* ---------- specification-level definitions used by the monitors ---------- *)
Fixpoint lcp2 (a b : list N) : list N :=
  match a, b with
  | x :: a', y :: b' => if N.eqb x y then x :: lcp2 a' b' else []
  | _, _ => []
  end.
Definition lcp (ss : list (list N)) : list N :=
  match ss with [] => [] | s :: rest => fold_left lcp2 rest s end.

Definition common (p : list N) (ss : list (list N)) : bool := forallb (is_prefix p) ss.
(* p is a longest common prefix: common, and p extended by the next byte of the first string is not *)
Definition longest_common (p : list N) (ss : list (list N)) : bool :=
  match ss with
  | [] => match p with [] => true | _ => false end
  | s0 :: _ =>
    common p ss &&
    match nth_error s0 (length p) with
    | None => true
    | Some b => negb (common (p ++ [b]) ss)
    end
  end.

Definition dec_uout (o : list N) : option uout :=
  match o with
  | [0%N] => Some UPanic | [1%N] => Some UErr | 2%N :: l => Some (UOk l) | _ => None
  end.

(* byte i of the little-endian stream of the logged draws *)
Definition spec_byte (vals : list N) (i : nat) : N := le_byte (nth (i / 8) vals 0%N) (i mod 8).

Fixpoint dec_chunks (fuel : nat) (l : list N) : option (list (list N)) :=
  match fuel with
  | 0 => None
  | S f =>
    match l with
    | [] => Some []
    | len :: rest =>
      let k := N.to_nat len in
      if Nat.ltb (length rest) k then None
      else match dec_chunks f (skipn k rest) with
           | Some cs => Some (firstn k rest :: cs)
           | None => None
           end
    end
  end.

(* ---------- monitors: property 19, clauses 1..6 ---------- *)
Definition ok_pad (x out : list N) : bool :=
  Nat.ltb 0 (length out) && Nat.eqb (length out mod 32) 0 && is_prefix x out.

Definition ok_round (x out : list N) : bool := list_eqb out (2%N :: x).

Definition ok_unpad (d out : list N) : bool :=
  match dec_uout out with
  | Some UPanic => false
  | Some UErr => true
  | Some (UOk y) => is_prefix y d
  | None => false
  end.

Definition ok_prefix (ss : list (list N)) (out : list N) : bool := longest_common out ss.

Definition ok_trim (ss : list (list N)) (out : list N) : bool :=
  list_eqb out (enc_strs (map (skipn (length (lcp ss))) ss)).

Definition ok_read (vals : list N) (chunks : list nat) (out : list N) : bool :=
  let total := fold_right plus 0 chunks in
  match out with
  | [] => false
  | d :: body =>
    N.eqb d (N.of_nat ((total + 7) / 8)) &&
    match dec_chunks (S (length body)) body with
    | None => false
    | Some outs =>
      list_eqb (map (fun o => N.of_nat (length o)) outs) (map N.of_nat chunks) &&
      list_eqb (concat outs) (map (spec_byte vals) (seq 0 total))
    end
  end.

Definition mon (m : unit) (e o : list N) : unit * list (nat * nat) :=
  (tt,
   match decode e with
   | None => []
   | Some (CPad x _) => if ok_pad x o then [] else [(19, 1)]
   | Some (CRound x) => if ok_round x o then [] else [(19, 2)]
   | Some (CRoundMem x _) => if ok_round x o then [] else [(19, 2)]
   | Some (CUnpad d) => if ok_unpad d o then [] else [(19, 3)]
   | Some (CPrefix ss) => if ok_prefix ss o then [] else [(19, 4)]
   | Some (CTrim ss) => if ok_trim ss o then [] else [(19, 5)]
   | Some (CRead vals chunks) => if ok_read vals chunks o then [] else [(19, 6)]
   | Some (CSeed d1 d2) => if negb (list_eqb (concat d1) (concat d2)) || list_eqb o [1%N] then [] else [(19, 7)]
   end).

Definition run_check_pure (cfg : list N) (evs obss : list (list N)) : list issue :=
  run_check step mon tt tt evs obss.
