(* C19 — byte/string codecs: padding round-trips, prefix is longest, prng is reproducible.
   Statements only; each closed by [exact] of a lemma in Proofs.v, with its assumptions printed. *)
From Util Require Import Common.Base Pure.Model Pure.Spec Pure.Proofs.

(* PadInPlace(x): length is a positive multiple of 32 *)
Theorem c19_pad_len : forall x, 0 < length (pad x) /\ length (pad x) mod 32 = 0.
Proof. exact pad_len_pos_mult. Qed.
Print Assumptions c19_pad_len.

(* ... starts with x *)
Theorem c19_pad_prefix : forall x, exists s, pad x = x ++ s.
Proof. intros x. apply is_prefix_spec. exact (pad_starts_with x). Qed.
Print Assumptions c19_pad_prefix.

(* the code (both the in-place and the allocating branch, with arbitrary bytes in the
   spare capacity) computes [pad] *)
Theorem c19_pad_ignores_capacity : forall x tail, pad_mem x tail = pad x.
Proof. exact pad_mem_eq. Qed.
Print Assumptions c19_pad_ignores_capacity.

(* UnpadInPlace(PadInPlace(x)) = x for EVERY x, the empty message included *)
Theorem c19_unpad_pad : forall x tail, unpad (pad_mem x tail) = UOk x.
Proof. intros x tail. rewrite pad_mem_eq. exact (unpad_pad x). Qed.
Print Assumptions c19_unpad_pad.

(* UnpadInPlace never panics and never over-reads: a result is a prefix of the input *)
Theorem c19_unpad_total_no_overread :
  forall d, unpad d <> UPanic /\ (forall y, unpad d = UOk y -> exists z, d = y ++ z).
Proof. intros d. split; [exact (unpad_never_panics d) | exact (unpad_result_is_prefix d)]. Qed.
Print Assumptions c19_unpad_total_no_overread.

(* historical: the pinned code failed both (defect D14, repaired by a fix: commit) *)
Theorem c19_unpad_pinned_refuted : unpad_pinned (pad []) = UErr /\ unpad_pinned [] = UPanic.
Proof. exact unpad_pinned_refuted. Qed.

(* Prefix: a common prefix ... *)
Theorem c19_prefix_is_common : forall strs s, In s strs -> is_prefix (prefix strs) s = true.
Proof. exact prefix_is_common. Qed.
Print Assumptions c19_prefix_is_common.

(* ... and every common prefix is a prefix of it (so it is the longest), for arbitrary bytes *)
Theorem c19_prefix_is_longest :
  forall strs q, strs <> [] -> (forall s, In s strs -> is_prefix q s = true) -> is_prefix q (prefix strs) = true.
Proof. exact prefix_is_longest. Qed.
Print Assumptions c19_prefix_is_longest.

Theorem c19_prefix_pinned_refuted :
  prefix_pinned [[195; 169; 49]; [195; 169; 50]]%N = [] /\ prefix [[195; 169; 49]; [195; 169; 50]]%N = [195; 169]%N.
Proof. exact prefix_pinned_refuted. Qed.

(* TrimPrefix removes exactly the longest common prefix from every string *)
Theorem c19_trim_removes_exactly_prefix : forall strs,
  trim strs = map (skipn (length (prefix strs))) strs /\
  (forall s, In s strs -> prefix strs ++ skipn (length (prefix strs)) s = s).
Proof. exact trim_removes_exactly_prefix. Qed.
Print Assumptions c19_trim_removes_exactly_prefix.

(* randReader: for every source and every list of chunk sizes, read k returns exactly
   chunk k bytes, and the concatenation is the first sum(chunks) bytes of the little-endian
   stream of draws: the stream does not depend on the chunking. *)
Theorem c19_reader_chunk_independent : forall src chunks,
  let outs := snd (reads src rinit chunks) in
  map (@length N) outs = chunks /\ concat outs = sbytes src 0 (fold_right plus 0 chunks).
Proof. exact reads_chunk_independent. Qed.
Print Assumptions c19_reader_chunk_independent.

Theorem c19_reader_same_stream : forall src chunks1 chunks2,
  fold_right plus 0 chunks1 = fold_right plus 0 chunks2 ->
  concat (snd (reads src rinit chunks1)) = concat (snd (reads src rinit chunks2)).
Proof. exact reads_same_stream. Qed.
Print Assumptions c19_reader_same_stream.

Theorem c19_seed_depends_only_on_concatenation : forall H domain d1 d2,
  concat d1 = concat d2 -> seed H domain d1 = seed H domain d2.
Proof. exact seed_depends_only_on_concat. Qed.
Print Assumptions c19_seed_depends_only_on_concatenation.

(* the boolean monitors that are run on the implementation's outputs accept every output of
   the model, for every input *)
Theorem c19_model_satisfies_monitors : forall e,
  snd (mon tt e (match step tt e with Some (_, o) => o | None => [] end)) = [].
Proof. exact model_satisfies_monitors. Qed.
Print Assumptions c19_model_satisfies_monitors.

(* non-vacuity *)
Example c19_example_pad : pad [1; 2; 3]%N = ([1; 2; 3] ++ repeat 0 28 ++ [28])%N /\ length (pad (repeat 7%N 31)) = 32 /\ length (pad (repeat 7%N 32)) = 64.
Proof. vm_compute. repeat split. Qed.
Example c19_example_read : snd (reads (fun k => (N.of_nat (k + 1) * 1000)%N) rinit [3; 0; 9; 4]) =
  [[232; 3; 0]; []; [0; 0; 0; 0; 0; 208; 7; 0; 0]; [0; 0; 0; 0]]%N.
Proof. vm_compute. reflexivity. Qed.
