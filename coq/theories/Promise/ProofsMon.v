(* C11: the monitors of Promise/Spec.v accept the model -- part 1.
   The relation R between monitor state and model state, the "settled" invariant of the eager schedule, and the
   STATIC half of the argument: in every state related by R that satisfies the model invariant and is settled,
   the per-actor judgement [check_actor] of the monitors, evaluated on the model's own observation, can only
   report clause 7 (the recorded finding D20/D21: a container awaiter with a pending promise current ignores its
   err / cancel channel).  Part 2 (ProofsMon2.v) shows that every harness event preserves R / Inv / settled. *)
From Util Require Import Common.Base Common.ListLemmas Promise.Model Promise.Spec Promise.Proofs.

Local Open Scope N_scope.

(* ------------------------------------------------------------------ *)
(* codes *)

Definition kcode (k : akind) : N := match k with KAwait => 0 | KErrCh => 1 | KCancelCh => 2 end.

Lemma kind_of_kcode n k : kind_of n = Some k -> n = kcode k.
Proof.
  unfold kind_of. destruct n as [|[[p|p|]|[p|p|]|]]; intros H; try discriminate H; inversion H; reflexivity.
Qed.

Lemma err_code_of n : err_code (err_of n) = n.
Proof.
  unfold err_of. destruct n as [|[p|[p|p|]|]]; cbn [err_code]; try reflexivity.
  all: rewrite N2Nat.id; lia.
Qed.

Lemma ch_of_open n : ch_of n = ChOpen -> n = 0.
Proof. unfold ch_of. destruct n as [|[p|p|]]; intros H; try discriminate H; reflexivity. Qed.

Lemma ch_of_0 : ch_of 0 = ChOpen.
Proof. reflexivity. Qed.

(* ------------------------------------------------------------------ *)
(* the relation *)

Definition wonb (l : list actor) (p w : nat) : bool :=
  match nth_error l w with Some x => won p x | None => false end.

(* monitor record of a promise against the model's promise record *)
Definition prel (l : list actor) (p : nat) (mq : mprom) (q : prom) : Prop :=
  mres mq = option_map (fun r : N * err => (fst r, err_code (snd r))) (wres q) /\
  mpub mq = dclosed q /\
  (forall w, mwin mq = Some w <-> wonb l p w = true).

(* the common part for awaiters: kind, context, channel *)
Definition awrel (kind : N) (k : akind) (mx : mact) (x : actor) : Prop :=
  mkind mx = kind /\ mk mx = kcode k /\ mctx mx = actx x /\ ach x = ch_of (mch mx).

(* what justifies a return that did not come through a promise's done channel *)
Definition nores (direct : bool) (mx : mact) (v : N) (e : err) : Prop :=
  v = 0 /\ ((mctx mx = true /\ e = ECanceled) \/ ch_justifies direct mx 0 (err_code e) = true).

Definition arel (mx : mact) (x : actor) : Prop :=
  match pc x with
  | PSet _ _ _ => False
  | PSetGate p _ _ _ | PSetRet p _ _ => mkind mx = 3 /\ mp mx = p
  | PAw k p => awrel 4 k mx x /\ mp mx = p
  | ARet v e (Some p) => (mkind mx = 4 /\ mp mx = p) \/ (mkind mx = 8 /\ msec mx = Some (Some p))
  | ARet v e None => (mkind mx = 4 /\ nores true mx v e) \/ (mkind mx = 8 /\ nores false mx v e)
  | CGate k => awrel 8 k mx x
  | CNil k _ => awrel 8 k mx x /\ msec mx = Some None
  | CProm k p _ => awrel 8 k mx x /\ msec mx = Some (Some p)
  | CSetGate po _ => mkind mx = 9 /\ msetp mx = po
  | CSetRet _ => mkind mx = 9
  | CGetGate | CGetRet _ _ => mkind mx = 11
  end.

Definition RP (mps : list mprom) (ps : list prom) (l : list actor) : Prop :=
  length mps = length ps /\
  forall p mq q, nth_error mps p = Some mq -> nth_error ps p = Some q -> prel l p mq q.

Definition RA (mas : list mact) (l : list actor) : Prop :=
  length mas = length l /\
  forall a mx x, nth_error mas a = Some mx -> nth_error l a = Some x -> arel mx x.

Definition R (m : mstt) (s : st) : Prop :=
  mcur m = cprom s /\ RP (mproms m) (proms s) (acts s) /\ RA (macts m) (acts s).

(* the eager schedule: no awaiter that is not parked at an exit gate has a ready select case *)
Definition Settled (s : st) (ex : list nat) : Prop :=
  forall a x, nth_error (acts s) a = Some x -> at_select x = true -> memb a ex = false -> any_ready s x = false.

(* only container awaiters inside their select are parked at an exit gate *)
Definition csel (x : actor) : bool := match pc x with CNil _ _ | CProm _ _ _ => true | _ => false end.
Definition ExOk (s : st) (ex : list nat) : Prop :=
  forall a, memb a ex = true -> exists x, nth_error (acts s) a = Some x /\ csel x = true.

(* ------------------------------------------------------------------ *)
(* list plumbing for the observation vector *)

Lemma nth_error_seq_eq n : forall s j i, nth_error (seq s n) j = Some i -> i = (s + j)%nat /\ (j < n)%nat.
Proof.
  induction n as [|n IH]; intros s j i H; [destruct j; discriminate|].
  destruct j as [|j]; cbn in H.
  - inversion H. lia.
  - apply IH in H. lia.
Qed.

Lemma nth_error_combine {A B} (l1 : list A) (l2 : list B) i a b :
  nth_error (combine l1 l2) i = Some (a, b) -> nth_error l1 i = Some a /\ nth_error l2 i = Some b.
Proof.
  revert l2 i. induction l1 as [|h1 t1 IH]; intros l2 i H; [destruct i; discriminate|].
  destruct l2 as [|h2 t2]; [destruct i; discriminate|]. destruct i as [|i]; cbn in *.
  - inversion H. auto.
  - apply IH. exact H.
Qed.

Lemma chunk3_flat {A} (f : A -> N * N * N) (l : list A) :
  chunk3 (flat_map (fun y => let '(a, b, c) := f y in [a; b; c]) l) = map f l.
Proof.
  induction l as [|y l IH]; [reflexivity|]. cbn [flat_map map].
  destruct (f y) as [[a b] c]. cbn [app chunk3]. now rewrite IH.
Qed.

Definition trip (h : hst) (ax : nat * actor) : N * N * N :=
  pccode3 (ms h) (memb (fst ax) (hexit h)) (pc (snd ax)).

Lemma chunk3_obs h : chunk3 (obs h) = map (trip h) (combine (seq 0 (length (acts (ms h)))) (acts (ms h))).
Proof. unfold obs, pccode. apply (chunk3_flat (trip h)). Qed.

Lemma obs_row h i t : nth_error (chunk3 (obs h)) i = Some t ->
  exists x, nth_error (acts (ms h)) i = Some x /\ t = pccode3 (ms h) (memb i (hexit h)) (pc x).
Proof.
  rewrite chunk3_obs, nth_error_map.
  destruct (nth_error (combine (seq 0 (length (acts (ms h)))) (acts (ms h))) i) as [[j x]|] eqn:E; [|discriminate].
  cbn [option_map]. intros H. inversion H. apply nth_error_combine in E as [E1 E2].
  apply nth_error_seq_eq in E1 as [-> _]. exists x. split; [exact E2 | reflexivity].
Qed.

Lemma combine_seq_nth {A} (l : list A) : forall b i x, nth_error l i = Some x ->
  nth_error (combine (seq b (length l)) l) i = Some ((b + i)%nat, x).
Proof.
  induction l as [|y l IH]; intros b i x G; [destruct i; discriminate|].
  cbn [length seq combine]. destruct i as [|i]; cbn in *.
  - inversion G. now rewrite Nat.add_0_r.
  - rewrite (IH (S b) i x G). f_equal. f_equal. lia.
Qed.

Lemma obs_row_inv h i x : nth_error (acts (ms h)) i = Some x ->
  nth_error (chunk3 (obs h)) i = Some (pccode3 (ms h) (memb i (hexit h)) (pc x)).
Proof.
  intros G. rewrite chunk3_obs, nth_error_map, (combine_seq_nth _ 0%nat i x G). reflexivity.
Qed.

(* ------------------------------------------------------------------ *)
(* the monitor step, unfolded once *)

Definition quiet_of (o : list N) : bool :=
  negb (existsb (fun t : N * N * N => let '(c, _, _) := t in N.eqb c 1 || N.eqb c 7) (chunk3 o)).

Definition bad_of (m : mstt) (o : list N) : list nat :=
  flat_map (fun r : nat * mact * (N * N * N) => let '(i, x, t) := r in check_actor m (quiet_of o) i x t)
           (combine (combine (seq 0 (length (macts m))) (macts m)) (chunk3 o)).

Definition monN (m : mstt) (e o : list N) : mstt * list (nat * nat) :=
  (mapply m e,
   map (fun c => (11%nat, c))
       (filter (fun c => existsb (Nat.eqb c) (bad_of (mapply m e) o)) [1; 2; 3; 4; 5; 6; 7; 8; 9]%nat)).

Lemma bad_of_row m o c : In c (bad_of m o) ->
  exists i mx t, nth_error (macts m) i = Some mx /\ nth_error (chunk3 o) i = Some t /\
                 In c (check_actor m (quiet_of o) i mx t).
Proof.
  unfold bad_of. intros H. apply in_flat_map in H as [[[i mx] t] [Hin Hc]].
  apply In_nth_error in Hin as [j Hj]. apply nth_error_combine in Hj as [Hj Ht].
  apply nth_error_combine in Hj as [Hi Hm]. apply nth_error_seq_eq in Hi as [-> _]. cbn [Nat.add] in *.
  exists j, mx, t. auto.
Qed.

(* only clause 7 can be reported if every row only reports clause 7 *)
Lemma only7_filter (bad : list nat) (P : Prop) : (forall c, In c bad -> c = 7%nat /\ P) ->
  forall p, In p (map (fun c => (11%nat, c)) (filter (fun c => existsb (Nat.eqb c) bad) [1; 2; 3; 4; 5; 6; 7; 8; 9]%nat)) ->
  p = (11%nat, 7%nat) /\ P.
Proof.
  intros H p Hp. apply in_map_iff in Hp as [c [<- Hc]]. apply filter_In in Hc as [_ Hc].
  apply existsb_exists in Hc as [c' [Hin Hc']]. apply Nat.eqb_eq in Hc'. subst c'.
  destruct (H c Hin) as [-> HP]. auto.
Qed.

(* ------------------------------------------------------------------ *)
(* facts that R + Inv give about the monitor's view of a promise *)

Lemma R_prom m s p q : R m s -> nth_error (proms s) p = Some q ->
  exists mq, nth_error (mproms m) p = Some mq /\ prel (acts s) p mq q.
Proof.
  intros (_ & (Hl & HP) & _) Gp.
  destruct (nth_error (mproms m) p) as [mq|] eqn:Gm.
  - exists mq. split; [reflexivity | eauto].
  - apply nth_error_None in Gm. apply nth_error_nth_len in Gp. lia.
Qed.

Lemma has_result_isdone m s p q : Inv s -> R m s -> nth_error (proms s) p = Some q -> has_result m p = isdone q.
Proof.
  intros (_ & _ & HP & _) HR Gp. destruct (R_prom m s p q HR Gp) as (mq & Gm & (Hres & _)).
  destruct (HP p q Gp) as (P1 & P2 & _). unfold has_result. rewrite Gm, Hres.
  destruct (isdone q).
  - destruct (P2 eq_refl) as [_ Hw]. destruct (wres q); [reflexivity | congruence].
  - destruct (P1 eq_refl) as (_ & _ & -> & _). reflexivity.
Qed.

Lemma result_is_closed m s p q : Inv s -> R m s -> nth_error (proms s) p = Some q -> dclosed q = true ->
  result_is m p (fval q) (err_code (ferr q)) = true.
Proof.
  intros (_ & _ & HP & _) HR Gp Hd. destruct (R_prom m s p q HR Gp) as (mq & Gm & (Hres & Hpub & _)).
  destruct (HP p q Gp) as (_ & _ & _ & _ & _ & P6 & _). unfold result_is. rewrite Gm, Hres, Hpub, Hd, (P6 Hd).
  cbn [option_map andb]. unfold pair_eqb. cbn [fst snd]. now rewrite !N.eqb_refl.
Qed.

Lemma fired_ready k mx x : mk mx = kcode k -> ach x = ch_of (mch mx) -> fired mx = ch_ready k (ach x).
Proof.
  intros Hk Hc. unfold fired. rewrite Hk, Hc. destruct k; cbn [kcode ch_ready]; try reflexivity.
  all: destruct (N.eqb_spec (mch mx) 0) as [->|Hne]; [reflexivity|];
    destruct (ch_of (mch mx)) eqn:E; try reflexivity; apply ch_of_open in E; contradiction.
Qed.

(* the observation is quiet => the model state is quiescent *)
Lemma quiet_quiescent h : Settled (ms h) (hexit h) -> ExOk (ms h) (hexit h) ->
  quiet_of (obs h) = true -> quiescent (ms h) = true.
Proof.
  intros Hs Hex Hq. unfold quiescent. apply forallb_forall. intros x Hin. apply In_nth_error in Hin as [i G].
  unfold quiet_of in Hq. apply negb_true_iff in Hq.
  assert (Hrow : forall a b c, pccode3 (ms h) (memb i (hexit h)) (pc x) = (a, b, c) -> a <> 1).
  { intros a b c E Ha. subst a. pose proof (obs_row_inv h i x G) as Hr. rewrite E in Hr.
    apply nth_error_In in Hr.
    assert (Hx : existsb (fun t : N * N * N => let '(c0, _, _) := t in N.eqb c0 1 || N.eqb c0 7) (chunk3 (obs h)) = true).
    { apply existsb_exists. eexists. split; [exact Hr | reflexivity]. }
    congruence. }
  specialize (Hs i x G). specialize (Hex i). rewrite G in Hex.
  unfold at_gate, at_select, any_ready, csel in *. unfold pccode3 in Hrow.
  destruct (pc x) as [p v e|p v e t|p r t|k p|v e src|k|k ch|k p ch|po r|r| |po ch] eqn:Epc; try reflexivity;
    try (exfalso; eapply Hrow; reflexivity).
  - cbn [negb andb]. destruct (memb i (hexit h)).
    + destruct (Hex eq_refl) as (x0 & E0 & Hc). inversion E0; subst x0. rewrite Epc in Hc. discriminate Hc.
    + now rewrite (Hs eq_refl eq_refl).
  - destruct (memb i (hexit h)); [exfalso; eapply Hrow; reflexivity|]. cbn [negb andb].
    now rewrite (Hs eq_refl eq_refl).
  - destruct (memb i (hexit h)); [exfalso; eapply Hrow; reflexivity|]. cbn [negb andb].
    now rewrite (Hs eq_refl eq_refl).
Qed.

Lemma winner_eq (l : list actor) p mq i : (forall w, mwin mq = Some w <-> wonb l p w = true) ->
  match mwin mq with Some w => Nat.eqb w i | None => false end = wonb l p i.
Proof.
  intros H. destruct (mwin mq) as [w|] eqn:E.
  - destruct (Nat.eqb_spec w i) as [->|Hne]; [symmetry; now apply H|].
    destruct (wonb l p i) eqn:Ew; [|reflexivity]. apply H in Ew. congruence.
  - destruct (wonb l p i) eqn:Ew; [|reflexivity]. apply H in Ew. discriminate.
Qed.

Lemma nores_djust m mx v e : nores true mx v e -> djust m mx v (err_code e) = true.
Proof.
  intros (-> & [(Hc & ->)|Hj]); unfold djust.
  - rewrite Hc. cbn. now rewrite orb_true_r.
  - rewrite Hj. now rewrite orb_true_r.
Qed.

Lemma nores_cjust m mx v e : nores false mx v e -> cjust m mx v (err_code e) = true.
Proof.
  intros (-> & [(Hc & ->)|Hj]); unfold cjust.
  - rewrite Hc. reflexivity.
  - rewrite Hj. now rewrite orb_true_r.
Qed.

(* the situation of the recorded finding D20/D21: the state is quiescent and a container awaiter with a live
   context is blocked inside p.AwaitWithCancelCh although its own err / cancel channel has fired, p being the
   current promise of the container and still pending *)
Definition d21 (s : st) : Prop :=
  quiescent s = true /\
  exists a x k p ch q, nth_error (acts s) a = Some x /\ pc x = CProm k p ch /\ actx x = false /\
                       ch_ready k (ach x) = true /\ cprom s = Some p /\ nth_error (proms s) p = Some q /\ isdone q = false.

(* the STATIC half: in a related, invariant, settled state the judgement of one actor's observed status
   reports at most clause 7, and only in the D20/D21 situation *)
Lemma check_actor_ok m s quiet i inex mx x :
  Inv s -> R m s -> (quiet = true -> quiescent s = true) ->
  nth_error (macts m) i = Some mx -> nth_error (acts s) i = Some x ->
  forall c, In c (check_actor m quiet i mx (pccode3 s inex (pc x))) -> c = 7%nat /\ d21 s.
Proof.
  intros HI HR Hq Gm G c Hc.
  pose proof HR as (Hcur & (HLp & HP) & (HLa & HA)). pose proof (HA i mx x Gm G) as Hrel.
  pose proof HI as (_ & _ & HPok & HAok). pose proof (HAok i x G) as Hx.
  unfold arel in Hrel. unfold aok in Hx. unfold check_actor, pccode3 in Hc.
  destruct (pc x) as [p v e|p v e t|p r t|k p|v e src|k|k ch|k p ch|po r|r| |po ch] eqn:Epc.
  - contradiction.
  - destruct Hrel as (Hk & Hp). rewrite Hk in Hc. cbn in Hc. contradiction.
  - destruct Hrel as (Hk & Hp). rewrite Hk, Hp in Hc. destruct Hx as (Hlt & _).
    destruct (nth_error (proms s) p) as [q|] eqn:Gp; [|apply nth_error_None in Gp; lia].
    destruct (R_prom m s p q HR Gp) as (mq & Gmq & (_ & _ & Hw)). rewrite Gmq in Hc.
    rewrite (winner_eq (acts s) p mq i Hw) in Hc. unfold wonb in Hc. rewrite G in Hc. unfold won in Hc. rewrite Epc in Hc.
    exfalso. destruct r; cbn in Hc; rewrite ?Nat.eqb_refl in Hc; cbn in Hc; contradiction.
  - destruct Hrel as ((Hk & Hmk & Hctx & Hch) & Hp). rewrite Hk in Hc. exfalso. destruct quiet; cbn in Hc; [|contradiction].
    destruct (await_quiescent_g s i x k p HI (Hq eq_refl) G Epc) as (Hc1 & Hc2 & q & Gp & Hd).
    rewrite Hp, (has_result_isdone m s p q HI HR Gp), Hd, Hctx, Hc1, (fired_ready k mx x Hmk Hch), Hc2 in Hc.
    cbn in Hc. contradiction.
  - exfalso. destruct src as [p|].
    + destruct Hx as (q & Gp & Hd & <- & <-). pose proof (result_is_closed m s p q HI HR Gp Hd) as Hres.
      destruct Hrel as [(Hk & Hp)|(Hk & Hsec)]; rewrite Hk in Hc; cbn in Hc.
      * unfold djust in Hc. rewrite Hp, Hres in Hc. cbn in Hc. contradiction.
      * unfold cjust in Hc. rewrite Hsec, Hres, orb_true_r in Hc. cbn in Hc. contradiction.
    + destruct Hrel as [(Hk & Hn)|(Hk & Hn)]; rewrite Hk in Hc; cbn in Hc.
      * rewrite (nores_djust m mx v e Hn) in Hc. contradiction.
      * rewrite (nores_cjust m mx v e Hn) in Hc. contradiction.
  - destruct Hrel as (Hk & _). rewrite Hk in Hc. cbn in Hc. contradiction.
  - destruct Hrel as ((Hk & Hmk & Hctx & Hch) & Hsec). rewrite Hk in Hc. exfalso.
    destruct inex; [cbn in Hc; contradiction|]. destruct quiet; cbn in Hc; [|contradiction].
    destruct (cawait_quiescent_g s i x HI (Hq eq_refl) G) as (HN & _).
    destruct (HN k ch Epc) as (Hc1 & Hc2 & Hcp).
    rewrite Hsec, Hcur, Hcp, Hctx, Hc1, (fired_ready k mx x Hmk Hch), Hc2 in Hc. cbn in Hc. contradiction.
  - destruct Hrel as ((Hk & Hmk & Hctx & Hch) & Hsec). rewrite Hk in Hc.
    destruct inex; [cbn in Hc; contradiction|]. destruct quiet; cbn in Hc; [|contradiction].
    destruct (cawait_quiescent_g s i x HI (Hq eq_refl) G) as (_ & HC).
    destruct (HC k p ch Epc) as (Hc1 & Hcp & q & Gp & Hd).
    rewrite Hsec, Hcur, Hcp, Hctx, Hc1, (has_result_isdone m s p q HI HR Gp), Hd in Hc. cbn in Hc.
    rewrite Nat.eqb_refl in Hc. cbn in Hc. destruct (fired mx) eqn:Ef; cbn in Hc; [|contradiction].
    destruct Hc as [<-|[]]. split; [reflexivity|]. split; [exact (Hq eq_refl)|].
    rewrite (fired_ready k mx x Hmk Hch) in Ef. exists i, x, k, p, ch, q. auto 10.
  - destruct Hrel as (Hk & _). rewrite Hk in Hc. cbn in Hc. contradiction.
  - rewrite Hrel in Hc. cbn in Hc. contradiction.
  - rewrite Hrel in Hc. cbn in Hc. contradiction.
  - rewrite Hrel in Hc. cbn in Hc. contradiction.
Qed.

(* ... hence for a whole observation *)
Definition HInv (m : mstt) (h : hst) : Prop :=
  R m (ms h) /\ Inv (ms h) /\ Settled (ms h) (hexit h) /\ ExOk (ms h) (hexit h).

Lemma bad_of_only7 m h : HInv m h -> forall c, In c (bad_of m (obs h)) -> c = 7%nat /\ d21 (ms h).
Proof.
  intros (HR & HI & Hs & Hex) c Hc. apply bad_of_row in Hc as (i & mx & t & Gm & Gt & Hc).
  apply obs_row in Gt as (x & G & ->).
  apply (check_actor_ok m (ms h) (quiet_of (obs h)) i (memb i (hexit h)) mx x HI HR); auto.
  intros Hq. now apply quiet_quiescent.
Qed.
