(* Promise / PromiseContainer: codec between harness histories and model events, the eager schedule the
   harness realises, observation vector, and the monitors of C11 on observed traces.

   Config line: [x]   x = 1: container awaiters also park at the EXIT gate of their HoldLock section
                      (so that "several select cases ready" is reachable); otherwise they run on to their select.
   Events (one new actor per call; actor ids and promise ids are allocation order):
     [1]                         NewPromise
     [2; v; e]                   NewPromiseWithResult(v, e)
     [3; p; v; e]                p.SetResult(v, e): runs its Swap; returns false or parks at promise site 0
     [4; k; p; ctx; ch; h1;h2;h3] p.Await (k=0) / AwaitWithErrCh (1) / AwaitWithCancelCh (2); ctx=1: the context is
                                 already cancelled; ch: the channel already fired (1 closed, 2+e holds error e; cancelCh: 1 closed, 2 written)
     [5; a; h1; h2; h3]          let actor a run from the gate it is parked at
     [6; a]                      cancel the context of awaiter a
     [7; a; c]                   fire the channel of awaiter a (1 close, 2+e send error e)
     [8; k; ctx; ch]             container Await* (parks at the HoldLock gate)
     [9; q]                      container SetPromise (q=0 nil, q=p+1 promise p)
     [10; v; e]                  container SetResult(v, e)
     [11]                        container GetPromise
     [20; ns; na; it]            (only event of its history) free-running stress: it rounds of ns SetResult calls racing with na
                                 awaiters on a fresh promise, no gates; observation [t; d; p]: t = 1 iff every round had exactly
                                 one true, d = 1 iff every awaiter of every round returned that call's (value, error), p = panics
     [12; a; h1; h2; h3]         (config 1 only) let container awaiter a continue from the EXIT gate of its section
   h1 h2 h3 = the status triple of the stepped actor as observed afterwards: it resolves which ready
   select case the Go runtime took ("the harness reads the choice off the observation", DESIGN 3.2).
   Observation: for every actor three numbers
     [1;0;0] parked at a gate   [2;0;0] blocked   [3;b;0] SetResult returned b   [4;v;e] await returned (v, e)
     [5;r;0] container SetPromise (r=0) / SetResult (r=1, returned true) returned
     [6;q;c] GetPromise returned promise q-1 (0 nil), c = its wait channel is closed now
     [7;0;0] spinning (harness only: passed its gate more than 3 times running alone)   [9;0;0] panicked
   Errors: 0 nil, 1 context.Canceled, 2 context.DeadlineExceeded, 3+i other error i; in observations also 98 = the cause of a
   context cancelled with a cause, 99 = any other error value (neither is ever passed to SetResult by the harness).
   Contexts: the harness hands the awaiters contexts of three flavours (plain WithCancel; ending like a deadline, Err() =
   DeadlineExceeded; cancelled with a cause, Err() = Canceled and Cause = error 98), chosen from the number of awaiters
   created before in the history.  The flavour is not part of the event: every await of Promise / PromiseContainer returns
   the literal context.Canceled (error 1) on account of an ended context, whatever the context's own Err() or cause, and
   that is what the model predicts and what clauses 2 / 3 accept ((0, 1) under a cancelled context); an await that hands on
   the context's own error or cause is observed as (0, 2) / (0, 98) and fails clause 2 / 3. *)
From Util Require Import Common.Base Common.ListLemmas Promise.Model.

Local Open Scope N_scope.

Definition err_of (n : N) : err :=
  match n with 0 => ENil | 1 => ECanceled | 2 => EDeadline | _ => EOther (N.to_nat (n - 3)) end.
Definition err_code (e : err) : N :=
  match e with ENil => 0 | ECanceled => 1 | EDeadline => 2 | EOther n => 3 + N.of_nat n end.
Definition kind_of (n : N) : option akind :=
  match n with 0 => Some KAwait | 1 => Some KErrCh | 2 => Some KCancelCh | _ => None end.
Definition ch_of (n : N) : chst :=
  match n with 0 => ChOpen | 1 => ChClosed | _ => ChVal (err_of (n - 2)) end.
(* the channel code is meaningful for the kind *)
Definition ch_ok (k : akind) (n : N) : bool :=
  match k with KAwait => N.eqb n 0 | KErrCh => true | KCancelCh => N.leb n 2 end.

Record hst := { ms : st; hx : bool; hexit : list nat }.
Definition hinit (cfg : list N) : hst :=
  {| ms := init; hx := match cfg with 1 :: _ => true | _ => false end; hexit := [] |}.

Definition memb (a : nat) (l : list nat) : bool := existsb (Nat.eqb a) l.
Definition remb (a : nat) (l : list nat) : list nat := filter (fun b => negb (Nat.eqb a b)) l.
Definition b2N (b : bool) : N := if b then 1 else 0.

Definition pccode3 (s : st) (inexit : bool) (p : apc) : N * N * N :=
  match p with
  | PSet _ _ _ | PSetGate _ _ _ _ | CGate _ | CSetGate _ _ | CGetGate => (1, 0, 0)
  | PSetRet _ b _ => (3, b2N b, 0)
  | PAw _ _ => (2, 0, 0)
  | CNil _ _ | CProm _ _ _ => if inexit then (1, 0, 0) else (2, 0, 0)
  | ARet v e _ => (4, v, err_code e)
  | CSetRet r => (5, b2N r, 0)
  | CGetRet po ch => (6, match po with Some q => N.of_nat (S q) | None => 0 end, b2N (closed (cb s) ch))
  end.
Definition pccode (s : st) (inexit : bool) (p : apc) : list N :=
  let '(a, b, c) := pccode3 s inexit p in [a; b; c].

Definition acode (s : st) (a : nat) : list N :=
  match nth_error (acts s) a with Some x => pccode s false (pc x) | None => [] end.

Definition obs (h : hst) : list N :=
  flat_map (fun ax : nat * actor => pccode (ms h) (memb (fst ax) (hexit h)) (pc (snd ax)))
           (combine (seq 0 (length (acts (ms h)))) (acts (ms h))).

(* the select case whose outcome is the hinted status of the actor; 0 (= first ready case) if none *)
Definition choose (s : st) (a : nat) (hint : list N) : nat :=
  match find (fun c => list_eqb (acode (step s (Step a c)) a) hint) [1; 2; 3; 4]%nat with
  | Some c => c
  | None => 0%nat
  end.

(* every blocked actor (not parked at an exit gate) that has a ready case takes it: after the events of
   this schedule exactly one case is ready for such an actor *)
Definition settle (ex : list nat) (s : st) : st :=
  fold_left (fun s a => match nth_error (acts s) a with
                        | Some x => if at_select x && negb (memb a ex) then step s (Step a 0%nat) else s
                        | None => s
                        end) (seq 0 (length (acts s))) s.

Definition awaiter_kind (p : apc) : option akind :=
  match p with PAw k _ | CGate k | CNil k _ | CProm k _ _ => Some k | _ => None end.

Definition pre_env (s : st) (a : nat) (ctx ch : N) : st :=
  let s1 := if N.eqb ctx 1 then step s (CancelCtx a) else s in
  if N.eqb ch 0 then s1 else step s1 (FireCh a (ch_of ch)).

Definition hstep (h : hst) (e : list N) : option (hst * list N) :=
  let s := ms h in
  let ret h' := Some (h', obs h') in
  let same s' := ret {| ms := s'; hx := hx h; hexit := hexit h |} in
  let np := length (proms s) in
  let na := length (acts s) in
  match e with
  | [1] => same (step s NewPromise)
  | [2; v; er] => same (step s (NewPromiseWith v (err_of er)))
  | [3; p; v; er] =>
    if Nat.ltb (N.to_nat p) np
    then same (step (step s (CallSet (N.to_nat p) v (err_of er))) (Step na 0%nat))
    else None
  | [4; k; p; ctx; ch; h1; h2; h3] =>
    match kind_of k with
    | Some kk =>
      if Nat.ltb (N.to_nat p) np && ch_ok kk ch && N.leb ctx 1
      then let s1 := pre_env (step s (CallAwait kk (N.to_nat p))) na ctx ch in
           same (step s1 (Step na (choose s1 na [h1; h2; h3])))
      else None
    | None => None
    end
  | [5; a; h1; h2; h3] =>
    let a := N.to_nat a in
    match nth_error (acts s) a with
    | None => None
    | Some x =>
      match pc x with
      | CGate _ =>
        let s1 := step s (Step a 0%nat) in
        if hx h
        then ret {| ms := settle (a :: hexit h) s1; hx := hx h; hexit := a :: hexit h |}
        else same (settle (hexit h) (step s1 (Step a (choose s1 a [h1; h2; h3]))))
      | PSetGate _ _ _ _ | CSetGate _ _ | CGetGate => same (settle (hexit h) (step s (Step a 0%nat)))
      | _ => None
      end
    end
  | [12; a; h1; h2; h3] =>
    let a := N.to_nat a in
    match nth_error (acts s) a with
    | None => None
    | Some x =>
      match pc x with
      | CNil _ _ | CProm _ _ _ =>
        if memb a (hexit h)
        then let ex := remb a (hexit h) in
             ret {| ms := settle ex (step s (Step a (choose s a [h1; h2; h3]))); hx := hx h; hexit := ex |}
        else None
      | _ => None
      end
    end
  | [6; a] =>
    let a := N.to_nat a in
    match nth_error (acts s) a with
    | Some x =>
      match awaiter_kind (pc x) with
      | Some _ => if actx x then None else same (settle (hexit h) (step s (CancelCtx a)))
      | None => None
      end
    | None => None
    end
  | [7; a; c] =>
    let a := N.to_nat a in
    match nth_error (acts s) a with
    | Some x =>
      match awaiter_kind (pc x), ach x with
      | Some KAwait, _ => None
      | Some kk, ChOpen =>
        if ch_ok kk c && negb (N.eqb c 0) then same (settle (hexit h) (step s (FireCh a (ch_of c)))) else None
      | _, _ => None
      end
    | None => None
    end
  | [8; k; ctx; ch] =>
    match kind_of k with
    | Some kk => if ch_ok kk ch && N.leb ctx 1 then same (pre_env (step s (CallCAwait kk)) na ctx ch) else None
    | None => None
    end
  | [9; q] =>
    match q with
    | 0 => same (step s (CallCSetPromise None))
    | _ => let p := N.to_nat (q - 1) in
           if Nat.ltb p np then same (step s (CallCSetPromise (Some p))) else None
    end
  | [10; v; er] => same (step s (CallCSetResult v (err_of er)))
  | [11] => same (step s CallCGet)
  | [20; ns; na; _] =>
    (* free-running stress on fresh promises (no gates, real parallelism): what c11_exactly_first_setresult_true and
       c11_await_returns_winner say about complete runs -- exactly one true, every awaiter got the winner's result, no panic *)
    match acts s, proms s with
    | [], [] => if N.leb 1 ns then Some (h, [1; 1; 0]) else None
    | _, _ => None
    end
  | _ => None
  end.

(* ---------------- monitors: the property as a function of the observed trace only ---------------- *)
Record mprom := {
  mres : option (N * N);    (* the arguments (value, error code) the promise is resolved with: those of the
                               constructor, or of the first SetResult call (its Swap runs inside the call event) *)
  mwin : option nat;        (* the actor of that first SetResult call *)
  mpub : bool               (* the winner has been let past its gate (or pre-resolved): the result is published *)
}.
Record mact := {
  mkind : N;                (* 3 SetResult, 4 direct await, 8 container await, 9 container set, 11 GetPromise *)
  mk : N;                   (* await kind 0/1/2 *)
  mp : nat;                 (* target promise (3, 4) *)
  mctx : bool;              (* its context has been cancelled *)
  mch : N;                  (* its channel: 0 open, else the fire code *)
  msec : option (option nat);  (* container await: the promise that was current at its last section *)
  msetp : option nat        (* container set: the promise it installs *)
}.
Record mstt := { mproms : list mprom; macts : list mact; mcur : option nat }.
Definition minit : mstt := {| mproms := []; macts := []; mcur := None |}.

Definition mact0 (kind k : N) (p : nat) (ctx : bool) (ch : N) (setp : option nat) : mact :=
  {| mkind := kind; mk := k; mp := p; mctx := ctx; mch := ch; msec := None; msetp := setp |}.

Definition upd {A} (l : list A) (i : nat) (f : A -> A) : list A :=
  match nth_error l i with Some x => set_nth l i (f x) | None => l end.

Definition mapply (m : mstt) (e : list N) : mstt :=
  let na := length (macts m) in
  match e with
  | [1] => {| mproms := mproms m ++ [{| mres := None; mwin := None; mpub := false |}]; macts := macts m; mcur := mcur m |}
  | [2; v; er] => {| mproms := mproms m ++ [{| mres := Some (v, er); mwin := None; mpub := true |}]; macts := macts m; mcur := mcur m |}
  | [3; p; v; er] =>
    let p := N.to_nat p in
    {| mproms := upd (mproms m) p (fun q => match mres q with
                                            | None => {| mres := Some (v, er); mwin := Some na; mpub := false |}
                                            | Some _ => q
                                            end);
       macts := macts m ++ [mact0 3 0 p false 0 None]; mcur := mcur m |}
  | [4; k; p; ctx; ch; _; _; _] =>
    {| mproms := mproms m; macts := macts m ++ [mact0 4 k (N.to_nat p) (N.eqb ctx 1) ch None]; mcur := mcur m |}
  | [5; a; _; _; _] =>
    let a := N.to_nat a in
    match nth_error (macts m) a with
    | None => m
    | Some x =>
      match mkind x with
      | 3 => {| mproms := upd (mproms m) (mp x) (fun q => match mwin q with
                                                         | Some w => if Nat.eqb w a then {| mres := mres q; mwin := mwin q; mpub := true |} else q
                                                         | None => q
                                                         end);
                macts := macts m; mcur := mcur m |}
      | 8 => {| mproms := mproms m;
                macts := set_nth (macts m) a {| mkind := 8; mk := mk x; mp := mp x; mctx := mctx x; mch := mch x;
                                                msec := Some (mcur m); msetp := None |};
                mcur := mcur m |}
      | 9 => {| mproms := mproms m; macts := macts m; mcur := msetp x |}
      | _ => m
      end
    end
  | [6; a] =>
    {| mproms := mproms m;
       macts := upd (macts m) (N.to_nat a) (fun x => {| mkind := mkind x; mk := mk x; mp := mp x; mctx := true; mch := mch x;
                                                        msec := msec x; msetp := msetp x |});
       mcur := mcur m |}
  | [7; a; c] =>
    {| mproms := mproms m;
       macts := upd (macts m) (N.to_nat a) (fun x => {| mkind := mkind x; mk := mk x; mp := mp x; mctx := mctx x; mch := c;
                                                        msec := msec x; msetp := msetp x |});
       mcur := mcur m |}
  | [8; k; ctx; ch] =>
    {| mproms := mproms m; macts := macts m ++ [mact0 8 k 0 (N.eqb ctx 1) ch None]; mcur := mcur m |}
  | [9; q] =>
    {| mproms := mproms m;
       macts := macts m ++ [mact0 9 0 0 false 0 (match q with 0 => None | _ => Some (N.to_nat (q - 1)) end)];
       mcur := mcur m |}
  | [10; v; er] =>
    {| mproms := mproms m ++ [{| mres := Some (v, er); mwin := None; mpub := true |}];
       macts := macts m ++ [mact0 9 1 0 false 0 (Some (length (mproms m)))]; mcur := mcur m |}
  | [11] => {| mproms := mproms m; macts := macts m ++ [mact0 11 0 0 false 0 None]; mcur := mcur m |}
  | _ => m
  end.

Fixpoint chunk3 (l : list N) : list (N * N * N) :=
  match l with
  | a :: b :: c :: t => (a, b, c) :: chunk3 t
  | _ => []
  end.

Definition pair_eqb (a : N * N) (x y : N) : bool := N.eqb (fst a) x && N.eqb (snd a) y.

(* p's published result is (v, e) *)
Definition result_is (m : mstt) (p : nat) (v e : N) : bool :=
  match nth_error (mproms m) p with
  | Some q => mpub q && match mres q with Some r => pair_eqb r v e | None => false end
  | None => false
  end.
(* a result of p is available (a winner has been elected / pre-resolved) *)
Definition has_result (m : mstt) (p : nat) : bool :=
  match nth_error (mproms m) p with
  | Some q => match mres q with Some _ => true | None => false end
  | None => false
  end.

(* (v, e) is what the documented channel case returns: direct = Promise, otherwise PromiseContainer *)
Definition ch_justifies (direct : bool) (x : mact) (v e : N) : bool :=
  N.eqb v 0 &&
  match mk x with
  | 1 => if N.eqb (mch x) 0 then false else if N.eqb (mch x) 1 then N.eqb e 1 else N.eqb e (mch x - 2)
  | 2 => negb (N.eqb (mch x) 0) && N.eqb e (if direct then 1 else 0)
  | _ => false
  end.
Definition fired (x : mact) : bool := negb (N.eqb (mk x) 0) && negb (N.eqb (mch x) 0).

(* a Promise await may return (v, e): the published result, or (0, Canceled) under its cancelled context, or what
   its fired channel prescribes *)
Definition djust (m : mstt) (x : mact) (v e : N) : bool :=
  result_is m (mp x) v e || (mctx x && N.eqb v 0 && N.eqb e 1) || ch_justifies true x v e.
(* a container await: the same with the promise that was current at its last section *)
Definition cjust (m : mstt) (x : mact) (v e : N) : bool :=
  (mctx x && N.eqb v 0 && N.eqb e 1) || ch_justifies false x v e ||
  match msec x with Some (Some p) => result_is m p v e | _ => false end.

(* the clauses of property 11 that are false for actor i with observed status (c, v, e):
     1  a SetResult returned true although it was not the first call on a fresh promise, or the first returned false
     2  a Promise await returned something that is neither the published winner's (value, error), nor (0, Canceled)
        under its cancelled context, nor what its fired err / cancel channel prescribes
     3  the same for a container await; "the result" = that of the promise current at its last HoldLock section
        (a fired cancelCh gives (0, nil) here, as the container documents)
     4  quiescent observation, a Promise awaiter is blocked although a result is available / ctx cancelled / channel fired
     5  quiescent observation, a container awaiter is blocked although its ctx is cancelled, or the current promise has a
        result, or the container holds nil and its channel fired
     6  quiescent observation, a container awaiter is blocked on a promise that is not the current one (replacement not followed)
     7  quiescent observation, a container awaiter with a live ctx is blocked although its channel fired while a PENDING
        promise is current (known finding D20: the code selects on the channel only in the nil branch)
     8  an actor was observed spinning (status 7)        9  an actor panicked (status 9) *)
Definition check_actor (m : mstt) (quiet : bool) (i : nat) (x : mact) (t : N * N * N) : list nat :=
  let '(c, v, e) := t in
  (if N.eqb c 7 then [8%nat] else []) ++
  (if N.eqb c 9 then [9%nat] else []) ++
  match mkind x with
  | 3 =>
    if N.eqb c 3 then
      let winner := match nth_error (mproms m) (mp x) with
                    | Some q => match mwin q with Some w => Nat.eqb w i | None => false end
                    | None => false
                    end in
      if Bool.eqb winner (N.eqb v 1) then [] else [1%nat]
    else []
  | 4 =>
    if N.eqb c 4 then
      if djust m x v e then [] else [2%nat]
    else if N.eqb c 2 && quiet then
      if has_result m (mp x) || mctx x || fired x then [4%nat] else []
    else []
  | 8 =>
    if N.eqb c 4 then
      if cjust m x v e then [] else [3%nat]
    else if N.eqb c 2 && quiet then
      (if mctx x then [5%nat] else []) ++
      (* it is durably blocked, so it waits on the promise of its last section: that must be the current one *)
      (match msec x with
       | Some sp => if opt_eqb sp (mcur m) then [] else [6%nat]
       | None => []
       end) ++
      match mcur m with
      | Some p => if has_result m p then [5%nat] else if fired x && negb (mctx x) then [7%nat] else []
      | None => if fired x then [5%nat] else []
      end
    else []
  | _ => []
  end.

Definition mon_stress (o : list N) : list (nat * nat) :=
  match o with
  | [t; d; pn] => (if N.eqb t 1 then [] else [(11, 1)]) ++ (if N.eqb d 1 then [] else [(11, 2)]) ++ (if N.eqb pn 0 then [] else [(11, 9)])
  | _ => [(11, 9)]
  end%nat.

Definition mon (m : mstt) (e o : list N) : mstt * list (nat * nat) :=
  match e with 20 :: _ => (m, mon_stress o) | _ =>
  let m1 := mapply m e in
  let tr := chunk3 o in
  let quiet := negb (existsb (fun t : N * N * N => let '(c, _, _) := t in N.eqb c 1 || N.eqb c 7) tr) in
  let rows := combine (combine (seq 0 (length (macts m1))) (macts m1)) tr in
  let bad := flat_map (fun r : nat * mact * (N * N * N) => let '(i, x, t) := r in check_actor m1 quiet i x t) rows in
  (m1, map (fun c => (11%nat, c)) (filter (fun c => existsb (Nat.eqb c) bad) [1; 2; 3; 4; 5; 6; 7; 8; 9]%nat))
  end.

Definition run_check_promise (cfg : list N) (evs obss : list (list N)) : list issue :=
  run_check hstep mon (hinit cfg) minit evs obss.
