(* C11: the monitors of Promise/Spec.v accept the model -- part 2 (dynamic half).
   Every harness event accepted by the Spec-level step [hstep] preserves
     HInv m h  =  R m (ms h) /\ Inv (ms h) /\ Settled (ms h) (hexit h) /\ ExOk (ms h) (hexit h)
   with the monitor state advanced by [mapply]; together with the static half (ProofsMon.bad_of_only7) this
   gives, for ALL event lists and both configurations:  the monitors, run on the model's own observations,
   report nothing but clause 7 of property 11 (the recorded finding D20/D21), and nothing at all once that
   clause is filtered out. *)
From Util Require Import Common.Base Common.ListLemmas Promise.Model Promise.Spec Promise.Proofs Promise.ProofsMon.

Local Open Scope N_scope.

(* ------------------------------------------------------------------ *)
(* lists *)

Lemma nth_error_snoc_eq {A} (l : list A) x : nth_error (l ++ [x]) (length l) = Some x.
Proof. rewrite nth_error_app2 by lia. now rewrite Nat.sub_diag. Qed.

Lemma set_nth_snoc {A} (l : list A) x y : set_nth (l ++ [x]) (length l) y = l ++ [y].
Proof. induction l as [|h t IH]; [reflexivity|]. cbn. now rewrite IH. Qed.

Lemma nth_error_snoc_cases {A} (l : list A) y a x : nth_error (l ++ [y]) a = Some x ->
  (nth_error l a = Some x /\ (a < length l)%nat) \/ (a = length l /\ x = y).
Proof.
  intros H. destruct (nth_error_snoc_inv l y a x H) as [H1|[H1 H2]]; [left | right; auto].
  split; [exact H1 | eapply nth_error_nth_len; eauto].
Qed.

Lemma upd_some {A} (l : list A) i f x : nth_error l i = Some x -> upd l i f = set_nth l i (f x).
Proof. intros H. unfold upd. now rewrite H. Qed.

Lemma opt_eqb_true a b : opt_eqb a b = true -> a = b.
Proof. destruct a, b; cbn; intros H; try discriminate; [apply Nat.eqb_eq in H; now subst | reflexivity]. Qed.

(* ------------------------------------------------------------------ *)
(* RA / RP plumbing *)

Lemma RA_set2 mas l a mx' x' : RA mas l -> arel mx' x' -> RA (set_nth mas a mx') (set_nth l a x').
Proof.
  intros (Hl & HA) Hx. split; [now rewrite !length_set_nth|].
  intros k mx x Hm Hk. apply set_nth_lookup in Hm as [[Hne Hm]|[-> [_ ->]]].
  - rewrite nth_error_set_nth_other in Hk by exact Hne. eauto.
  - apply set_nth_lookup in Hk as [[Hne _]|[_ [_ ->]]]; [congruence | exact Hx].
Qed.

Lemma RA_set1 mas l a x' : RA mas l -> (forall mx, nth_error mas a = Some mx -> arel mx x') -> RA mas (set_nth l a x').
Proof.
  intros (Hl & HA) Hx. split; [now rewrite length_set_nth|].
  intros k mx x Hm Hk. apply set_nth_lookup in Hk as [[Hne Hk]|[-> [_ ->]]]; eauto.
Qed.

Lemma RA_snoc mas l mx x : RA mas l -> arel mx x -> RA (mas ++ [mx]) (l ++ [x]).
Proof.
  intros (Hl & HA) Hx. split; [rewrite !app_length; cbn; lia|].
  intros k mx0 x0 Hm Hk. apply nth_error_snoc_cases in Hm as [[Hm Hlt]|[-> ->]].
  - rewrite nth_error_app1 in Hk by lia. eauto.
  - rewrite Hl, nth_error_snoc_eq in Hk. inversion Hk; subst. exact Hx.
Qed.

Lemma RA_get mas l a x : RA mas l -> nth_error l a = Some x -> exists mx, nth_error mas a = Some mx /\ arel mx x.
Proof.
  intros (Hl & HA) G. destruct (nth_error mas a) as [mx|] eqn:Gm; [exists mx; eauto|].
  apply nth_error_None in Gm. apply nth_error_nth_len in G. lia.
Qed.

Lemma wonb_set_nth l a x x' p w : nth_error l a = Some x -> won p x' = won p x ->
  wonb (set_nth l a x') p w = wonb l p w.
Proof.
  intros G Hw. unfold wonb. destruct (Nat.eq_dec w a) as [->|Hne].
  - rewrite nth_error_set_nth_same by (eapply nth_error_nth_len; eauto). now rewrite G.
  - now rewrite nth_error_set_nth_other.
Qed.

Lemma wonb_snoc l x p w : won p x = false -> wonb (l ++ [x]) p w = wonb l p w.
Proof.
  intros Hw. unfold wonb. destruct (nth_error (l ++ [x]) w) as [y|] eqn:E.
  - apply nth_error_snoc_cases in E as [[E _]|[-> ->]]; [now rewrite E|].
    rewrite Hw. destruct (nth_error l (length l)) eqn:E2; [apply nth_error_nth_len in E2; lia | reflexivity].
  - destruct (nth_error l w) eqn:E2; [|reflexivity]. erewrite nth_error_snoc_lt in E by exact E2. discriminate.
Qed.

Lemma RP_wonb mps ps l l' : RP mps ps l -> (forall p w, wonb l' p w = wonb l p w) -> RP mps ps l'.
Proof.
  intros (Hl & HP) Hw. split; [exact Hl|]. intros p mq q Hm Hq. destruct (HP p mq q Hm Hq) as (A & B & C).
  split; [exact A | split; [exact B|]]. intros w. rewrite Hw. apply C.
Qed.

Lemma RP_snoc mps ps l mq q : RP mps ps l -> prel l (length ps) mq q -> RP (mps ++ [mq]) (ps ++ [q]) l.
Proof.
  intros (Hl & HP) Hq. split; [rewrite !app_length; cbn; lia|].
  intros p mq0 q0 Hm Hp. apply nth_error_snoc_cases in Hm as [[Hm Hlt]|[-> ->]].
  - rewrite nth_error_app1 in Hp by lia. eauto.
  - rewrite Hl, nth_error_snoc_eq in Hp. inversion Hp; subst. rewrite Hl. exact Hq.
Qed.

Lemma RP_set mps ps l l' p mq' q' : RP mps ps l ->
  (forall p' w, p' <> p -> wonb l' p' w = wonb l p' w) -> prel l' p mq' q' ->
  RP (set_nth mps p mq') (set_nth ps p q') l'.
Proof.
  intros (Hl & HP) Hw Hq. split; [now rewrite !length_set_nth|].
  intros k mq q Hm Hk. apply set_nth_lookup in Hm as [[Hne Hm]|[-> [_ ->]]].
  - rewrite nth_error_set_nth_other in Hk by exact Hne. destruct (HP k mq q Hm Hk) as (A & B & C).
    split; [exact A | split; [exact B|]]. intros w. rewrite Hw by exact Hne. apply C.
  - apply set_nth_lookup in Hk as [[Hne _]|[_ [_ ->]]]; [congruence | exact Hq].
Qed.

(* a fresh promise index has no winner *)
Lemma fresh_no_winner s p w : Inv s -> (length (proms s) <= p)%nat -> wonb (acts s) p w = false.
Proof.
  intros HI Hp. destruct (inv_fresh_counts s p HI Hp) as [Hc _]. unfold wonb.
  destruct (nth_error (acts s) w) as [x|] eqn:G; [|reflexivity].
  apply (proj1 (cnt_zero_forall (won p) (acts s)) Hc x). eapply nth_error_In; eauto.
Qed.

(* ------------------------------------------------------------------ *)
(* model steps: one Step changes one actor *)

Lemma seta_other s a np k : k <> a -> nth_error (seta s a np) k = nth_error (acts s) k.
Proof.
  intros Hne. unfold seta. destruct (nth_error (acts s) a); [now apply nth_error_set_nth_other | reflexivity].
Qed.

Lemma seta_len s a np : length (seta s a np) = length (acts s).
Proof. unfold seta. destruct (nth_error (acts s) a); [apply length_set_nth | reflexivity]. Qed.

Lemma step_Step_other s b c a : a <> b -> nth_error (acts (step s (Step b c))) a = nth_error (acts s) a.
Proof.
  intros Hne. unfold step. cbn [stepg].
  repeat match goal with |- context [match ?t with _ => _ end] => destruct t end;
    unfold with_acts; cbn [acts]; try reflexivity; now apply seta_other.
Qed.

Lemma step_Step_len s b c : length (acts (step s (Step b c))) = length (acts s).
Proof.
  unfold step. cbn [stepg].
  repeat match goal with |- context [match ?t with _ => _ end] => destruct t end;
    unfold with_acts; cbn [acts]; try reflexivity; apply seta_len.
Qed.

(* what a step from a select can do *)
Definition selres (s : st) (x : actor) (np : apc) : Prop :=
  match pc x with
  | PAw k p =>
    (np = ARet 0 ECanceled None /\ actx x = true) \/
    (np = ARet 0 (ch_err_direct k (ach x)) None /\ ch_ready k (ach x) = true) \/
    (exists q, nth_error (proms s) p = Some q /\ dclosed q = true /\ np = ARet (fval q) (ferr q) (Some p))
  | CNil k ch =>
    (np = ARet 0 ECanceled None /\ actx x = true) \/
    (np = ARet 0 (ch_err_cont k (ach x)) None /\ ch_ready k (ach x) = true) \/
    np = CGate k
  | CProm k p ch =>
    (np = ARet 0 ECanceled None /\ actx x = true) \/ np = CGate k \/
    (exists q, nth_error (proms s) p = Some q /\ dclosed q = true /\ np = ARet (fval q) (ferr q) (Some p))
  | _ => False
  end.

Lemma sel_step s a x c : nth_error (acts s) a = Some x -> at_select x = true ->
  step s (Step a c) = s \/
  exists np, step s (Step a c) = with_acts s (set_nth (acts s) a {| pc := np; actx := actx x; ach := ach x |}) /\
             selres s x np.
Proof.
  intros G Hs. unfold step. cbn [stepg]. rewrite G. unfold at_select in Hs. unfold selres.
  destruct (pc x) as [| | |k p| | |k ch|k p ch| | | |] eqn:Epc; try discriminate Hs.
  - destruct (pick (rdy_direct s x k p) c) as [|[|[|[|[|n]]]]] eqn:Ep; try (left; reflexivity);
      apply pick_ready in Ep; cbn [rdy_direct] in Ep.
    + right. eexists. split; [erewrite seta_eq by exact G; reflexivity|]. left. auto.
    + right. eexists. split; [erewrite seta_eq by exact G; reflexivity|]. right. left. auto.
    + apply pclosed_true in Ep as [q [Gp Hd]]. rewrite Gp.
      right. eexists. split; [erewrite seta_eq by exact G; reflexivity|]. right. right. eauto.
  - destruct (pick (rdy_nil s x k ch) c) as [|[|[|[|n]]]] eqn:Ep; try (left; reflexivity);
      apply pick_ready in Ep; cbn [rdy_nil] in Ep.
    + right. eexists. split; [erewrite seta_eq by exact G; reflexivity|]. left. auto.
    + right. eexists. split; [erewrite seta_eq by exact G; reflexivity|]. right. left. auto.
    + right. eexists. split; [erewrite seta_eq by exact G; reflexivity|]. right. right. auto.
  - destruct (pick (rdy_prom s x p ch) c) as [|[|[|[|[|n]]]]] eqn:Ep; try (left; reflexivity);
      apply pick_ready in Ep; cbn [rdy_prom] in Ep.
    + right. eexists. split; [erewrite seta_eq by exact G; reflexivity|]. left. auto.
    + right. eexists. split; [erewrite seta_eq by exact G; reflexivity|].
      destruct (actx x); [left | right; left]; auto.
    + apply pclosed_true in Ep as [q [Gp Hd]]. rewrite Gp.
      right. eexists. split; [erewrite seta_eq by exact G; reflexivity|].
      destruct (ferr q) eqn:Ef; try (right; right; exists q; rewrite Ef; auto; fail).
      destruct (actx x); [right; right; exists q; rewrite Ef; auto|].
      destruct (closed (cb s) ch); [right; left; reflexivity | right; right; exists q; rewrite Ef; auto].
Qed.

(* the documented channel case is what the monitors accept *)
Lemma chj_direct k mx x : mk mx = kcode k -> ach x = ch_of (mch mx) -> ch_ready k (ach x) = true ->
  ch_justifies true mx 0 (err_code (ch_err_direct k (ach x))) = true.
Proof.
  intros Hk Hc Hr. unfold ch_justifies. rewrite Hk, Hc in *. cbn [N.eqb andb].
  destruct k; cbn [kcode ch_ready ch_err_direct] in *; [discriminate Hr | |].
  - destruct (mch mx) as [|[p|[p|p|]|]] eqn:E; try discriminate Hr; try reflexivity.
    + change (ch_of (N.pos p~1)) with (ChVal (err_of (N.pos p~1 - 2))). cbn [N.eqb Pos.eqb]. now rewrite err_code_of, N.eqb_refl.
    + change (ch_of (N.pos p~1~0)) with (ChVal (err_of (N.pos p~1~0 - 2))). cbn [N.eqb Pos.eqb]. now rewrite err_code_of, N.eqb_refl.
    + change (ch_of (N.pos p~0~0)) with (ChVal (err_of (N.pos p~0~0 - 2))). cbn [N.eqb Pos.eqb]. now rewrite err_code_of, N.eqb_refl.
  - destruct (N.eqb_spec (mch mx) 0) as [E|_]; [rewrite E in Hr; discriminate Hr | reflexivity].
Qed.

Lemma chj_cont k mx x : mk mx = kcode k -> ach x = ch_of (mch mx) -> ch_ready k (ach x) = true ->
  ch_justifies false mx 0 (err_code (ch_err_cont k (ach x))) = true.
Proof.
  intros Hk Hc Hr. unfold ch_justifies. rewrite Hk, Hc in *. cbn [N.eqb andb].
  destruct k; cbn [kcode ch_ready ch_err_cont] in *; [discriminate Hr | |].
  - destruct (mch mx) as [|[p|[p|p|]|]] eqn:E; try discriminate Hr; try reflexivity.
    + change (ch_of (N.pos p~1)) with (ChVal (err_of (N.pos p~1 - 2))). cbn [N.eqb Pos.eqb]. now rewrite err_code_of, N.eqb_refl.
    + change (ch_of (N.pos p~1~0)) with (ChVal (err_of (N.pos p~1~0 - 2))). cbn [N.eqb Pos.eqb]. now rewrite err_code_of, N.eqb_refl.
    + change (ch_of (N.pos p~0~0)) with (ChVal (err_of (N.pos p~0~0 - 2))). cbn [N.eqb Pos.eqb]. now rewrite err_code_of, N.eqb_refl.
  - destruct (N.eqb_spec (mch mx) 0) as [E|_]; [rewrite E in Hr; discriminate Hr|].
    destruct (ch_of (mch mx)); reflexivity.
Qed.

Lemma selres_arel s mx x np : arel mx x -> selres s x np ->
  arel mx {| pc := np; actx := actx x; ach := ach x |} /\
  (forall p, won p {| pc := np; actx := actx x; ach := ach x |} = won p x).
Proof.
  unfold arel, selres, won. cbn [pc].
  destruct (pc x) as [| | |k p| | |k ch|k p ch| | | |] eqn:Epc; try contradiction.
  - intros ((Hk & Hmk & Hctx & Hch) & Hp) [(-> & Hc)|[(-> & Hr)|(q & Gp & Hd & ->)]]; (split; [|reflexivity]).
    + left. split; [exact Hk|]. split; [reflexivity|]. left. split; [congruence | reflexivity].
    + left. split; [exact Hk|]. split; [reflexivity|]. right. now apply chj_direct.
    + left. auto.
  - intros ((Hk & Hmk & Hctx & Hch) & Hsec) [(-> & Hc)|[(-> & Hr)| ->]]; (split; [|reflexivity]).
    + right. split; [exact Hk|]. split; [reflexivity|]. left. split; [congruence | reflexivity].
    + right. split; [exact Hk|]. split; [reflexivity|]. right. now apply chj_cont.
    + unfold awrel. cbn [actx ach]. auto.
  - intros ((Hk & Hmk & Hctx & Hch) & Hsec) [(-> & Hc)|[->|(q & Gp & Hd & ->)]]; (split; [|reflexivity]).
    + right. split; [exact Hk|]. split; [reflexivity|]. left. split; [congruence | reflexivity].
    + unfold awrel. cbn [actx ach]. auto.
    + right. auto.
Qed.

(* a step from a select keeps R with the monitor state unchanged *)
Lemma R_sel m s a x c : R m s -> nth_error (acts s) a = Some x -> at_select x = true -> R m (step s (Step a c)).
Proof.
  intros HR G Hs. destruct (sel_step s a x c G Hs) as [->|(np & -> & Hres)]; [exact HR|].
  destruct HR as (Hcur & HP & HA). destruct (RA_get _ _ a x HA G) as (mx & Gm & Hrel).
  destruct (selres_arel s mx x np Hrel Hres) as (Hrel' & Hwon).
  unfold with_acts. split; [exact Hcur | split]; cbn [proms acts cprom].
  - apply (RP_wonb _ _ _ _ HP). intros p w. apply (wonb_set_nth _ _ x); auto.
  - apply RA_set1; [exact HA|]. intros mx0 Gm0. congruence.
Qed.

Lemma sel_core s a x c : nth_error (acts s) a = Some x -> at_select x = true ->
  proms (step s (Step a c)) = proms s /\ cb (step s (Step a c)) = cb s /\ cprom (step s (Step a c)) = cprom s.
Proof.
  intros G Hs. destruct (sel_step s a x c G Hs) as [->|(np & -> & _)]; auto.
Qed.

(* after its own step an awaiter is blocked with no ready case, or no longer at a select *)
Lemma sel_settled s a x c y : nth_error (acts s) a = Some x -> at_select x = true ->
  nth_error (acts (step s (Step a c))) a = Some y -> at_select y = true -> any_ready (step s (Step a c)) y = false.
Proof.
  intros G Hs Gy Hy. destruct (sel_progress s a x c G Hs) as [[E Hn]|(z & Gz & _ & Hz)].
  - rewrite E in *. congruence.
  - rewrite Gz in Gy. inversion Gy; subst z. exfalso. unfold at_select, returned in *.
    destruct Hz as [Hr|(k & ch & Ep & _)]; [destruct (pc y); discriminate | rewrite Ep in Hy; discriminate].
Qed.

Lemma any_ready_core s s' x : proms s' = proms s -> cb s' = cb s -> any_ready s' x = any_ready s x.
Proof.
  intros Hp Hc. unfold any_ready, first_ready, rdy_direct, rdy_nil, rdy_prom, pclosed. now rewrite Hp, Hc.
Qed.

(* ------------------------------------------------------------------ *)
(* settle *)

Definition sstep (ex : list nat) (s : st) (a : nat) : st :=
  match nth_error (acts s) a with
  | Some x => if at_select x && negb (memb a ex) then step s (Step a 0%nat) else s
  | None => s
  end.

Lemma settle_fold ex s : settle ex s = fold_left (sstep ex) (seq 0 (length (acts s))) s.
Proof. reflexivity. Qed.

Lemma sstep_props ex s a :
  let s1 := sstep ex s a in
  proms s1 = proms s /\ cb s1 = cb s /\ cprom s1 = cprom s /\ length (acts s1) = length (acts s) /\
  (forall b, b <> a -> nth_error (acts s1) b = nth_error (acts s) b) /\
  (memb a ex = true -> s1 = s) /\
  (forall y, nth_error (acts s1) a = Some y -> at_select y = true -> memb a ex = false -> any_ready s1 y = false) /\
  (Inv s -> Inv s1) /\ (forall m, R m s -> R m s1).
Proof.
  cbn zeta. unfold sstep. destruct (nth_error (acts s) a) as [x|] eqn:G.
  - destruct (at_select x) eqn:Hs; cbn [andb].
    + destruct (memb a ex) eqn:Hm; cbn [negb].
      * do 6 (split; [auto|]). split; [intros; discriminate | auto].
      * destruct (sel_core s a x 0%nat G Hs) as (C1 & C2 & C3).
        split; [exact C1 | split; [exact C2 | split; [exact C3 | split; [apply step_Step_len|]]]].
        split; [intros b Hb; now apply step_Step_other|]. split; [intros; discriminate|].
        split; [intros y Gy Hy _; eapply sel_settled; eauto|].
        split; [intros HI; apply stepg_inv; exact HI | intros m HR; eapply R_sel; eauto].
    + do 6 (split; [auto|]). split; [intros; congruence | auto].
  - do 6 (split; [auto|]). split; [intros; congruence | auto].
Qed.

Lemma sfold_props ex l : forall s,
  let s' := fold_left (sstep ex) l s in
  proms s' = proms s /\ cb s' = cb s /\ cprom s' = cprom s /\ length (acts s') = length (acts s) /\
  (Inv s -> Inv s') /\ (forall m, R m s -> R m s') /\
  (forall b, memb b ex = true -> nth_error (acts s') b = nth_error (acts s) b) /\
  (forall b, ~ In b l -> nth_error (acts s') b = nth_error (acts s) b) /\
  (forall b y, In b l -> nth_error (acts s') b = Some y -> at_select y = true -> memb b ex = false -> any_ready s' y = false).
Proof.
  induction l as [|a l IH]; intros s; cbn [fold_left]; cbn zeta.
  - do 8 (split; [auto|]). intros b y [].
  - destruct (sstep_props ex s a) as (A1 & A2 & A3 & A4 & A5 & A6 & A7 & A8 & A9).
    destruct (IH (sstep ex s a)) as (B1 & B2 & B3 & B4 & B5 & B6 & B7 & B8 & B9).
    split; [congruence | split; [congruence | split; [congruence | split; [congruence|]]]].
    split; [auto | split; [auto|]].
    split; [|split].
    + intros b Hb. rewrite (B7 b Hb). destruct (Nat.eq_dec b a) as [->|Hne]; [now rewrite (A6 Hb) | now apply A5].
    + intros b Hb. rewrite B8 by (intros Hin; apply Hb; now right). apply A5. intros ->. apply Hb. now left.
    + intros b y Hin Gy Hy Hm. destruct (in_dec Nat.eq_dec b l) as [Hl|Hl]; [now apply (B9 b y)|].
      destruct Hin as [<-|Hin]; [|contradiction].
      rewrite (B8 a Hl) in Gy. rewrite (any_ready_core (sstep ex s a) _ y B1 B2). now apply A7.
Qed.

Lemma settle_props ex s :
  let s' := settle ex s in
  (Inv s -> Inv s') /\ (forall m, R m s -> R m s') /\ Settled s' ex /\ (ExOk s ex -> ExOk s' ex).
Proof.
  cbn zeta. rewrite settle_fold.
  destruct (sfold_props ex (seq 0 (length (acts s))) s) as (B1 & B2 & B3 & B4 & B5 & B6 & B7 & B8 & B9).
  split; [exact B5 | split; [exact B6 | split]].
  - intros a x G Hs Hm. apply (B9 a x); auto. apply in_seq. apply nth_error_nth_len in G. lia.
  - intros Hex a Hm. rewrite (B7 a Hm). now apply Hex.
Qed.

Lemma HInv_settle m h s ex : R m s -> Inv s -> ExOk s ex -> HInv m {| ms := settle ex s; hx := hx h; hexit := ex |}.
Proof.
  intros HR HI Hex. destruct (settle_props ex s) as (A & B & C & D). unfold HInv. cbn [ms hexit]. auto.
Qed.

(* ------------------------------------------------------------------ *)
(* events that do not settle: old actors keep their place and their readiness *)

Lemma ExOk_pre s s' ex : ExOk s ex ->
  (forall a x, nth_error (acts s) a = Some x -> nth_error (acts s') a = Some x) -> ExOk s' ex.
Proof. intros Hex Hpre a Hm. destruct (Hex a Hm) as (x & G & Hc). exists x. auto. Qed.

Lemma any_ready_ext s s' x : aok (proms s) (cb s) (cprom s) x -> cb s' = cb s ->
  (forall p, (p < length (proms s))%nat -> pclosed s' p = pclosed s p) -> any_ready s' x = any_ready s x.
Proof.
  intros Hx Hc Hp. unfold aok in Hx. unfold any_ready, first_ready, rdy_direct, rdy_nil, rdy_prom.
  destruct (pc x) as [| | |k p| | |k ch|k p ch| | | |]; try reflexivity.
  - now rewrite (Hp p Hx).
  - now rewrite Hc.
  - destruct Hx as (Hlt & _). now rewrite Hc, (Hp p Hlt).
Qed.

Lemma HInv_ext m h m' s' :
  HInv m h -> R m' s' -> Inv s' -> cb s' = cb (ms h) ->
  (forall p, (p < length (proms (ms h)))%nat -> pclosed s' p = pclosed (ms h) p) ->
  (forall a x, nth_error (acts (ms h)) a = Some x -> nth_error (acts s') a = Some x) ->
  (forall a x', nth_error (acts s') a = Some x' -> (length (acts (ms h)) <= a)%nat -> at_select x' = true -> any_ready s' x' = false) ->
  HInv m' {| ms := s'; hx := hx h; hexit := hexit h |}.
Proof.
  intros (HR & HI & Hs & Hex) HR' HI' Hc Hp Hpre Hnew. unfold HInv. cbn [ms hexit].
  split; [exact HR' | split; [exact HI' | split; [|eapply ExOk_pre; eauto]]].
  intros a x' G Hsel Hm. destruct (Nat.lt_ge_cases a (length (acts (ms h)))) as [Hlt|Hge]; [|now apply (Hnew a)].
  destruct (nth_error (acts (ms h)) a) as [x|] eqn:G0; [|apply nth_error_None in G0; lia].
  pose proof (Hpre a x G0) as G1. rewrite G in G1. inversion G1; subst x'.
  destruct HI as (_ & _ & _ & HA). rewrite (any_ready_ext (ms h) s' x (HA a x G0) Hc Hp). now apply (Hs a).
Qed.

Lemma pclosed_snoc s s' q0 p : proms s' = proms s ++ [q0] -> (p < length (proms s))%nat -> pclosed s' p = pclosed s p.
Proof. intros E Hp. unfold pclosed. rewrite E, nth_error_app1 by exact Hp. reflexivity. Qed.

(* ---- [1] NewPromise, [2] NewPromiseWithResult ---- *)
Lemma HInv_newprom m h : HInv m h -> HInv (mapply m [1]) {| ms := step (ms h) NewPromise; hx := hx h; hexit := hexit h |}.
Proof.
  intros H. pose proof H as (HR & HI & _). destruct HR as (Hcur & HP & HA).
  apply (HInv_ext m h); auto.
  - split; [exact Hcur | split; [|exact HA]]. cbn [mapply mproms step stepg proms acts].
    apply RP_snoc; [exact HP|]. split; [reflexivity | split; [reflexivity|]].
    intros w. cbn [mwin]. rewrite (fresh_no_winner (ms h) _ w HI (le_n _)). split; discriminate.
  - now apply stepg_inv.
  - intros p Hp. now apply (pclosed_snoc (ms h) _ prom0).
  - intros a x' G Hge. apply nth_error_nth_len in G. cbn [step stepg acts] in G. lia.
Qed.

Lemma HInv_newwith m h v er : HInv m h ->
  HInv (mapply m [2; v; er]) {| ms := step (ms h) (NewPromiseWith v (err_of er)); hx := hx h; hexit := hexit h |}.
Proof.
  intros H. pose proof H as (HR & HI & _). destruct HR as (Hcur & HP & HA).
  apply (HInv_ext m h); auto.
  - split; [exact Hcur | split; [|exact HA]]. cbn [mapply mproms step stepg proms acts].
    apply RP_snoc; [exact HP|]. split; [cbn; now rewrite err_code_of | split; [reflexivity|]].
    intros w. cbn [mwin]. rewrite (fresh_no_winner (ms h) _ w HI (le_n _)). split; discriminate.
  - now apply stepg_inv.
  - intros p Hp. now apply (pclosed_snoc (ms h) _ (prom_with v (err_of er))).
  - intros a x' G Hge. apply nth_error_nth_len in G. cbn [step stepg acts] in G. lia.
Qed.

(* a new actor parked at a gate *)
Lemma HInv_add_gate m h m' np mx :
  HInv m h -> mproms m' = mproms m -> mcur m' = mcur m -> macts m' = macts m ++ [mx] ->
  arel mx (new_actor np) -> (forall p, won p (new_actor np) = false) -> at_select (new_actor np) = false ->
  Inv (add_actor (ms h) np) ->
  HInv m' {| ms := add_actor (ms h) np; hx := hx h; hexit := hexit h |}.
Proof.
  intros H E1 E2 E3 Hrel Hw Hsel HI'. pose proof H as (HR & HI & _). destruct HR as (Hcur & HP & HA).
  apply (HInv_ext m h); auto.
  - unfold R, add_actor, with_acts. cbn [proms acts cprom]. rewrite E1, E2, E3.
    split; [exact Hcur | split; [|now apply RA_snoc]].
    apply (RP_wonb _ _ _ _ HP). intros p w. now apply wonb_snoc.
  - intros a x G. unfold add_actor, with_acts. cbn [acts]. now apply nth_error_snoc_lt.
  - intros a x' G Hge Hs. exfalso. unfold add_actor, with_acts in G. cbn [acts] in G.
    apply nth_error_snoc_cases in G as [[_ Hlt]|[_ ->]]; [lia | congruence].
Qed.

Lemma HInv_cget m h : HInv m h -> HInv (mapply m [11]) {| ms := step (ms h) CallCGet; hx := hx h; hexit := hexit h |}.
Proof.
  intros H. apply (HInv_add_gate m h _ CGetGate (mact0 11 0 0 false 0 None) H); try reflexivity.
  apply (stepg_inv true (ms h) CallCGet), H.
Qed.

Lemma HInv_csetp_nil m h : HInv m h ->
  HInv (mapply m [9; 0]) {| ms := step (ms h) (CallCSetPromise None); hx := hx h; hexit := hexit h |}.
Proof.
  intros H. apply (HInv_add_gate m h _ (CSetGate None false) (mact0 9 0 0 false 0 None) H); try reflexivity.
  - split; reflexivity.
  - apply (stepg_inv true (ms h) (CallCSetPromise None)), H.
Qed.

Lemma HInv_csetp m h q : (N.to_nat (N.pos q - 1) < length (proms (ms h)))%nat -> HInv m h ->
  HInv (mapply m [9; N.pos q]) {| ms := step (ms h) (CallCSetPromise (Some (N.to_nat (N.pos q - 1)))); hx := hx h; hexit := hexit h |}.
Proof.
  intros Hlt H. pose proof (stepg_inv true (ms h) (CallCSetPromise (Some (N.to_nat (N.pos q - 1)))) (proj1 (proj2 H))) as HI'.
  unfold step. cbn [stepg] in *. apply Nat.ltb_lt in Hlt. rewrite Hlt in *.
  apply (HInv_add_gate m h _ (CSetGate (Some (N.to_nat (N.pos q - 1))) false)
           (mact0 9 0 0 false 0 (Some (N.to_nat (N.pos q - 1)))) H); try reflexivity; [|exact HI'].
  split; reflexivity.
Qed.

Lemma HInv_csetres m h v er : HInv m h ->
  HInv (mapply m [10; v; er]) {| ms := step (ms h) (CallCSetResult v (err_of er)); hx := hx h; hexit := hexit h |}.
Proof.
  intros H. pose proof H as (HR & HI & _). destruct HR as (Hcur & HP & HA).
  apply (HInv_ext m h); auto.
  - split; [exact Hcur | split]; cbn [mapply mproms macts step stepg proms acts].
    + apply RP_snoc.
      * apply (RP_wonb _ _ _ _ HP). intros p w. now apply wonb_snoc.
      * split; [cbn; now rewrite err_code_of | split; [reflexivity|]].
        intros w. cbn [mwin]. rewrite wonb_snoc by reflexivity. rewrite (fresh_no_winner (ms h) _ w HI (le_n _)). split; discriminate.
    + apply RA_snoc; [exact HA|]. split; [reflexivity|]. cbn [msetp mact0]. now rewrite (proj1 HP).
  - now apply stepg_inv.
  - intros p Hp. now apply (pclosed_snoc (ms h) _ (prom_with v (err_of er))).
  - intros a x G. cbn [step stepg acts]. now apply nth_error_snoc_lt.
  - intros a x' G Hge Hs. exfalso. cbn [step stepg acts] in G.
    apply nth_error_snoc_cases in G as [[_ Hlt]|[_ ->]]; [lia | discriminate Hs].
Qed.

(* ---- a new actor with its environment (pre-cancelled context, pre-fired channel) ---- *)
Lemma cancel_snoc s x0 :
  step (with_acts s (acts s ++ [x0])) (CancelCtx (length (acts s))) =
  with_acts s (acts s ++ [{| pc := pc x0; actx := true; ach := ach x0 |}]).
Proof.
  unfold step. cbn [stepg]. unfold with_acts. cbn [acts proms cb cprom].
  now rewrite nth_error_snoc_eq, set_nth_snoc.
Qed.

Lemma fire_snoc s x0 c : ach x0 = ChOpen -> c <> ChOpen ->
  step (with_acts s (acts s ++ [x0])) (FireCh (length (acts s)) c) =
  with_acts s (acts s ++ [{| pc := pc x0; actx := actx x0; ach := c |}]).
Proof.
  intros Ho Hc. unfold step. cbn [stepg]. unfold with_acts. cbn [acts proms cb cprom].
  rewrite nth_error_snoc_eq, Ho. destruct c; [contradiction | |]; now rewrite set_nth_snoc.
Qed.

Lemma pre_env_add s pc0 ctx ch :
  pre_env (add_actor s pc0) (length (acts s)) ctx ch =
  with_acts s (acts s ++ [{| pc := pc0; actx := N.eqb ctx 1; ach := ch_of ch |}]).
Proof.
  unfold pre_env, add_actor, new_actor.
  destruct (N.eqb ctx 1); [rewrite cancel_snoc; cbn [pc actx ach]|];
    (destruct (N.eqb_spec ch 0) as [->|Hne]; [reflexivity|]);
    (rewrite fire_snoc; [reflexivity | reflexivity | intros E; apply ch_of_open in E; contradiction]).
Qed.

Lemma pre_env_inv s a ctx ch : Inv s -> Inv (pre_env s a ctx ch).
Proof.
  intros HI. unfold pre_env, step. destruct (N.eqb ctx 1); destruct (N.eqb ch 0); repeat apply stepg_inv; exact HI.
Qed.

Lemma R_snoc m s m' x0 mx :
  R m s -> mproms m' = mproms m -> mcur m' = mcur m -> macts m' = macts m ++ [mx] ->
  arel mx x0 -> (forall p, won p x0 = false) -> R m' (with_acts s (acts s ++ [x0])).
Proof.
  intros (Hcur & HP & HA) E1 E2 E3 Hrel Hw. unfold R, with_acts. cbn [proms acts cprom]. rewrite E1, E2, E3.
  split; [exact Hcur | split; [|now apply RA_snoc]].
  apply (RP_wonb _ _ _ _ HP). intros p w. now apply wonb_snoc.
Qed.

(* ---- [8] container Await* ---- *)
Lemma HInv_cawait m h k kk ctx ch : kind_of k = Some kk -> HInv m h ->
  HInv (mapply m [8; k; ctx; ch])
       {| ms := pre_env (step (ms h) (CallCAwait kk)) (length (acts (ms h))) ctx ch; hx := hx h; hexit := hexit h |}.
Proof.
  intros Hk H. pose proof H as (HR & HI & _).
  assert (HI' : Inv (pre_env (step (ms h) (CallCAwait kk)) (length (acts (ms h))) ctx ch)) by (apply pre_env_inv, stepg_inv, HI).
  unfold step in *. cbn [stepg] in *. rewrite pre_env_add in *.
  apply (HInv_ext m h); auto.
  - apply (R_snoc m (ms h) _ _ (mact0 8 k 0 (N.eqb ctx 1) ch None) HR); try reflexivity.
    unfold arel, awrel. cbn. rewrite (kind_of_kcode k kk Hk). auto.
  - intros a x G. unfold with_acts. cbn [acts]. now apply nth_error_snoc_lt.
  - intros a x' G Hge Hs. exfalso. unfold with_acts in G. cbn [acts] in G.
    apply nth_error_snoc_cases in G as [[_ Hlt]|[_ ->]]; [lia | discriminate Hs].
Qed.

(* ---- [4] Promise.Await*: the new awaiter takes one step ---- *)
Lemma HInv_await m h k kk p ctx ch h1 h2 h3 c :
  kind_of k = Some kk -> (N.to_nat p < length (proms (ms h)))%nat -> HInv m h ->
  HInv (mapply m [4; k; p; ctx; ch; h1; h2; h3])
       {| ms := step (pre_env (step (ms h) (CallAwait kk (N.to_nat p))) (length (acts (ms h))) ctx ch)
                     (Step (length (acts (ms h))) c);
          hx := hx h; hexit := hexit h |}.
Proof.
  intros Hk Hlt H. pose proof H as (HR & HI & _).
  assert (HI1 : Inv (pre_env (step (ms h) (CallAwait kk (N.to_nat p))) (length (acts (ms h))) ctx ch)) by (apply pre_env_inv, stepg_inv, HI).
  set (x0 := {| pc := PAw kk (N.to_nat p); actx := N.eqb ctx 1; ach := ch_of ch |}).
  assert (E : pre_env (step (ms h) (CallAwait kk (N.to_nat p))) (length (acts (ms h))) ctx ch = with_acts (ms h) (acts (ms h) ++ [x0])).
  { unfold step. cbn [stepg]. apply Nat.ltb_lt in Hlt. rewrite Hlt. apply pre_env_add. }
  rewrite E in *. clear E.
  set (s1 := with_acts (ms h) (acts (ms h) ++ [x0])) in *.
  assert (G0 : nth_error (acts s1) (length (acts (ms h))) = Some x0) by apply nth_error_snoc_eq.
  assert (Hs0 : at_select x0 = true) by reflexivity.
  assert (HR1 : R (mapply m [4; k; p; ctx; ch; h1; h2; h3]) s1).
  { apply (R_snoc m (ms h) _ _ (mact0 4 k (N.to_nat p) (N.eqb ctx 1) ch None) HR); try reflexivity.
    unfold arel, awrel. cbn. rewrite (kind_of_kcode k kk Hk). auto. }
  destruct (sel_core s1 _ x0 c G0 Hs0) as (C1 & C2 & C3).
  apply (HInv_ext m h); auto.
  - eapply R_sel; eauto.
  - apply stepg_inv. exact HI1.
  - intros p0 Hp0. unfold pclosed. now rewrite C1.
  - intros a x G. rewrite step_Step_other by (apply nth_error_nth_len in G; lia).
    unfold s1, with_acts. cbn [acts]. now apply nth_error_snoc_lt.
  - intros a x' G Hge Hs.
    assert (a = length (acts (ms h))).
    { apply nth_error_nth_len in G. rewrite step_Step_len in G. unfold s1, with_acts in G. cbn [acts] in G.
      rewrite app_length in G. cbn in G. lia. }
    subst a. eapply sel_settled; eauto.
Qed.

(* ---- [3] SetResult: the call and its Swap ---- *)
Definition swapq (q : prom) (v : N) (e : err) : prom :=
  if isdone q
  then {| isdone := true; dclosed := dclosed q; fval := fval q; ferr := ferr q;
          nwrites := nwrites q; nswaps := S (nswaps q); wres := wres q; pre := pre q |}
  else {| isdone := true; dclosed := dclosed q; fval := fval q; ferr := ferr q;
          nwrites := nwrites q; nswaps := S (nswaps q); wres := Some (v, e); pre := pre q |}.
Definition swappc (q : prom) (p : nat) (v : N) (e : err) : apc :=
  if isdone q then PSetRet p false (nswaps q) else PSetGate p v e (nswaps q).

Lemma callset_swap s p v e q : nth_error (proms s) p = Some q ->
  step (step s (CallSet p v e)) (Step (length (acts s)) 0%nat) =
  {| proms := set_nth (proms s) p (swapq q v e); cb := cb s; cprom := cprom s;
     acts := acts s ++ [new_actor (swappc q p v e)] |}.
Proof.
  intros Gp. pose proof (nth_error_nth_len _ _ _ Gp) as Hlt. apply Nat.ltb_lt in Hlt.
  unfold step. cbn [stepg]. rewrite Hlt. unfold add_actor, with_acts. cbn [acts proms cb cprom].
  rewrite nth_error_snoc_eq. cbn [new_actor pc]. rewrite Gp. unfold swapq, swappc, seta. cbn [acts].
  rewrite nth_error_snoc_eq. destruct (isdone q); cbn [actx ach]; now rewrite set_nth_snoc.
Qed.

Lemma HInv_callset m h p v er : (N.to_nat p < length (proms (ms h)))%nat -> HInv m h ->
  HInv (mapply m [3; p; v; er])
       {| ms := step (step (ms h) (CallSet (N.to_nat p) v (err_of er))) (Step (length (acts (ms h))) 0%nat);
          hx := hx h; hexit := hexit h |}.
Proof.
  intros Hlt H. pose proof H as (HR & HI & _).
  assert (HI' : Inv (step (step (ms h) (CallSet (N.to_nat p) v (err_of er))) (Step (length (acts (ms h))) 0%nat)))
    by (apply stepg_inv, stepg_inv, HI).
  set (pn := N.to_nat p) in *.
  destruct (nth_error (proms (ms h)) pn) as [q|] eqn:Gp; [|apply nth_error_None in Gp; lia].
  rewrite (callset_swap (ms h) pn v (err_of er) q Gp) in *.
  destruct (R_prom m (ms h) pn q HR Gp) as (mq & Gm & (Hres & Hpub & Hwin)).
  pose proof HI as (_ & _ & HPok & _). destruct (HPok pn q Gp) as (P1 & P2 & P3 & _).
  destruct HR as (Hcur & HP & HA).
  assert (Hwn : forall p' w, p' <> pn -> wonb (acts (ms h) ++ [new_actor (swappc q pn v (err_of er))]) p' w = wonb (acts (ms h)) p' w).
  { intros p' w Hne. apply wonb_snoc. unfold swappc, won. destruct (isdone q); cbn [new_actor pc]; [reflexivity|].
    now apply Nat.eqb_neq. }
  apply (HInv_ext m h); auto.
  - split; [exact Hcur | split]; cbn [mapply mproms macts proms acts]; fold pn.
    + rewrite (upd_some _ _ _ _ Gm). apply (RP_set _ _ _ _ _ _ _ HP Hwn).
      unfold swapq, swappc. destruct (isdone q) eqn:Ed.
      * destruct (P2 eq_refl) as [_ Hw]. rewrite Hres. destruct (wres q) as [r|] eqn:Ew; [|congruence]. cbn [option_map].
        split; [exact Hres | split; [exact Hpub|]].
        intros w. rewrite wonb_snoc by reflexivity. apply Hwin.
      * destruct (P1 eq_refl) as (Hdc & _ & Hw & Hpre). rewrite Hres, Hw. cbn [option_map].
        split; [cbn; now rewrite err_code_of | split; [cbn [mpub dclosed]; now rewrite Hdc|]].
        intros w. cbn [mwin]. rewrite (proj1 HA).
        assert (Hnone : forall w0, wonb (acts (ms h)) pn w0 = false).
        { intros w0. unfold wonb. destruct (nth_error (acts (ms h)) w0) as [x|] eqn:G; [|reflexivity].
          rewrite Hpre in P3. cbn [b2n] in P3. apply (proj1 (cnt_zero_forall (won pn) _) P3 x). eapply nth_error_In; eauto. }
        unfold wonb. split.
        -- intros Hw0. inversion Hw0; subst w. rewrite nth_error_snoc_eq. unfold won. cbn [new_actor pc]. apply Nat.eqb_refl.
        -- intros Hw0. destruct (nth_error (acts (ms h) ++ [new_actor (PSetGate pn v (err_of er) (nswaps q))]) w) as [y|] eqn:Gy; [|discriminate].
           apply nth_error_snoc_cases in Gy as [[Gy _]|[-> _]]; [|reflexivity].
           specialize (Hnone w). unfold wonb in Hnone. rewrite Gy in Hnone. congruence.
    + apply RA_snoc; [exact HA|]. unfold arel, swappc. destruct (isdone q); cbn; auto.
  - intros p0 Hp0. unfold pclosed. cbn [proms]. destruct (Nat.eq_dec p0 pn) as [->|Hne].
    + rewrite nth_error_set_nth_same by exact Hp0. rewrite Gp. unfold swapq. now destruct (isdone q).
    + now rewrite nth_error_set_nth_other.
  - intros a x G. cbn [acts]. now apply nth_error_snoc_lt.
  - intros a x' G Hge Hs. exfalso. cbn [acts] in G.
    apply nth_error_snoc_cases in G as [[_ Hl]|[_ ->]]; [lia|]. unfold swappc, at_select in Hs. destruct (isdone q); discriminate Hs.
Qed.

(* ------------------------------------------------------------------ *)
(* events followed by settle: R / Inv / ExOk of the state before settle *)

Lemma ExOk_pc s s' ex : ExOk s ex ->
  (forall a x, nth_error (acts s) a = Some x -> exists y, nth_error (acts s') a = Some y /\ pc y = pc x) -> ExOk s' ex.
Proof.
  intros Hex Hpc a Hm. destruct (Hex a Hm) as (x & G & Hc). destruct (Hpc a x G) as (y & Gy & Ey).
  exists y. split; [exact Gy|]. unfold csel in *. now rewrite Ey.
Qed.

Lemma ExOk_not_member s ex a x : ExOk s ex -> nth_error (acts s) a = Some x -> csel x = false -> memb a ex = false.
Proof.
  intros Hex G Hc. destruct (memb a ex) eqn:Hm; [|reflexivity].
  destruct (Hex a Hm) as (y & Gy & Hy). congruence.
Qed.

Lemma ExOk_step_other s ex a c : ExOk s ex -> memb a ex = false -> ExOk (step s (Step a c)) ex.
Proof.
  intros Hex Hm b Hb. destruct (Hex b Hb) as (x & G & Hc). exists x. split; [|exact Hc].
  rewrite step_Step_other; [exact G | intros ->; congruence].
Qed.

Lemma memb_remb a b ex : memb b (remb a ex) = true -> b <> a /\ memb b ex = true.
Proof.
  unfold memb, remb. intros H. apply existsb_exists in H as (y & Hin & Hy). apply Nat.eqb_eq in Hy. subst y.
  apply filter_In in Hin as [Hin Hne]. apply negb_true_iff, Nat.eqb_neq in Hne.
  split; [congruence|]. apply existsb_exists. exists b. split; [exact Hin | apply Nat.eqb_refl].
Qed.

Lemma memb_cons a b ex : memb b (a :: ex) = true -> b = a \/ memb b ex = true.
Proof. unfold memb. cbn [existsb]. intros H. apply orb_true_iff in H as [H|H]; [left; now apply Nat.eqb_eq | right; exact H]. Qed.

(* ---- [6] cancel, [7] fire ---- *)
Lemma awaiter_arel_upd mx x k mx' x' : awaiter_kind (pc x) = Some k -> arel mx x ->
  pc x' = pc x -> mkind mx' = mkind mx -> mk mx' = mk mx -> mp mx' = mp mx -> msec mx' = msec mx ->
  mctx mx' = actx x' -> ach x' = ch_of (mch mx') -> arel mx' x'.
Proof.
  unfold arel, awrel. intros Hk Hrel Epc E1 E2 E3 E4 E5 E6. rewrite Epc.
  destruct (pc x); try discriminate Hk; rewrite E1, E2, ?E3, ?E4; intuition.
Qed.

Lemma awaiter_env mx x k : awaiter_kind (pc x) = Some k -> arel mx x -> mctx mx = actx x /\ ach x = ch_of (mch mx).
Proof.
  unfold arel, awrel. intros Hk Hrel. destruct (pc x); try discriminate Hk; intuition.
Qed.

Lemma pre_cancel m h a x k : HInv m h -> nth_error (acts (ms h)) (N.to_nat a) = Some x -> awaiter_kind (pc x) = Some k ->
  let s1 := step (ms h) (CancelCtx (N.to_nat a)) in
  R (mapply m [6; a]) s1 /\ Inv s1 /\ ExOk s1 (hexit h).
Proof.
  intros (HR & HI & _ & Hex) G Hk. cbn zeta. split; [|split; [now apply stepg_inv|]].
  - destruct HR as (Hcur & HP & HA). destruct (RA_get _ _ _ x HA G) as (mx & Gm & Hrel).
    unfold step. cbn [stepg mapply]. rewrite G, (upd_some _ _ _ _ Gm). unfold with_acts.
    split; [exact Hcur | split]; cbn [mproms macts proms acts].
    + apply (RP_wonb _ _ _ _ HP). intros p w. now apply (wonb_set_nth _ _ x).
    + apply RA_set2; [exact HA|]. eapply awaiter_arel_upd; eauto. cbn. apply (awaiter_env mx x k Hk Hrel).
  - unfold step. cbn [stepg]. rewrite G. unfold with_acts. apply (ExOk_pc (ms h)); [exact Hex|]. cbn [acts].
    intros b y Gb. destruct (Nat.eq_dec b (N.to_nat a)) as [->|Hne].
    + rewrite nth_error_set_nth_same by (eapply nth_error_nth_len; eauto). eexists. split; [reflexivity|]. cbn [pc]. congruence.
    + rewrite nth_error_set_nth_other by exact Hne. eauto.
Qed.

Lemma pre_fire m h a x k c : HInv m h -> nth_error (acts (ms h)) (N.to_nat a) = Some x -> awaiter_kind (pc x) = Some k ->
  ach x = ChOpen -> c <> 0 ->
  let s1 := step (ms h) (FireCh (N.to_nat a) (ch_of c)) in
  R (mapply m [7; a; c]) s1 /\ Inv s1 /\ ExOk s1 (hexit h).
Proof.
  intros (HR & HI & _ & Hex) G Hk Ho Hc. cbn zeta. split; [|split; [now apply stepg_inv|]].
  - destruct HR as (Hcur & HP & HA). destruct (RA_get _ _ _ x HA G) as (mx & Gm & Hrel).
    assert (E : step (ms h) (FireCh (N.to_nat a) (ch_of c)) =
                with_acts (ms h) (set_nth (acts (ms h)) (N.to_nat a) {| pc := pc x; actx := actx x; ach := ch_of c |})).
    { unfold step. cbn [stepg]. rewrite G, Ho. destruct (ch_of c) eqn:E; [apply ch_of_open in E; contradiction | |]; reflexivity. }
    rewrite E. cbn [mapply]. rewrite (upd_some _ _ _ _ Gm). unfold with_acts.
    split; [exact Hcur | split]; cbn [mproms macts proms acts].
    + apply (RP_wonb _ _ _ _ HP). intros p w. now apply (wonb_set_nth _ _ x).
    + apply RA_set2; [exact HA|]. eapply awaiter_arel_upd; eauto; cbn; try reflexivity.
      apply (awaiter_env mx x k Hk Hrel).
  - apply (ExOk_pc (ms h)); [exact Hex|]. unfold step. cbn [stepg]. rewrite G, Ho.
    intros b y Gb. destruct (ch_of c); [eauto | |]; unfold with_acts; cbn [acts].
    all: destruct (Nat.eq_dec b (N.to_nat a)) as [->|Hne];
      [rewrite nth_error_set_nth_same by (eapply nth_error_nth_len; eauto); eexists; split; [reflexivity|]; cbn [pc]; congruence
      | rewrite nth_error_set_nth_other by exact Hne; eauto].
Qed.

(* ---- [5] an actor is let past its gate ---- *)
Lemma mapply5_set m an h1 h2 h3 mx : nth_error (macts m) (N.to_nat an) = Some mx -> mkind mx = 3 ->
  mapply m [5; an; h1; h2; h3] =
  {| mproms := upd (mproms m) (mp mx) (fun q => match mwin q with
                                              | Some w => if Nat.eqb w (N.to_nat an) then {| mres := mres q; mwin := mwin q; mpub := true |} else q
                                              | None => q
                                              end);
     macts := macts m; mcur := mcur m |}.
Proof. intros G Hk. cbn [mapply]. now rewrite G, Hk. Qed.

Lemma mapply5_await m an h1 h2 h3 mx : nth_error (macts m) (N.to_nat an) = Some mx -> mkind mx = 8 ->
  mapply m [5; an; h1; h2; h3] =
  {| mproms := mproms m;
     macts := set_nth (macts m) (N.to_nat an) {| mkind := 8; mk := mk mx; mp := mp mx; mctx := mctx mx; mch := mch mx;
                                                 msec := Some (mcur m); msetp := None |};
     mcur := mcur m |}.
Proof. intros G Hk. cbn [mapply]. now rewrite G, Hk. Qed.

Lemma mapply5_cset m an h1 h2 h3 mx : nth_error (macts m) (N.to_nat an) = Some mx -> mkind mx = 9 ->
  mapply m [5; an; h1; h2; h3] = {| mproms := mproms m; macts := macts m; mcur := msetp mx |}.
Proof. intros G Hk. cbn [mapply]. now rewrite G, Hk. Qed.

Lemma mapply5_get m an h1 h2 h3 mx : nth_error (macts m) (N.to_nat an) = Some mx -> mkind mx = 11 ->
  mapply m [5; an; h1; h2; h3] = m.
Proof. intros G Hk. cbn [mapply]. now rewrite G, Hk. Qed.

(* gates other than the container awaiter's *)
Definition ogate (x : actor) : bool :=
  match pc x with PSetGate _ _ _ _ | CSetGate _ _ | CGetGate => true | _ => false end.

Lemma R_gate_other m s an x h1 h2 h3 : R m s -> Inv s ->
  nth_error (acts s) (N.to_nat an) = Some x -> ogate x = true ->
  R (mapply m [5; an; h1; h2; h3]) (step s (Step (N.to_nat an) 0%nat)).
Proof.
  intros HR HI G Hg. set (a := N.to_nat an) in *.
  pose proof HR as (Hcur & HP & HA). destruct (RA_get _ _ a x HA G) as (mx & Gm & Hrel).
  pose proof HI as (_ & _ & HPok & HAok). pose proof (HAok a x G) as Hx.
  unfold arel in Hrel. unfold aok in Hx. unfold ogate in Hg. unfold step. cbn [stepg]. rewrite G.
  destruct (pc x) as [| p v e t| | | | | | |po r| | |] eqn:Epc; try discriminate Hg.
  - (* publish *)
    destruct Hrel as (Hk & Hp). destruct Hx as (q & Gp & Hw & _ & Hpre). rewrite Gp.
    unfold a in Gm. rewrite (mapply5_set m an h1 h2 h3 mx Gm Hk), Hp. fold a.
    destruct (R_prom m s p q HR Gp) as (mq & Gmq & (Hres & Hpub & Hwin)).
    assert (Hwa : mwin mq = Some a). { apply Hwin. unfold wonb. rewrite G. unfold won. rewrite Epc. apply Nat.eqb_refl. }
    rewrite (upd_some _ _ _ _ Gmq), Hwa, Nat.eqb_refl. erewrite seta_eq by exact G.
    assert (Hwn : forall p' w, wonb (set_nth (acts s) a {| pc := PSetRet p true t; actx := actx x; ach := ach x |}) p' w = wonb (acts s) p' w).
    { intros p' w. apply (wonb_set_nth _ _ x); [exact G|]. unfold won. cbn [pc]. now rewrite Epc. }
    split; [exact Hcur | split]; cbn [mproms macts proms acts cprom].
    + apply (RP_set _ _ _ _ _ _ _ HP); [intros; apply Hwn|].
      split; [exact Hres | split; [reflexivity|]]. intros w. cbn [mwin]. rewrite Hwn, <- Hwa. apply Hwin.
    + apply RA_set1; [exact HA|]. intros mx0 Gm0. unfold arel. cbn [pc]. fold a in Gm. split; congruence.
  - (* container SetPromise / SetResult *)
    destruct Hrel as (Hk & Hp).
    unfold a in Gm. rewrite (mapply5_cset m an h1 h2 h3 mx Gm Hk). fold a. fold a in Gm.
    assert (HRA : RA (macts m) (seta s a (CSetRet r))).
    { erewrite seta_eq by exact G. apply RA_set1; [exact HA|]. intros mx0 Gm0. unfold arel. cbn [pc]. congruence. }
    assert (HRP : RP (mproms m) (proms s) (seta s a (CSetRet r))).
    { erewrite seta_eq by exact G. apply (RP_wonb _ _ _ _ HP). intros p' w. apply (wonb_set_nth _ _ x); [exact G|].
      unfold won. cbn [pc]. now rewrite Epc. }
    destruct (r || negb (opt_eqb (cprom s) po)) eqn:Eb.
    + split; [exact Hp | split; assumption].
    + unfold with_acts. split; [|split; assumption]. cbn [mcur cprom].
      apply orb_false_iff in Eb as [_ Eb]. apply negb_false_iff, opt_eqb_true in Eb. congruence.
  - (* GetPromise *)
    unfold a in Gm. rewrite (mapply5_get m an h1 h2 h3 mx Gm Hrel). fold a. fold a in Gm.
    destruct (getch (cb s)) as [b' ch]. split; [exact Hcur | split]; cbn [proms acts cprom]; erewrite seta_eq by exact G.
    + apply (RP_wonb _ _ _ _ HP). intros p' w. apply (wonb_set_nth _ _ x); [exact G|]. unfold won. cbn [pc]. now rewrite Epc.
    + apply RA_set1; [exact HA|]. intros mx0 Gm0. unfold arel. cbn [pc]. congruence.
Qed.

(* the container awaiter's HoldLock section *)
Lemma R_gate_sect m s an x k h1 h2 h3 : R m s ->
  nth_error (acts s) (N.to_nat an) = Some x -> pc x = CGate k ->
  R (mapply m [5; an; h1; h2; h3]) (step s (Step (N.to_nat an) 0%nat)) /\
  exists y, nth_error (acts (step s (Step (N.to_nat an) 0%nat))) (N.to_nat an) = Some y /\ csel y = true.
Proof.
  intros HR G Epc. pose proof HR as (Hcur & HP & HA). destruct (RA_get _ _ _ x HA G) as (mx & Gm & Hrel).
  unfold arel in Hrel. rewrite Epc in Hrel. destruct Hrel as (Hk & Hmk & Hctx & Hch).
  rewrite (mapply5_await m an h1 h2 h3 mx Gm Hk). unfold step. cbn [stepg]. rewrite G, Epc.
  destruct (getch (cb s)) as [b' ch]. cbn [acts]. erewrite seta_eq by exact G. split.
  - split; [exact Hcur | split]; cbn [mproms macts proms acts cprom].
    + apply (RP_wonb _ _ _ _ HP). intros p' w. apply (wonb_set_nth _ _ x); [exact G|]. unfold won. cbn [pc]. rewrite Epc.
      now destruct (cprom s).
    + apply RA_set2; [exact HA|]. unfold arel, awrel. cbn [pc]. rewrite Hcur.
      destruct (cprom s); cbn; auto.
  - rewrite nth_error_set_nth_same by (eapply nth_error_nth_len; eauto). eexists. split; [reflexivity|].
    unfold csel. cbn [pc]. now destruct (cprom s).
Qed.

(* ------------------------------------------------------------------ *)
(* what an accepted harness event is *)

Inductive hdec (h : hst) : list N -> st -> list nat -> Prop :=
| HD_1 : hdec h [1] (step (ms h) NewPromise) (hexit h)
| HD_2 v er : hdec h [2; v; er] (step (ms h) (NewPromiseWith v (err_of er))) (hexit h)
| HD_3 p v er : (N.to_nat p < length (proms (ms h)))%nat ->
    hdec h [3; p; v; er] (step (step (ms h) (CallSet (N.to_nat p) v (err_of er))) (Step (length (acts (ms h))) 0%nat)) (hexit h)
| HD_4 k kk p ctx ch h1 h2 h3 c : kind_of k = Some kk -> (N.to_nat p < length (proms (ms h)))%nat ->
    hdec h [4; k; p; ctx; ch; h1; h2; h3]
         (step (pre_env (step (ms h) (CallAwait kk (N.to_nat p))) (length (acts (ms h))) ctx ch) (Step (length (acts (ms h))) c))
         (hexit h)
| HD_5x a x k h1 h2 h3 : nth_error (acts (ms h)) (N.to_nat a) = Some x -> pc x = CGate k ->
    hdec h [5; a; h1; h2; h3] (settle (N.to_nat a :: hexit h) (step (ms h) (Step (N.to_nat a) 0%nat))) (N.to_nat a :: hexit h)
| HD_5c a x k h1 h2 h3 c : nth_error (acts (ms h)) (N.to_nat a) = Some x -> pc x = CGate k ->
    hdec h [5; a; h1; h2; h3] (settle (hexit h) (step (step (ms h) (Step (N.to_nat a) 0%nat)) (Step (N.to_nat a) c))) (hexit h)
| HD_5g a x h1 h2 h3 : nth_error (acts (ms h)) (N.to_nat a) = Some x -> ogate x = true ->
    hdec h [5; a; h1; h2; h3] (settle (hexit h) (step (ms h) (Step (N.to_nat a) 0%nat))) (hexit h)
| HD_12 a x h1 h2 h3 c : nth_error (acts (ms h)) (N.to_nat a) = Some x -> csel x = true ->
    hdec h [12; a; h1; h2; h3] (settle (remb (N.to_nat a) (hexit h)) (step (ms h) (Step (N.to_nat a) c))) (remb (N.to_nat a) (hexit h))
| HD_6 a x k : nth_error (acts (ms h)) (N.to_nat a) = Some x -> awaiter_kind (pc x) = Some k ->
    hdec h [6; a] (settle (hexit h) (step (ms h) (CancelCtx (N.to_nat a)))) (hexit h)
| HD_7 a x k c : nth_error (acts (ms h)) (N.to_nat a) = Some x -> awaiter_kind (pc x) = Some k -> ach x = ChOpen ->
    N.eqb c 0 = false ->
    hdec h [7; a; c] (settle (hexit h) (step (ms h) (FireCh (N.to_nat a) (ch_of c)))) (hexit h)
| HD_8 k kk ctx ch : kind_of k = Some kk ->
    hdec h [8; k; ctx; ch] (pre_env (step (ms h) (CallCAwait kk)) (length (acts (ms h))) ctx ch) (hexit h)
| HD_9n : hdec h [9; 0] (step (ms h) (CallCSetPromise None)) (hexit h)
| HD_9p q : (N.to_nat (N.pos q - 1) < length (proms (ms h)))%nat ->
    hdec h [9; N.pos q] (step (ms h) (CallCSetPromise (Some (N.to_nat (N.pos q - 1))))) (hexit h)
| HD_10 v er : hdec h [10; v; er] (step (ms h) (CallCSetResult v (err_of er))) (hexit h)
| HD_11 : hdec h [11] (step (ms h) CallCGet) (hexit h).

Lemma andb3 a b c : a && b && c = true -> a = true /\ b = true /\ c = true.
Proof. destruct a, b, c; cbn; auto. Qed.

Opaque step settle pre_env choose obs.
Lemma hstep_decomp h e h' o : hstep h e = Some (h', o) ->
  (hdec h e (ms h') (hexit h') /\ hx h' = hx h /\ o = obs h') \/
  (h' = h /\ o = [1; 1; 0] /\ exists t, e = 20 :: t).
Proof.
  unfold hstep. cbv zeta. intros H.
  repeat (match type of H with context [match ?t with _ => _ end] => destruct t eqn:?; try discriminate H end).
  all: injection H as Hh Ho; subst o; subst h'; cbn [ms hexit hx].
  all: try (right; split; [reflexivity | split; [reflexivity | eexists; reflexivity]]).
  all: left; (split; [|split; reflexivity]).
  all: repeat match goal with
       | E : (_ && _ && _) = true |- _ => apply andb3 in E; destruct E as (? & ? & ?)
       | E : (_ && _) = true |- _ => apply andb_true_iff in E; destruct E as (? & ?)
       | E : Nat.ltb _ _ = true |- _ => apply Nat.ltb_lt in E
       | E : negb _ = true |- _ => apply negb_true_iff in E
       end.
  all: try (econstructor; solve [eauto]).
  all: try (eapply HD_5g; [eassumption | unfold ogate; match goal with E : pc _ = _ |- _ => rewrite E end; reflexivity]).
  all: try (eapply HD_12; [eassumption | unfold csel; match goal with E : pc _ = _ |- _ => rewrite E end; reflexivity]).
Qed.
Transparent step settle pre_env choose obs.

Lemma csel_at_select x : csel x = true -> at_select x = true.
Proof. unfold csel, at_select. destruct (pc x); auto. Qed.

Lemma hdec_HInv m h e s' ex' : HInv m h -> hdec h e s' ex' -> HInv (mapply m e) {| ms := s'; hx := hx h; hexit := ex' |}.
Proof.
  intros H Hd. pose proof H as (HR & HI & Hs & Hex).
  destruct Hd as [|v er|p v er Hlt|k kk p ctx ch h1 h2 h3 c Hk Hlt|a x k h1 h2 h3 G Epc|a x k h1 h2 h3 c G Epc|a x h1 h2 h3 G Hg
                 |a x h1 h2 h3 c G Hc|a x k G Hk|a x k c G Hk Ho Hc|k kk ctx ch Hk| |q Hlt|v er|].
  - now apply HInv_newprom.
  - now apply HInv_newwith.
  - now apply HInv_callset.
  - now apply (HInv_await m h k kk).
  - (* container awaiter: section, then parked at the exit gate *)
    destruct (R_gate_sect m (ms h) a x k h1 h2 h3 HR G Epc) as (HR1 & y & Gy & Hy).
    apply HInv_settle; [exact HR1 | now apply stepg_inv|].
    assert (Hm : memb (N.to_nat a) (hexit h) = false).
    { eapply ExOk_not_member; eauto. unfold csel. now rewrite Epc. }
    intros b Hb. apply memb_cons in Hb as [->|Hb]; [eauto|].
    destruct (Hex b Hb) as (z & Gz & Hz). exists z. split; [|exact Hz].
    rewrite step_Step_other; [exact Gz | intros ->; congruence].
  - (* container awaiter: section, then its select *)
    destruct (R_gate_sect m (ms h) a x k h1 h2 h3 HR G Epc) as (HR1 & y & Gy & Hy).
    assert (Hm : memb (N.to_nat a) (hexit h) = false).
    { eapply ExOk_not_member; eauto. unfold csel. now rewrite Epc. }
    apply HInv_settle.
    + eapply R_sel; eauto. now apply csel_at_select.
    + now apply stepg_inv, stepg_inv.
    + apply ExOk_step_other; [|exact Hm]. apply ExOk_step_other; [exact Hex | exact Hm].
  - (* the other gates *)
    apply HInv_settle.
    + now apply (R_gate_other m (ms h) a x).
    + now apply stepg_inv.
    + apply ExOk_step_other; [exact Hex|]. eapply ExOk_not_member; eauto.
      unfold ogate in Hg. unfold csel. destruct (pc x); try discriminate Hg; reflexivity.
  - (* exit gate *)
    change (mapply m [12; a; h1; h2; h3]) with m.
    apply HInv_settle.
    + eapply R_sel; eauto. now apply csel_at_select.
    + now apply stepg_inv.
    + intros b Hb. apply memb_remb in Hb as (Hne & Hb). destruct (Hex b Hb) as (z & Gz & Hz).
      exists z. split; [|exact Hz]. now rewrite step_Step_other.
  - destruct (pre_cancel m h a x k H G Hk) as (A & B & C). now apply HInv_settle.
  - apply N.eqb_neq in Hc. destruct (pre_fire m h a x k c H G Hk Ho Hc) as (A & B & C). now apply HInv_settle.
  - now apply (HInv_cawait m h k kk).
  - now apply HInv_csetp_nil.
  - now apply HInv_csetp.
  - now apply HInv_csetres.
  - now apply HInv_cget.
Qed.

Lemma hdec_mon m h e s' ex' o : hdec h e s' ex' -> mon m e o = monN m e o.
Proof. intros Hd. destruct Hd; reflexivity. Qed.

(* ------------------------------------------------------------------ *)
(* the simulation step and the theorems *)

Lemma HInv_init cfg : HInv minit (hinit cfg).
Proof.
  unfold HInv, hinit. cbn [ms hexit]. split; [|split; [apply init_inv | split]].
  - split; [reflexivity | split; (split; [reflexivity|])]; intros i ? ? Hn; destruct i; discriminate Hn.
  - intros a x Hn. destruct a; discriminate Hn.
  - intros a Hm. discriminate Hm.
Qed.

Lemma mon_step m h e h' o : HInv m h -> hstep h e = Some (h', o) ->
  exists m' f, mon m e o = (m', f) /\ (forall p, In p f -> p = (11%nat, 7%nat) /\ d21 (ms h')) /\ HInv m' h'.
Proof.
  intros H Hst. destruct (hstep_decomp h e h' o Hst) as [(Hd & Hx & ->)|(-> & -> & t & ->)].
  - pose proof (hdec_HInv m h e _ _ H Hd) as H'.
    assert (Eh : {| ms := ms h'; hx := hx h; hexit := hexit h' |} = h') by (destruct h'; cbn in *; now subst).
    rewrite Eh in H'. rewrite (hdec_mon m h e _ _ (obs h') Hd). unfold monN.
    eexists; eexists. split; [reflexivity|]. split; [|exact H'].
    apply only7_filter. now apply bad_of_only7.
  - exists m, []. split; [reflexivity|]. split; [intros p []|exact H].
Qed.

(* filtering the reported clauses *)
Definition mon_only (keep : nat * nat -> bool) (m : mstt) (e o : list N) : mstt * list (nat * nat) :=
  let '(m', f) := mon m e o in (m', filter keep f).

Definition not_clause7 (p : nat * nat) : bool := negb (Nat.eqb (fst p) 11 && Nat.eqb (snd p) 7).

Theorem model_satisfies_monitors_gen evs : forall h m i rep, HInv m h ->
  monitor (mon_only not_clause7) i m rep evs (run_obs hstep h evs) = [].
Proof.
  induction evs as [|e evs IH]; intros h m i rep H; [reflexivity|].
  cbn [run_obs]. destruct (hstep h e) as [[h' o]|] eqn:E; [|reflexivity].
  destruct (mon_step m h e h' o H E) as (m' & f & Em & Hf & H').
  cbn [monitor]. unfold mon_only at 1. rewrite Em.
  assert (Ef : filter not_clause7 f = []).
  { clear -Hf. induction f as [|p f IHf]; [reflexivity|]. cbn [filter].
    rewrite (proj1 (Hf p (or_introl eq_refl))). cbn. apply IHf. intros p0 Hp0. apply Hf. now right. }
  rewrite Ef. cbn [filter map app]. now apply IH.
Qed.

(* every issue the unfiltered monitors raise on the model's own observations is clause 7 of property 11 *)
Theorem model_monitors_only_clause7_gen evs : forall h m i rep, HInv m h ->
  forall x, In x (monitor mon i m rep evs (run_obs hstep h evs)) -> exists j, x = PropFalse 11 7 j.
Proof.
  induction evs as [|e evs IH]; intros h m i rep H x Hin; [destruct Hin|].
  cbn [run_obs] in Hin. destruct (hstep h e) as [[h' o]|] eqn:E; [|destruct Hin].
  destruct (mon_step m h e h' o H E) as (m' & f & Em & Hf & H').
  cbn [monitor] in Hin. rewrite Em in Hin. apply in_app_or in Hin as [Hin|Hin].
  - apply in_map_iff in Hin as (p & <- & Hp). apply filter_In in Hp as [Hp _]. rewrite (proj1 (Hf p Hp)). cbn. eauto.
  - eapply IH; eauto.
Qed.

Theorem model_satisfies_monitors cfg evs :
  monitor (mon_only not_clause7) 0 minit [] evs (run_obs hstep (hinit cfg) evs) = [].
Proof. apply model_satisfies_monitors_gen, HInv_init. Qed.

Theorem model_monitors_only_clause7 cfg evs x :
  In x (monitor mon 0 minit [] evs (run_obs hstep (hinit cfg) evs)) -> exists j, x = PropFalse 11 7 j.
Proof. apply model_monitors_only_clause7_gen, HInv_init. Qed.

Lemma list_eqb_refl l : list_eqb l l = true.
Proof. induction l as [|h t IH]; [reflexivity|]. cbn [list_eqb]. now rewrite N.eqb_refl, IH. Qed.

Lemma replay_own evs : forall h i, length (run_obs hstep h evs) = length evs ->
  replay hstep i h evs (run_obs hstep h evs) = [].
Proof.
  induction evs as [|e evs IH]; intros h i Hl; [reflexivity|]. cbn [run_obs replay] in *.
  destruct (hstep h e) as [[h' o]|]; [|discriminate Hl]. cbn [length] in Hl. rewrite list_eqb_refl. apply IH. lia.
Qed.

(* the whole checker (replay + monitors without clause 7) accepts every history the model itself produces *)
Theorem model_run_check_clean cfg evs :
  length (run_obs hstep (hinit cfg) evs) = length evs ->
  run_check hstep (mon_only not_clause7) (hinit cfg) minit evs (run_obs hstep (hinit cfg) evs) = [].
Proof.
  intros Hl. unfold run_check. rewrite (replay_own evs (hinit cfg) 0%nat Hl), model_satisfies_monitors. reflexivity.
Qed.

(* ... and the checker as extracted (all clauses) raises nothing but clause 7 on them *)
Theorem model_run_check_only_clause7 cfg evs x :
  length (run_obs hstep (hinit cfg) evs) = length evs ->
  In x (run_check_promise cfg evs (run_obs hstep (hinit cfg) evs)) -> exists j, x = PropFalse 11 7 j.
Proof.
  intros Hl. unfold run_check_promise, run_check. rewrite (replay_own evs (hinit cfg) 0%nat Hl). cbn [app].
  apply model_monitors_only_clause7.
Qed.

(* ------------------------------------------------------------------ *)
(* clause 7 is raised ONLY in the D20/D21 situation *)

(* model and monitors run side by side along an accepted history *)
Fixpoint hrun (h : hst) (m : mstt) (evs : list (list N)) : option (hst * mstt) :=
  match evs with
  | [] => Some (h, m)
  | e :: t => match hstep h e with
              | None => None
              | Some (h', o) => hrun h' (fst (mon m e o)) t
              end
  end.

Lemma hrun_HInv evs : forall h m h1 m1, HInv m h -> hrun h m evs = Some (h1, m1) -> HInv m1 h1.
Proof.
  induction evs as [|e evs IH]; intros h m h1 m1 H Hr; cbn [hrun] in Hr; [inversion Hr; now subst|].
  destruct (hstep h e) as [[h' o]|] eqn:E; [|discriminate Hr].
  destruct (mon_step m h e h' o H E) as (m' & f & Em & _ & H'). rewrite Em in Hr. cbn [fst] in Hr. eauto.
Qed.

Theorem clause7_only_in_d21 cfg evs h m e h' o :
  hrun (hinit cfg) minit evs = Some (h, m) -> hstep h e = Some (h', o) ->
  forall p, In p (snd (mon m e o)) -> p = (11%nat, 7%nat) /\ d21 (ms h').
Proof.
  intros Hr E p Hp. pose proof (hrun_HInv evs _ _ _ _ (HInv_init cfg) Hr) as H.
  destruct (mon_step m h e h' o H E) as (m' & f & Em & Hf & _). rewrite Em in Hp. now apply Hf.
Qed.

(* ... and it IS raised there: on the D20/D21 history the model's own observations make clause 7 false *)
Definition d21_history : list (list N) := [[1]; [9; 1]; [5; 0; 5; 0; 0]; [8; 1; 0; 0]; [5; 1; 2; 0; 0]; [7; 1; 5]].

Theorem monitors_clause7_refuted :
  length (run_obs hstep (hinit [0]) d21_history) = length d21_history /\
  monitor mon 0 minit [] d21_history (run_obs hstep (hinit [0]) d21_history) = [PropFalse 11 7 5].
Proof. vm_compute. split; reflexivity. Qed.
