(* Promise: a SetResult on a promise that is already resolved returns false and changes nothing but the bookkeeping
   counter nswaps (which no observation shows): the promise table is the same up to that counter, the container is the
   same, and the only new thing is one finished actor that returned false.  This is what justifies the saturation
   history of the harness (thorough tier), in which 2^32 such calls are made but only three of them are recorded. *)
From Util Require Import Common.Base Common.ListLemmas Promise.Model.

Definition forget (q : prom) : prom :=
  {| isdone := isdone q; dclosed := dclosed q; fval := fval q; ferr := ferr q; nwrites := nwrites q; nswaps := 0;
     wres := wres q; pre := pre q |}.

Lemma map_set_nth_same {A B} (f : A -> B) (l : list A) k x y :
  nth_error l k = Some x -> f y = f x -> map f (set_nth l k y) = map f l.
Proof.
  revert k. induction l as [|h t IH]; intros [|k] Hn Hf; cbn in *; try discriminate.
  - inversion Hn; subst. now rewrite Hf.
  - now rewrite (IH k Hn Hf).
Qed.

Lemma set_nth_app_last {A} (l : list A) x y : set_nth (l ++ [x]) (length l) y = l ++ [y].
Proof. induction l as [|h t IH]; cbn; [reflexivity | now rewrite IH]. Qed.

Lemma nth_error_app_last {A} (l : list A) x : nth_error (l ++ [x]) (length l) = Some x.
Proof. induction l as [|h t IH]; cbn; [reflexivity | exact IH]. Qed.

Theorem setresult_on_resolved_is_noop s p v e q :
  nth_error (proms s) p = Some q -> isdone q = true ->
  let s' := step (step s (CallSet p v e)) (Step (length (acts s)) 0) in
  map forget (proms s') = map forget (proms s) /\ cb s' = cb s /\ cprom s' = cprom s /\
  acts s' = acts s ++ [new_actor (PSetRet p false (nswaps q))].
Proof.
  intros Hn Hd. cbn zeta.
  assert (Hlt : Nat.ltb p (length (proms s)) = true).
  { apply Nat.ltb_lt. apply nth_error_Some. rewrite Hn. discriminate. }
  assert (E1 : step s (CallSet p v e) = with_acts s (acts s ++ [new_actor (PSet p v e)])).
  { unfold step. cbn [stepg]. rewrite Hlt. reflexivity. }
  rewrite E1.
  assert (E2 : step (with_acts s (acts s ++ [new_actor (PSet p v e)])) (Step (length (acts s)) 0) =
    {| proms := set_nth (proms s) p
                  {| isdone := true; dclosed := dclosed q; fval := fval q; ferr := ferr q; nwrites := nwrites q;
                     nswaps := S (nswaps q); wres := wres q; pre := pre q |};
       cb := cb s; cprom := cprom s; acts := acts s ++ [new_actor (PSetRet p false (nswaps q))] |}).
  { unfold step, stepg, with_acts. cbn [acts proms cb cprom].
    rewrite nth_error_app_last. cbn [pc new_actor]. rewrite Hn, Hd. f_equal.
    unfold seta. cbn [acts]. rewrite nth_error_app_last. cbn [actx ach new_actor]. apply set_nth_app_last. }
  rewrite E2. cbn [proms cb cprom acts]. repeat split.
  apply (map_set_nth_same forget _ _ q); [exact Hn|]. unfold forget. cbn. now rewrite Hd.
Qed.
Print Assumptions setresult_on_resolved_is_noop.
