(* promise.Promise and promise.PromiseContainer (C11).  No proofs in this file.

   Promise is modelled at memory-access granularity:
     SetResult = [atomic Swap of isDone]  -- gate (promise.VerifHook site 0) --  [write result, err; close done]
   awaiters select on  ctx.Done | errCh / cancelCh | done  and then read the two fields.
   PromiseContainer is modelled at gate granularity (one Broadcast.HoldLock section = one step):
     { cb : bc; cprom : option promise-id } with SetPromise (incl. nil), SetResult (fresh pre-resolved
     promise), GetPromise and the three Await* loops.

   An actor that has reached a select stays in its "at select" pc until a Step finds a ready case
   (a Step with no ready case is a stutter = the goroutine is blocked); which ready case is taken when
   several are is the argument c of Step (1 ctx, 2 own err/cancel channel, 3 the container's wait
   channel, 4 the promise's done channel); a c that is not ready falls back to the first ready case.

   [stepg true]  is the current code of /repo;  [stepg false] is the code before commit 27bd93c (D11):
   a result whose error is context.Canceled was treated like "the promise was replaced". *)
From Util Require Import Common.Base Common.ListLemmas.

Inductive err := ENil | ECanceled | EDeadline | EOther (n : nat).
Inductive akind := KAwait | KErrCh | KCancelCh.
(* the awaiter's own channel: errCh (capacity 1: holds an error, or closed) or cancelCh (fired = closed) *)
Inductive chst := ChOpen | ChVal (e : err) | ChClosed.

Record prom := {
  isdone : bool;            (* the atomic flag *)
  dclosed : bool;           (* the done channel is closed *)
  fval : N; ferr : err;     (* the two plain fields *)
  nwrites : nat;            (* ghost: how many times the fields have been written *)
  nswaps : nat;             (* ghost: how many Swap operations (the constructor's Store counts as one) *)
  wres : option (N * err);  (* ghost: arguments of the Swap that found false / of the constructor *)
  pre : bool                (* ghost: constructed resolved (NewPromiseWithResult) *)
}.

Inductive apc :=
| PSet (p : nat) (v : N) (e : err)                (* SetResult called, Swap not yet executed *)
| PSetGate (p : nat) (v : N) (e : err) (t : nat)  (* won the Swap with ticket t, parked before the writes *)
| PSetRet (p : nat) (b : bool) (t : nat)          (* returned b; t = number of Swaps before its own *)
| PAw (k : akind) (p : nat)                       (* Promise.Await*: at / blocked in its select *)
| ARet (v : N) (e : err) (src : option nat)       (* an await returned; src = Some p: through p's done channel *)
| CGate (k : akind)                               (* container Await*: at the HoldLock gate of an iteration *)
| CNil (k : akind) (ch : nat)                     (* promise was nil: select ctx | own channel | waitCh *)
| CProm (k : akind) (p : nat) (ch : nat)          (* inside p.AwaitWithCancelCh(ctx, waitCh) *)
| CSetGate (p : option nat) (isres : bool)        (* container SetPromise(p) / SetResult at the HoldLock gate *)
| CSetRet (isres : bool)
| CGetGate
| CGetRet (p : option nat) (ch : nat).

Record actor := { pc : apc; actx : bool; ach : chst }.
Record st := { proms : list prom; cb : bc; cprom : option nat; acts : list actor }.

Inductive ev :=
| NewPromise
| NewPromiseWith (v : N) (e : err)
| CallSet (p : nat) (v : N) (e : err)
| CallAwait (k : akind) (p : nat)
| CallCAwait (k : akind)
| CallCSetPromise (p : option nat)
| CallCSetResult (v : N) (e : err)
| CallCGet
| CancelCtx (a : nat)
| FireCh (a : nat) (c : chst)
| Step (a : nat) (c : nat).

Definition init : st := {| proms := []; cb := bc0; cprom := None; acts := [] |}.

Definition prom0 : prom :=
  {| isdone := false; dclosed := false; fval := 0%N; ferr := ENil; nwrites := 0; nswaps := 0; wres := None; pre := false |}.
Definition prom_with (v : N) (e : err) : prom :=
  {| isdone := true; dclosed := true; fval := v; ferr := e; nwrites := 1; nswaps := 1; wres := Some (v, e); pre := true |}.

Definition new_actor (p : apc) : actor := {| pc := p; actx := false; ach := ChOpen |}.

Definition seta (s : st) (a : nat) (p : apc) : list actor :=
  match nth_error (acts s) a with
  | Some x => set_nth (acts s) a {| pc := p; actx := actx x; ach := ach x |}
  | None => acts s
  end.

Definition opt_eqb (a b : option nat) : bool :=
  match a, b with
  | None, None => true
  | Some x, Some y => Nat.eqb x y
  | _, _ => false
  end.

Definition pclosed (s : st) (p : nat) : bool :=
  match nth_error (proms s) p with Some q => dclosed q | None => false end.

Definition ch_ready (k : akind) (c : chst) : bool :=
  match k, c with
  | KAwait, _ => false
  | _, ChOpen => false
  | _, _ => true
  end.

(* what Promise.AwaitWithErrCh / AwaitWithCancelCh return when the own channel is taken *)
Definition ch_err_direct (k : akind) (c : chst) : err :=
  match k, c with
  | KErrCh, ChVal e => e
  | _, _ => ECanceled
  end.
(* what PromiseContainer.AwaitWithErrCh / AwaitWithCancelCh return (nil-promise branch) *)
Definition ch_err_cont (k : akind) (c : chst) : err :=
  match k, c with
  | KErrCh, ChVal e => e
  | KErrCh, _ => ECanceled
  | _, _ => ENil
  end.

Definition first_ready (f : nat -> bool) : nat :=
  if f 1 then 1 else if f 2 then 2 else if f 3 then 3 else if f 4 then 4 else 0.
Definition pick (f : nat -> bool) (c : nat) : nat := if f c then c else first_ready f.

Definition rdy_direct (s : st) (x : actor) (k : akind) (p : nat) (c : nat) : bool :=
  match c with
  | 1 => actx x
  | 2 => ch_ready k (ach x)
  | 4 => pclosed s p
  | _ => false
  end.
Definition rdy_nil (s : st) (x : actor) (k : akind) (ch : nat) (c : nat) : bool :=
  match c with
  | 1 => actx x
  | 2 => ch_ready k (ach x)
  | 3 => closed (cb s) ch
  | _ => false
  end.
Definition rdy_prom (s : st) (x : actor) (p ch : nat) (c : nat) : bool :=
  match c with
  | 1 => actx x
  | 3 => closed (cb s) ch
  | 4 => pclosed s p
  | _ => false
  end.

Definition with_acts (s : st) (l : list actor) : st :=
  {| proms := proms s; cb := cb s; cprom := cprom s; acts := l |}.
Definition add_actor (s : st) (p : apc) : st := with_acts s (acts s ++ [new_actor p]).

Definition stepg (fixed : bool) (s : st) (e : ev) : st :=
  match e with
  | NewPromise => {| proms := proms s ++ [prom0]; cb := cb s; cprom := cprom s; acts := acts s |}
  | NewPromiseWith v e => {| proms := proms s ++ [prom_with v e]; cb := cb s; cprom := cprom s; acts := acts s |}
  | CallSet p v e => if Nat.ltb p (length (proms s)) then add_actor s (PSet p v e) else s
  | CallAwait k p => if Nat.ltb p (length (proms s)) then add_actor s (PAw k p) else s
  | CallCAwait k => add_actor s (CGate k)
  | CallCSetPromise None => add_actor s (CSetGate None false)
  | CallCSetPromise (Some p) => if Nat.ltb p (length (proms s)) then add_actor s (CSetGate (Some p) false) else s
  | CallCSetResult v e =>
    {| proms := proms s ++ [prom_with v e]; cb := cb s; cprom := cprom s;
       acts := acts s ++ [new_actor (CSetGate (Some (length (proms s))) true)] |}
  | CallCGet => add_actor s CGetGate
  | CancelCtx a =>
    match nth_error (acts s) a with
    | Some x => with_acts s (set_nth (acts s) a {| pc := pc x; actx := true; ach := ach x |})
    | None => s
    end
  | FireCh a c =>
    match nth_error (acts s) a with
    | Some x =>
      match ach x, c with
      | ChOpen, ChOpen => s
      | ChOpen, _ => with_acts s (set_nth (acts s) a {| pc := pc x; actx := actx x; ach := c |})
      | _, _ => s
      end
    | None => s
    end
  | Step a c =>
    match nth_error (acts s) a with
    | None => s
    | Some x =>
      match pc x with
      | PSet p v e =>
        match nth_error (proms s) p with
        | None => s
        | Some q =>
          if isdone q
          then {| proms := set_nth (proms s) p
                             {| isdone := true; dclosed := dclosed q; fval := fval q; ferr := ferr q;
                                nwrites := nwrites q; nswaps := S (nswaps q); wres := wres q; pre := pre q |};
                  cb := cb s; cprom := cprom s; acts := seta s a (PSetRet p false (nswaps q)) |}
          else {| proms := set_nth (proms s) p
                             {| isdone := true; dclosed := dclosed q; fval := fval q; ferr := ferr q;
                                nwrites := nwrites q; nswaps := S (nswaps q); wres := Some (v, e); pre := pre q |};
                  cb := cb s; cprom := cprom s; acts := seta s a (PSetGate p v e (nswaps q)) |}
        end
      | PSetGate p v e t =>
        match nth_error (proms s) p with
        | None => s
        | Some q =>
          {| proms := set_nth (proms s) p
                        {| isdone := isdone q; dclosed := true; fval := v; ferr := e;
                           nwrites := S (nwrites q); nswaps := nswaps q; wres := wres q; pre := pre q |};
             cb := cb s; cprom := cprom s; acts := seta s a (PSetRet p true t) |}
        end
      | PAw k p =>
        match pick (rdy_direct s x k p) c with
        | 1 => with_acts s (seta s a (ARet 0%N ECanceled None))
        | 2 => with_acts s (seta s a (ARet 0%N (ch_err_direct k (ach x)) None))
        | 4 => match nth_error (proms s) p with
               | Some q => with_acts s (seta s a (ARet (fval q) (ferr q) (Some p)))
               | None => s
               end
        | _ => s
        end
      | CGate k =>
        let '(b', ch) := getch (cb s) in
        {| proms := proms s; cb := b'; cprom := cprom s;
           acts := seta s a (match cprom s with None => CNil k ch | Some p => CProm k p ch end) |}
      | CNil k ch =>
        match pick (rdy_nil s x k ch) c with
        | 1 => with_acts s (seta s a (ARet 0%N ECanceled None))
        | 2 => with_acts s (seta s a (ARet 0%N (ch_err_cont k (ach x)) None))
        | 3 => with_acts s (seta s a (CGate k))
        | _ => s
        end
      | CProm k p ch =>
        match pick (rdy_prom s x p ch) c with
        | 1 => with_acts s (seta s a (ARet 0%N ECanceled None))
        | 3 => with_acts s (seta s a (if actx x then ARet 0%N ECanceled None else CGate k))
        | 4 =>
          match nth_error (proms s) p with
          | None => s
          | Some q =>
            with_acts s (seta s a
              (match ferr q with
               | ECanceled =>
                 if actx x then ARet (fval q) ECanceled (Some p)
                 else if fixed
                      then (if closed (cb s) ch then CGate k else ARet (fval q) ECanceled (Some p))
                      else CGate k
               | e' => ARet (fval q) e' (Some p)
               end))
          end
        | _ => s
        end
      | CSetGate po isres =>
        if isres || negb (opt_eqb (cprom s) po)
        then {| proms := proms s; cb := bcast (cb s); cprom := po; acts := seta s a (CSetRet isres) |}
        else with_acts s (seta s a (CSetRet isres))
      | CGetGate =>
        let '(b', ch) := getch (cb s) in
        {| proms := proms s; cb := b'; cprom := cprom s; acts := seta s a (CGetRet (cprom s) ch) |}
      | PSetRet _ _ _ | ARet _ _ _ | CSetRet _ | CGetRet _ _ => s
      end
    end
  end.

Definition step : st -> ev -> st := stepg true.
Definition step_pinned : st -> ev -> st := stepg false.
Definition run (es : list ev) : st := fold_left step es init.
Definition run_pinned (es : list ev) : st := fold_left step_pinned es init.

(* ---- classification of actors ---- *)
Definition at_gate (x : actor) : bool :=
  match pc x with PSet _ _ _ | PSetGate _ _ _ _ | CGate _ | CSetGate _ _ | CGetGate => true | _ => false end.
Definition at_select (x : actor) : bool :=
  match pc x with PAw _ _ | CNil _ _ | CProm _ _ _ => true | _ => false end.
Definition returned (x : actor) : bool :=
  match pc x with PSetRet _ _ _ | ARet _ _ _ | CSetRet _ | CGetRet _ _ => true | _ => false end.

(* some select case of the actor is ready *)
Definition any_ready (s : st) (x : actor) : bool :=
  match pc x with
  | PAw k p => negb (Nat.eqb (first_ready (rdy_direct s x k p)) 0)
  | CNil k ch => negb (Nat.eqb (first_ready (rdy_nil s x k ch)) 0)
  | CProm k p ch => negb (Nat.eqb (first_ready (rdy_prom s x p ch)) 0)
  | _ => false
  end.

(* no internal step is enabled: nobody at a gate, nobody at a select with a ready case *)
Definition quiescent (s : st) : bool :=
  forallb (fun x => negb (at_gate x) && negb (any_ready s x)) (acts s).

(* SetResult calls on promise p that won (are at the gate or have returned true) *)
Definition won (p : nat) (x : actor) : bool :=
  match pc x with
  | PSetGate p' _ _ _ => Nat.eqb p p'
  | PSetRet p' true _ => Nat.eqb p p'
  | _ => false
  end.
Definition at_pubgate (p : nat) (x : actor) : bool :=
  match pc x with PSetGate p' _ _ _ => Nat.eqb p p' | _ => false end.

(* an actor run alone for the given choices *)
Definition solo (fixed : bool) (s : st) (a : nat) (cs : list nat) : st :=
  fold_left (fun s c => stepg fixed s (Step a c)) cs s.
