(* Proofs about the Promise / PromiseContainer model (C11). *)
From Util Require Import Common.Base Common.ListLemmas Promise.Model.

Definition dflt : actor := {| pc := CSetRet false; actx := false; ach := ChOpen |}.

(* ------------------------------------------------------------------ *)
(* the invariant *)

(* facts about promise p (record q) against the actor table l *)
Definition pok (l : list actor) (p : nat) (q : prom) : Prop :=
  (isdone q = false -> dclosed q = false /\ nswaps q = 0 /\ wres q = None /\ pre q = false) /\
  (isdone q = true -> 1 <= nswaps q /\ wres q <> None) /\
  cnt (won p) l = (if pre q then 0 else b2n (isdone q)) /\
  cnt (at_pubgate p) l + b2n (dclosed q) = b2n (isdone q) /\
  nwrites q = b2n (dclosed q) /\
  (dclosed q = true -> wres q = Some (fval q, ferr q)) /\
  (pre q = true -> dclosed q = true).

(* facts about one actor against promises ps, the container's Broadcast b and current promise cp *)
Definition aok (ps : list prom) (b : bc) (cp : option nat) (x : actor) : Prop :=
  match pc x with
  | PSet p _ _ => p < length ps
  | PSetGate p v e t => exists q, nth_error ps p = Some q /\ wres q = Some (v, e) /\ t = 0 /\ pre q = false
  | PSetRet p r t => p < length ps /\ (r = true <-> t = 0)
  | PAw _ p => p < length ps
  | ARet v e (Some p) => exists q, nth_error ps p = Some q /\ dclosed q = true /\ fval q = v /\ ferr q = e
  | CNil _ ch => ch < nxt b /\ (closed b ch = false -> cp = None)
  | CProm _ p ch => p < length ps /\ ch < nxt b /\ (closed b ch = false -> cp = Some p)
  | CSetGate (Some p) _ => p < length ps
  | _ => True
  end.

Definition Inv (s : st) : Prop :=
  bc_wf (cb s) /\
  (forall p, cprom s = Some p -> p < length (proms s)) /\
  (forall p q, nth_error (proms s) p = Some q -> pok (acts s) p q) /\
  (forall a x, nth_error (acts s) a = Some x -> aok (proms s) (cb s) (cprom s) x).

(* ------------------------------------------------------------------ *)
(* small facts *)

Lemma geta (l : list actor) a x : nth_error l a = Some x -> a < length l /\ nth a l dflt = x.
Proof. intros H. split; [eapply nth_error_nth_len; eauto | now apply nth_error_nth]. Qed.

Lemma set_nth_lookup {A} (l : list A) a v k y :
  nth_error (set_nth l a v) k = Some y ->
  (k <> a /\ nth_error l k = Some y) \/ (k = a /\ a < length l /\ y = v).
Proof.
  intros H. destruct (Nat.eq_dec k a) as [->|Hne].
  - destruct (Nat.lt_ge_cases a (length l)) as [Hl|Hl].
    + rewrite nth_error_set_nth_same in H by exact Hl. inversion H. right. auto.
    + rewrite set_nth_oob in H by exact Hl. apply nth_error_nth_len in H. lia.
  - rewrite nth_error_set_nth_other in H by exact Hne. left. auto.
Qed.

Lemma cnt_set_nth_eq (P : actor -> bool) l a x x' :
  nth_error l a = Some x -> P x' = P x -> cnt P (set_nth l a x') = cnt P l.
Proof.
  intros G HP. destruct (geta _ _ _ G) as [Hl Hn].
  pose proof (cnt_set_nth P l a x' dflt Hl) as H. rewrite Hn, HP in H. lia.
Qed.

Lemma cnt_snoc (P : actor -> bool) l x : cnt P (l ++ [x]) = cnt P l + b2n (P x).
Proof. rewrite cnt_app. unfold cnt at 2. cbn. destruct (P x); reflexivity. Qed.

Lemma seta_eq s a x np : nth_error (acts s) a = Some x ->
  seta s a np = set_nth (acts s) a {| pc := np; actx := actx x; ach := ach x |}.
Proof. intros G. unfold seta. now rewrite G. Qed.

Lemma nth_error_snoc_lt {A} (l : list A) y p q : nth_error l p = Some q -> nth_error (l ++ [y]) p = Some q.
Proof. intros H. rewrite nth_error_app1; [exact H | eapply nth_error_nth_len; eauto]. Qed.

(* aok is monotone in the promise list *)
Lemma aok_snoc_prom ps b cp x q0 : aok ps b cp x -> aok (ps ++ [q0]) b cp x.
Proof.
  unfold aok. rewrite app_length. cbn [length].
  destruct (pc x) as [p v e|p v e t|p r t|k p|v e [p|]|k|k ch|k p ch|[p|] r|r| |po ch]; intros H; try exact H; try lia.
  - destruct H as [q [H1 H2]]. exists q. split; [now apply nth_error_snoc_lt | exact H2].
  - destruct H as [H1 H2]. split; [lia | exact H2].
  - destruct H as [q [H1 H2]]. exists q. split; [now apply nth_error_snoc_lt | exact H2].
  - destruct H as [H1 H2]. split; [lia | exact H2].
Qed.

(* aok under a change of the container part *)
Lemma aok_cont ps b cp b' cp' x :
  aok ps b cp x -> nxt b <= nxt b' ->
  (forall ch, ch < nxt b -> closed b' ch = false -> closed b ch = false /\ cp' = cp) ->
  aok ps b' cp' x.
Proof.
  unfold aok. intros H Hn Hc.
  destruct (pc x) as [p v e|p v e t|p r t|k p|v e [p|]|k|k ch|k p ch|[p|] r|r| |po ch]; try exact H.
  - destruct H as [H1 H2]. split; [lia|]. intros Hcl. destruct (Hc ch H1 Hcl) as [H3 ->]. auto.
  - destruct H as [H0 [H1 H2]]. split; [exact H0 | split; [lia|]]. intros Hcl. destruct (Hc ch H1 Hcl) as [H3 ->]. auto.
Qed.

(* an actor that satisfies aok mentions only allocated promises in won / at_pubgate *)
Lemma aok_won_range ps b cp x p : aok ps b cp x -> length ps <= p -> won p x = false /\ at_pubgate p x = false.
Proof.
  unfold aok, won, at_pubgate. intros H Hp.
  destruct (pc x) as [p' v e|p' v e t|p' r t|k p'|v e [p'|]|k|k ch|k p' ch|[p'|] r|r| |po ch]; auto.
  - destruct H as [q [H1 _]]. apply nth_error_nth_len in H1.
    destruct (Nat.eqb_spec p p'); [lia | auto].
  - destruct H as [H1 _]. destruct r; [|auto]. destruct (Nat.eqb_spec p p'); [lia | auto].
Qed.

Lemma inv_fresh_counts s p : Inv s -> length (proms s) <= p ->
  cnt (won p) (acts s) = 0 /\ cnt (at_pubgate p) (acts s) = 0.
Proof.
  intros (_ & _ & _ & HA) Hp. split; apply cnt_zero_forall; intros x Hin;
    apply In_nth_error in Hin as [a Ha]; eapply aok_won_range; eauto.
Qed.

(* ------------------------------------------------------------------ *)
(* frame lemmas *)

(* A: one actor changes (same won / at_pubgate status), the container part may change, promises unchanged *)
Lemma inv_actor s a x x' b' cp' :
  Inv s -> nth_error (acts s) a = Some x ->
  (forall p, won p x' = won p x) -> (forall p, at_pubgate p x' = at_pubgate p x) ->
  bc_wf b' -> nxt (cb s) <= nxt b' ->
  (forall ch, ch < nxt (cb s) -> closed b' ch = false -> closed (cb s) ch = false /\ cp' = cprom s) ->
  (forall p, cp' = Some p -> p < length (proms s)) ->
  aok (proms s) b' cp' x' ->
  Inv {| proms := proms s; cb := b'; cprom := cp'; acts := set_nth (acts s) a x' |}.
Proof.
  intros (Hwf & Hcp & HP & HA) G Hw Hg Hwf' Hn Hc Hcp' Hx'.
  split; [exact Hwf' | split; [exact Hcp' | split]]; cbn [proms cb cprom acts].
  - intros p q Hq. specialize (HP p q Hq). unfold pok in *.
    rewrite (cnt_set_nth_eq (won p) _ _ _ _ G (Hw p)), (cnt_set_nth_eq (at_pubgate p) _ _ _ _ G (Hg p)). exact HP.
  - intros k y Hk. apply set_nth_lookup in Hk as [[Hne Hk]|[-> [_ ->]]]; [|exact Hx'].
    eapply aok_cont; eauto.
Qed.

(* B: a new actor that has not won anything *)
Lemma inv_add_actor s np :
  Inv s -> aok (proms s) (cb s) (cprom s) (new_actor np) ->
  (forall p, won p (new_actor np) = false) -> (forall p, at_pubgate p (new_actor np) = false) ->
  Inv (add_actor s np).
Proof.
  intros (Hwf & Hcp & HP & HA) Hx Hw Hg. unfold add_actor, with_acts.
  split; [exact Hwf | split; [exact Hcp | split]]; cbn [proms cb cprom acts].
  - intros p q Hq. specialize (HP p q Hq). unfold pok in *. rewrite !cnt_snoc, Hw, Hg. cbn [b2n]. rewrite !Nat.add_0_r. exact HP.
  - intros k y Hk. apply nth_error_app_inv in Hk as [Hk| ->]; [eauto | exact Hx].
Qed.

Lemma pok_prom0 l p : cnt (won p) l = 0 -> cnt (at_pubgate p) l = 0 -> pok l p prom0.
Proof. intros H1 H2. unfold pok, prom0; cbn. rewrite H1, H2. repeat split; auto; discriminate. Qed.
Lemma pok_prom_with l p v e : cnt (won p) l = 0 -> cnt (at_pubgate p) l = 0 -> pok l p (prom_with v e).
Proof. intros H1 H2. unfold pok, prom_with; cbn. rewrite H1, H2. repeat split; auto; discriminate. Qed.

Lemma nth_error_snoc_inv {A} (l : list A) y p q :
  nth_error (l ++ [y]) p = Some q -> nth_error l p = Some q \/ (p = length l /\ q = y).
Proof.
  intros H. destruct (Nat.lt_ge_cases p (length l)) as [Hl|Hl].
  - left. now rewrite nth_error_app1 in H.
  - right. rewrite nth_error_app2 in H by lia. destruct (p - length l) as [|k] eqn:E; cbn in H.
    + inversion H. split; [lia | reflexivity].
    + destruct k; discriminate.
Qed.

(* C: a new promise *)
Lemma inv_add_prom s q0 :
  Inv s -> (forall l p, cnt (won p) l = 0 -> cnt (at_pubgate p) l = 0 -> pok l p q0) ->
  Inv {| proms := proms s ++ [q0]; cb := cb s; cprom := cprom s; acts := acts s |}.
Proof.
  intros HI Hq0. pose proof HI as (Hwf & Hcp & HP & HA).
  split; [exact Hwf | split; [|split]]; cbn [proms cb cprom acts].
  - intros p Hp. rewrite app_length. specialize (Hcp p Hp). lia.
  - intros p q Hq. apply nth_error_snoc_inv in Hq as [Hq|[-> ->]]; [eauto|].
    destruct (inv_fresh_counts s (length (proms s)) HI (le_n _)) as [H1 H2]. now apply Hq0.
  - intros k y Hk. apply aok_snoc_prom. eauto.
Qed.

(* aok under an update of promise p that keeps what actors rely on *)
Lemma aok_prom_upd ps b cp y p q q' :
  aok ps b cp y -> nth_error ps p = Some q ->
  (forall r, wres q = Some r -> wres q' = Some r) -> pre q' = pre q ->
  (dclosed q = true -> dclosed q' = true /\ fval q' = fval q /\ ferr q' = ferr q) ->
  aok (set_nth ps p q') b cp y.
Proof.
  unfold aok. intros H G Hw Hpre Hd. rewrite length_set_nth.
  destruct (pc y) as [p' v e|p' v e t|p' r t|k p'|v e [p'|]|k|k ch|k p' ch|[p'|] r|r| |po ch]; try exact H.
  - destruct H as [q0 [H1 [H2 [H3 H4]]]]. destruct (Nat.eq_dec p' p) as [->|Hne].
    + rewrite G in H1. inversion H1; subst q0. exists q'.
      split; [apply nth_error_set_nth_same; eapply nth_error_nth_len; eauto|]. split; [auto | split; [auto | congruence]].
    + exists q0. split; [now rewrite nth_error_set_nth_other | auto].
  - destruct H as [q0 [H1 [H2 [H3 H4]]]]. destruct (Nat.eq_dec p' p) as [->|Hne].
    + rewrite G in H1. inversion H1; subst q0. destruct (Hd H2) as [D1 [D2 D3]]. exists q'.
      split; [apply nth_error_set_nth_same; eapply nth_error_nth_len; eauto|]. split; [auto | split; congruence].
    + exists q0. split; [now rewrite nth_error_set_nth_other | auto].
Qed.

(* D: promise p and actor a change together *)
Lemma inv_prom_actor s a x x' p q q' :
  Inv s -> nth_error (acts s) a = Some x -> nth_error (proms s) p = Some q ->
  (forall p', p' <> p -> won p' x' = won p' x /\ at_pubgate p' x' = at_pubgate p' x) ->
  pok (set_nth (acts s) a x') p q' ->
  (forall k y, k <> a -> nth_error (acts s) k = Some y -> aok (set_nth (proms s) p q') (cb s) (cprom s) y) ->
  aok (set_nth (proms s) p q') (cb s) (cprom s) x' ->
  Inv {| proms := set_nth (proms s) p q'; cb := cb s; cprom := cprom s; acts := set_nth (acts s) a x' |}.
Proof.
  intros (Hwf & Hcp & HP & HA) G Gp Hoth Hq' Hys Hx'.
  split; [exact Hwf | split; [|split]]; cbn [proms cb cprom acts].
  - intros p0 H0. rewrite length_set_nth. auto.
  - intros p0 q0 H0. apply set_nth_lookup in H0 as [[Hne H0]|[-> [_ ->]]]; [|exact Hq'].
    specialize (HP p0 q0 H0). destruct (Hoth p0 Hne) as [Hw Hg]. unfold pok in *.
    rewrite (cnt_set_nth_eq (won p0) _ _ _ _ G Hw), (cnt_set_nth_eq (at_pubgate p0) _ _ _ _ G Hg). exact HP.
  - intros k y Hk. apply set_nth_lookup in Hk as [[Hne Hk]|[-> [_ ->]]]; [eauto | exact Hx'].
Qed.

Lemma pick_ready f c n : pick f c = S n -> f (S n) = true.
Proof.
  unfold pick, first_ready. destruct (f c) eqn:E; [intros <-; exact E|].
  destruct (f 1) eqn:E1; [intros H; inversion H; subst; exact E1|].
  destruct (f 2) eqn:E2; [intros H; inversion H; subst; exact E2|].
  destruct (f 3) eqn:E3; [intros H; inversion H; subst; exact E3|].
  destruct (f 4) eqn:E4; [intros H; inversion H; subst; exact E4|]. discriminate.
Qed.

Lemma pclosed_true s p : pclosed s p = true -> exists q, nth_error (proms s) p = Some q /\ dclosed q = true.
Proof. unfold pclosed. destruct (nth_error (proms s) p) as [q|]; [intros H; now exists q | discriminate]. Qed.

Lemma getch_facts b : bc_wf b ->
  let b' := fst (getch b) in let ch := snd (getch b) in
  bc_wf b' /\ nxt b <= nxt b' /\ ch < nxt b' /\ closed b' ch = false /\
  (forall c, c < nxt b -> closed b' c = closed b c).
Proof.
  intros Hwf. pose proof (getch_open b Hwf) as Ho. pose proof (getch_wf b Hwf) as Hw.
  pose proof (getch_nxt_mono b) as Hm. pose proof (getch_closed_same b) as Hs.
  destruct (getch b) as [b' ch]. cbn [fst snd] in *. destruct Ho as [H1 [H2 _]]. repeat split; auto.
Qed.

Ltac actor_simple HI G Epc :=
  unfold with_acts; erewrite seta_eq by exact G;
  apply (inv_actor _ _ _ _ _ _ HI G);
  [ intros ?; unfold won; cbn [pc]; rewrite Epc; reflexivity
  | intros ?; unfold at_pubgate; cbn [pc]; rewrite Epc; reflexivity
  | apply HI | lia | intros ch0 _ Hc0; auto | apply HI | ].

Lemma stepg_inv fixed s e : Inv s -> Inv (stepg fixed s e).
Proof.
  intros HI. pose proof HI as (Hwf & Hcp & HP & HA).
  destruct e as [|v e|p v e|k p|k|[p|]|v e| |a|a c|a c]; cbn [stepg].
  - apply inv_add_prom; [exact HI | intros; now apply pok_prom0].
  - apply inv_add_prom; [exact HI | intros; now apply pok_prom_with].
  - destruct (Nat.ltb_spec p (length (proms s))) as [Hp|Hp]; [|exact HI].
    apply inv_add_actor; auto.
  - destruct (Nat.ltb_spec p (length (proms s))) as [Hp|Hp]; [|exact HI].
    apply inv_add_actor; auto.
  - apply inv_add_actor; unfold aok; cbn; auto.
  - destruct (Nat.ltb_spec p (length (proms s))) as [Hp|Hp]; [|exact HI].
    apply inv_add_actor; auto.
  - apply inv_add_actor; unfold aok; cbn; auto.
  - (* container SetResult: fresh resolved promise, then a new actor *)
    pose proof (inv_add_prom s (prom_with v e) HI ltac:(intros; now apply pok_prom_with)) as HI2.
    apply (inv_add_actor _ (CSetGate (Some (length (proms s))) true)) in HI2; [exact HI2 | | auto | auto].
    unfold aok; cbn. rewrite app_length; cbn; lia.
  - apply inv_add_actor; unfold aok; cbn; auto.
  - (* cancel ctx *)
    destruct (nth_error (acts s) a) as [x|] eqn:G; [|exact HI].
    unfold with_acts. apply (inv_actor _ _ _ _ _ _ HI G); auto.
    specialize (HA a x G). exact HA.
  - (* fire channel *)
    destruct (nth_error (acts s) a) as [x|] eqn:G; [|exact HI].
    destruct (ach x); try exact HI. destruct c; try exact HI.
    all: unfold with_acts; apply (inv_actor _ _ _ _ _ _ HI G); auto; specialize (HA a x G); exact HA.
  - (* step *)
    destruct (nth_error (acts s) a) as [x|] eqn:G; [|exact HI].
    pose proof (HA a x G) as Hx. unfold aok in Hx.
    destruct (pc x) as [p v e|p v e t|p r t|k p|v e src|k|k ch|k p ch|po r|r| |po ch] eqn:Epc; try exact HI.
    + (* Swap *)
      destruct (nth_error (proms s) p) as [q|] eqn:Gp; [|exact HI].
      pose proof (HP p q Gp) as (P1 & P2 & P3 & P4 & P5 & P6 & P7).
      assert (Hwx : won p x = false) by (unfold won; now rewrite Epc).
      assert (Hgx : at_pubgate p x = false) by (unfold at_pubgate; now rewrite Epc).
      destruct (geta _ _ _ G) as [Hl Hn].
      destruct (isdone q) eqn:Ed.
      * erewrite seta_eq by exact G.
        apply (inv_prom_actor s a x _ p q _ HI G Gp).
        -- intros p' Hne. unfold won, at_pubgate. cbn [pc]. rewrite Epc. destruct (Nat.eqb_spec p' p); [lia | auto].
        -- unfold pok; cbn [isdone dclosed nswaps wres pre nwrites fval ferr].
           rewrite (cnt_set_nth_eq (won p) _ _ _ _ G), (cnt_set_nth_eq (at_pubgate p) _ _ _ _ G);
             [|unfold at_pubgate; cbn [pc]; now rewrite Epc | unfold won; cbn [pc]; now rewrite Epc].
           destruct (P2 eq_refl) as [P2a P2b].
           repeat split; auto; try discriminate; lia.
        -- intros k0 y Hne Hk. apply (aok_prom_upd _ _ _ _ _ q _ (HA k0 y Hk) Gp); cbn [wres pre dclosed fval ferr]; [intros r0 Hr; first [exact Hr | congruence] | reflexivity | intros Hc; first [congruence | auto]].
        -- unfold aok; cbn [pc]. rewrite length_set_nth. split; [exact Hx|]. destruct (P2 eq_refl) as [P2a P2b]. split; [discriminate | lia].
      * destruct (P1 eq_refl) as (D1 & D2 & D3 & D4).
        erewrite seta_eq by exact G.
        apply (inv_prom_actor s a x _ p q _ HI G Gp).
        -- intros p' Hne. unfold won, at_pubgate. cbn [pc]. rewrite Epc. destruct (Nat.eqb_spec p' p); [lia | auto].
        -- unfold pok; cbn [isdone dclosed nswaps wres pre nwrites fval ferr].
           pose proof (cnt_set_nth (won p) (acts s) a {| pc := PSetGate p v e (nswaps q); actx := actx x; ach := ach x |} dflt Hl) as C1.
           pose proof (cnt_set_nth (at_pubgate p) (acts s) a {| pc := PSetGate p v e (nswaps q); actx := actx x; ach := ach x |} dflt Hl) as C2.
           rewrite Hn in C1, C2. rewrite Hwx in C1. rewrite Hgx in C2.
           replace (won p {| pc := PSetGate p v e (nswaps q); actx := actx x; ach := ach x |}) with true in C1
             by (unfold won; cbn [pc]; now rewrite Nat.eqb_refl).
           replace (at_pubgate p {| pc := PSetGate p v e (nswaps q); actx := actx x; ach := ach x |}) with true in C2
             by (unfold at_pubgate; cbn [pc]; now rewrite Nat.eqb_refl).
           cbn [b2n] in *.
           rewrite D4 in *. rewrite D1 in *. cbn [b2n] in *.
           repeat split; auto; try discriminate; try lia.
        -- intros k0 y Hne Hk. apply (aok_prom_upd _ _ _ _ _ q _ (HA k0 y Hk) Gp); cbn [wres pre dclosed fval ferr]; [intros r0 Hr; first [exact Hr | congruence] | reflexivity | intros Hc; first [congruence | auto]].
        -- unfold aok; cbn [pc]. eexists. split; [apply nth_error_set_nth_same; eapply nth_error_nth_len; eauto|]. cbn [wres pre]. auto.
    + (* publish *)
      destruct Hx as [q [Gp [Hw [-> Hpre]]]]. rewrite Gp.
      pose proof (HP p q Gp) as (P1 & P2 & P3 & P4 & P5 & P6 & P7).
      assert (Hwx : won p x = true) by (unfold won; rewrite Epc; apply Nat.eqb_refl).
      assert (Hgx : at_pubgate p x = true) by (unfold at_pubgate; rewrite Epc; apply Nat.eqb_refl).
      pose proof (nth_error_cnt_pos (at_pubgate p) _ _ _ G Hgx) as Hpos.
      destruct (geta _ _ _ G) as [Hl Hn].
      assert (Hdc : dclosed q = false) by (destruct (dclosed q), (isdone q); cbn [b2n] in P4; auto; lia).
      assert (Hdn : isdone q = true) by (destruct (isdone q); cbn [b2n] in P4; auto; lia).
      erewrite seta_eq by exact G.
      apply (inv_prom_actor s a x _ p q _ HI G Gp).
      * intros p' Hne. unfold won, at_pubgate. cbn [pc]. rewrite Epc. destruct (Nat.eqb_spec p' p); [lia | auto].
      * unfold pok; cbn [isdone dclosed nswaps wres pre nwrites fval ferr].
        pose proof (cnt_set_nth (won p) (acts s) a {| pc := PSetRet p true 0; actx := actx x; ach := ach x |} dflt Hl) as C1.
        pose proof (cnt_set_nth (at_pubgate p) (acts s) a {| pc := PSetRet p true 0; actx := actx x; ach := ach x |} dflt Hl) as C2.
        rewrite Hn in C1, C2. rewrite Hwx in C1. rewrite Hgx in C2.
        replace (won p {| pc := PSetRet p true 0; actx := actx x; ach := ach x |}) with true in C1
          by (unfold won; cbn [pc]; now rewrite Nat.eqb_refl).
        replace (at_pubgate p {| pc := PSetRet p true 0; actx := actx x; ach := ach x |}) with false in C2
          by (unfold at_pubgate; cbn [pc]; reflexivity).
        cbn [b2n] in *.
        pose proof (P2 Hdn) as [P2a P2b].
        rewrite Hdc, Hdn, Hpre in *. cbn [b2n] in *.
        repeat split; auto; try discriminate; try lia.
      * intros k0 y Hne Hk. apply (aok_prom_upd _ _ _ _ _ q _ (HA k0 y Hk) Gp); cbn [wres pre dclosed fval ferr]; [intros r0 Hr; first [exact Hr | congruence] | reflexivity | intros Hc; first [congruence | auto]].
      * unfold aok; cbn [pc]. rewrite length_set_nth. split; [eapply nth_error_nth_len; eauto | tauto].
    + (* Promise.Await* *)
      destruct (pick (rdy_direct s x k p) c) as [|[|[|[|[|n]]]]] eqn:Ep; try exact HI.
      * actor_simple HI G Epc. exact I.
      * actor_simple HI G Epc. exact I.
      * apply pick_ready in Ep. cbn [rdy_direct] in Ep. apply pclosed_true in Ep as [q [Gp Hd]]. rewrite Gp.
        actor_simple HI G Epc. unfold aok; cbn [pc]. exists q. auto.
    + (* container await: section *)
      pose proof (getch_facts (cb s) Hwf) as (F1 & F2 & F3 & F4 & F5). destruct (getch (cb s)) as [b' ch]. cbn [fst snd] in *.
      erewrite seta_eq by exact G.
      apply (inv_actor _ _ _ _ _ _ HI G).
      * intros p0. unfold won. cbn [pc]. rewrite Epc. now destruct (cprom s).
      * intros p0. unfold at_pubgate. cbn [pc]. rewrite Epc. now destruct (cprom s).
      * exact F1.
      * exact F2.
      * intros ch0 Hc0 Hcl. rewrite F5 in Hcl by exact Hc0. auto.
      * exact Hcp.
      * unfold aok; cbn [pc]. destruct (cprom s) as [p0|] eqn:Ec; cbn; auto.
    + (* container await, nil branch *)
      destruct (pick (rdy_nil s x k ch) c) as [|[|[|[|n]]]] eqn:Ep; try exact HI; actor_simple HI G Epc; exact I.
    + (* container await, promise branch *)
      destruct Hx as [Hp [Hch Hcur]].
      destruct (pick (rdy_prom s x p ch) c) as [|[|[|[|[|n]]]]] eqn:Ep; try exact HI.
      * actor_simple HI G Epc. exact I.
      * destruct (actx x); actor_simple HI G Epc; exact I.
      * apply pick_ready in Ep. cbn [rdy_prom] in Ep. apply pclosed_true in Ep as [q [Gp Hd]]. rewrite Gp.
        destruct (ferr q) eqn:Ef; [| destruct (actx x); [| destruct fixed; [destruct (closed (cb s) ch)|]] | |];
          actor_simple HI G Epc; unfold aok; cbn [pc]; try exact I; exists q; auto.
    + (* container SetPromise / SetResult *)
      destruct (r || negb (opt_eqb (cprom s) po)).
      * erewrite seta_eq by exact G.
        apply (inv_actor _ _ _ _ _ _ HI G).
        -- intros p0. unfold won. cbn [pc]. now rewrite Epc.
        -- intros p0. unfold at_pubgate. cbn [pc]. now rewrite Epc.
        -- apply bcast_wf.
        -- cbn. lia.
        -- intros ch0 Hc0 Hcl. rewrite bcast_closes in Hcl by exact Hc0. discriminate.
        -- intros p0 ->. exact Hx.
        -- exact I.
      * actor_simple HI G Epc. exact I.
    + (* GetPromise *)
      pose proof (getch_facts (cb s) Hwf) as (F1 & F2 & F3 & F4 & F5). destruct (getch (cb s)) as [b' ch]. cbn [fst snd] in *.
      erewrite seta_eq by exact G.
      apply (inv_actor _ _ _ _ _ _ HI G).
      * intros p0. unfold won. cbn [pc]. now rewrite Epc.
      * intros p0. unfold at_pubgate. cbn [pc]. now rewrite Epc.
      * exact F1.
      * exact F2.
      * intros ch0 Hc0 Hcl. rewrite F5 in Hcl by exact Hc0. auto.
      * exact Hcp.
      * exact I.
Qed.

Lemma init_inv : Inv init.
Proof.
  split; [exact I | split; [discriminate | split]]; intros a x H; destruct a; discriminate.
Qed.

Theorem rung_inv fixed es : Inv (fold_left (stepg fixed) es init).
Proof. apply fold_inv; [intros s e; apply stepg_inv | apply init_inv]. Qed.

Theorem run_inv es : Inv (run es).
Proof. apply rung_inv. Qed.
Theorem run_pinned_inv es : Inv (run_pinned es).
Proof. apply rung_inv. Qed.

(* ------------------------------------------------------------------ *)
(* C11 clause 1: exactly the first SetResult returns true *)

Theorem exactly_first_g s p q : Inv s -> nth_error (proms s) p = Some q ->
  cnt (won p) (acts s) = (if pre q then 0 else b2n (isdone q)) /\
  (forall a x r t, nth_error (acts s) a = Some x -> pc x = PSetRet p r t -> (r = true <-> t = 0)) /\
  (forall a x v e t, nth_error (acts s) a = Some x -> pc x = PSetGate p v e t -> t = 0).
Proof.
  intros (_ & _ & HP & HA) Gp. destruct (HP p q Gp) as (_ & _ & P3 & _). split; [exact P3 | split].
  - intros a x r t G Ep. specialize (HA a x G). unfold aok in HA. rewrite Ep in HA. tauto.
  - intros a x v e t G Ep. specialize (HA a x G). unfold aok in HA. rewrite Ep in HA. destruct HA as [q0 [_ [_ [H _]]]]. exact H.
Qed.

(* the Swap decides: it wins iff no Swap (and no constructor Store) came before *)
Theorem swap_decides fixed s a x p v e q c :
  nth_error (acts s) a = Some x -> pc x = PSet p v e -> nth_error (proms s) p = Some q ->
  let s' := stepg fixed s (Step a c) in
  (exists y, nth_error (acts s') a = Some y /\
             pc y = if isdone q then PSetRet p false (nswaps q) else PSetGate p v e (nswaps q)) /\
  (exists q', nth_error (proms s') p = Some q' /\ isdone q' = true /\ nswaps q' = S (nswaps q) /\
              wres q' = if isdone q then wres q else Some (v, e)).
Proof.
  intros G Ep Gp. cbn [stepg]. rewrite G, Ep, Gp. destruct (geta _ _ _ G) as [Hl _].
  pose proof (nth_error_nth_len _ _ _ Gp) as Hlp.
  destruct (isdone q); cbn [acts proms]; erewrite seta_eq by exact G; (split; [eexists; split; [apply nth_error_set_nth_same; exact Hl | reflexivity] |
    eexists; split; [apply nth_error_set_nth_same; exact Hlp | cbn; auto]]).
Qed.

(* ------------------------------------------------------------------ *)
(* C11 clause 2: fields are published before done is closed and never written again *)

Theorem fields_published_g s p q : Inv s -> nth_error (proms s) p = Some q -> dclosed q = true ->
  wres q = Some (fval q, ferr q) /\ nwrites q = 1 /\ isdone q = true /\ cnt (at_pubgate p) (acts s) = 0.
Proof.
  intros (_ & _ & HP & _) Gp Hd. destruct (HP p q Gp) as (P1 & _ & _ & P4 & P5 & P6 & _).
  rewrite Hd in *. cbn [b2n] in *. destruct (isdone q) eqn:Ei; cbn [b2n] in *; [|lia].
  repeat split; auto. lia.
Qed.

(* a closed promise is never touched again by any event *)
Theorem closed_stable fixed s e p q : Inv s -> nth_error (proms s) p = Some q -> dclosed q = true ->
  exists q', nth_error (proms (stepg fixed s e)) p = Some q' /\
             dclosed q' = true /\ fval q' = fval q /\ ferr q' = ferr q /\ nwrites q' = nwrites q /\ wres q' = wres q.
Proof.
  intros HI Gp Hd. pose proof HI as (_ & _ & HP & HA).
  assert (Same : exists q', nth_error (proms s) p = Some q' /\
             dclosed q' = true /\ fval q' = fval q /\ ferr q' = ferr q /\ nwrites q' = nwrites q /\ wres q' = wres q)
    by (exists q; repeat split; auto).
  assert (Snoc : forall q0, exists q', nth_error (proms s ++ [q0]) p = Some q' /\
             dclosed q' = true /\ fval q' = fval q /\ ferr q' = ferr q /\ nwrites q' = nwrites q /\ wres q' = wres q)
    by (intros q0; exists q; split; [now apply nth_error_snoc_lt | repeat split; auto]).
  destruct e as [|v e|p0 v e|k p0|k|[p0|]|v e| |a|a c|a c]; cbn [stepg]; try exact Same; try apply Snoc.
  - destruct (Nat.ltb p0 (length (proms s))); exact Same.
  - destruct (Nat.ltb p0 (length (proms s))); exact Same.
  - destruct (Nat.ltb p0 (length (proms s))); exact Same.
  - destruct (nth_error (acts s) a); exact Same.
  - destruct (nth_error (acts s) a) as [x|]; [|exact Same]. destruct (ach x); try exact Same. destruct c; exact Same.
  - destruct (nth_error (acts s) a) as [x|] eqn:G; [|exact Same].
    pose proof (HA a x G) as Hx. unfold aok in Hx.
    destruct (pc x) as [p0 v e|p0 v e t|p0 r t|k p0|v e src|k|k ch|k p0 ch|po r|r| |po ch] eqn:Epc; try exact Same.
    + destruct (nth_error (proms s) p0) as [q0|] eqn:G0; [|exact Same].
      destruct (Nat.eq_dec p0 p) as [->|Hne].
      * rewrite Gp in G0. inversion G0; subst q0. pose proof (nth_error_nth_len _ _ _ Gp) as Hl.
        destruct (fields_published_g s p q HI Gp Hd) as (_ & _ & Hid & _). rewrite Hid.
        cbn [proms]; eexists; (split; [apply nth_error_set_nth_same; exact Hl | cbn; repeat split; auto]).
      * destruct (isdone q0); cbn [proms]; exists q; (split; [rewrite nth_error_set_nth_other by auto; exact Gp | repeat split; auto]).
    + destruct Hx as [q0 [G0 _]]. rewrite G0. destruct (Nat.eq_dec p0 p) as [->|Hne].
      * exfalso. destruct (fields_published_g s p q HI Gp Hd) as (_ & _ & _ & Hz).
        assert (Hg : at_pubgate p x = true) by (unfold at_pubgate; rewrite Epc; apply Nat.eqb_refl).
        pose proof (nth_error_cnt_pos (at_pubgate p) _ _ _ G Hg). lia.
      * cbn [proms]. exists q. split; [rewrite nth_error_set_nth_other by auto; exact Gp | repeat split; auto].
    + destruct (pick (rdy_direct s x k p0) c) as [|[|[|[|[|n]]]]]; try exact Same. destruct (nth_error (proms s) p0); exact Same.
    + destruct (getch (cb s)); exact Same.
    + destruct (pick (rdy_nil s x k ch) c) as [|[|[|[|n]]]]; exact Same.
    + destruct (pick (rdy_prom s x p0 ch) c) as [|[|[|[|[|n]]]]]; try exact Same. destruct (nth_error (proms s) p0); exact Same.
    + destruct (r || negb (opt_eqb (cprom s) po)); exact Same.
    + destruct (getch (cb s)); exact Same.
Qed.

(* ------------------------------------------------------------------ *)
(* C11 clause 3: an await that returns by result returns the winner's arguments *)

Theorem await_returns_winner_g s a x v e p : Inv s ->
  nth_error (acts s) a = Some x -> pc x = ARet v e (Some p) ->
  exists q, nth_error (proms s) p = Some q /\ dclosed q = true /\ wres q = Some (v, e).
Proof.
  intros HI G Ep. pose proof HI as (_ & _ & HP & HA). specialize (HA a x G). unfold aok in HA. rewrite Ep in HA.
  destruct HA as [q [Gp [Hd [<- <-]]]]. exists q. split; [exact Gp | split; [exact Hd|]].
  now destruct (fields_published_g s p q HI Gp Hd).
Qed.

(* ------------------------------------------------------------------ *)
(* C11 clause 4: quiescence *)

Lemma quiescent_actor s a x : quiescent s = true -> nth_error (acts s) a = Some x ->
  at_gate x = false /\ any_ready s x = false.
Proof.
  unfold quiescent. rewrite forallb_forall. intros H G. specialize (H x (nth_error_In _ _ G)).
  apply andb_true_iff in H as [H1 H2]. split; [now destruct (at_gate x) | now destruct (any_ready s x)].
Qed.

Lemma quiescent_no_pubgate s p : quiescent s = true -> cnt (at_pubgate p) (acts s) = 0.
Proof.
  intros Hq. apply cnt_zero_forall. intros x Hin. apply In_nth_error in Hin as [a G].
  destruct (quiescent_actor s a x Hq G) as [Hg _]. unfold at_gate in Hg. unfold at_pubgate.
  destruct (pc x); try reflexivity; discriminate.
Qed.

Lemma first_ready_zero f : first_ready f = 0 -> f 1 = false /\ f 2 = false /\ f 3 = false /\ f 4 = false.
Proof.
  unfold first_ready. destruct (f 1); [discriminate|]. destruct (f 2); [discriminate|].
  destruct (f 3); [discriminate|]. destruct (f 4); [discriminate|]. auto.
Qed.

(* at quiescence a result is published as soon as it is elected *)
Lemma quiescent_done_closed s p q : Inv s -> quiescent s = true -> nth_error (proms s) p = Some q ->
  dclosed q = isdone q.
Proof.
  intros (_ & _ & HP & _) Hq Gp. destruct (HP p q Gp) as (_ & _ & _ & P4 & _).
  rewrite (quiescent_no_pubgate s p Hq) in P4. destruct (dclosed q), (isdone q); cbn [b2n] in P4; auto; lia.
Qed.

(* no Promise awaiter is blocked while a result is available (some SetResult won / constructed resolved),
   its context is cancelled or its channel fired *)
Theorem await_quiescent_g s a x k p : Inv s -> quiescent s = true ->
  nth_error (acts s) a = Some x -> pc x = PAw k p ->
  actx x = false /\ ch_ready k (ach x) = false /\ exists q, nth_error (proms s) p = Some q /\ isdone q = false.
Proof.
  intros HI Hq G Ep. destruct (quiescent_actor s a x Hq G) as [_ Hr]. unfold any_ready in Hr. rewrite Ep in Hr.
  destruct (Nat.eqb_spec (first_ready (rdy_direct s x k p)) 0) as [Hz|]; [|discriminate].
  apply first_ready_zero in Hz as (H1 & H2 & _ & H4). cbn [rdy_direct] in *.
  split; [exact H1 | split; [exact H2|]].
  pose proof HI as (_ & _ & _ & HA). specialize (HA a x G). unfold aok in HA. rewrite Ep in HA.
  destruct (nth_error (proms s) p) as [q|] eqn:Gp; [|apply nth_error_None in Gp; lia].
  exists q. split; [reflexivity|]. unfold pclosed in H4. rewrite Gp in H4.
  now rewrite <- (quiescent_done_closed s p q HI Hq Gp).
Qed.

(* a container awaiter blocked at quiescence waits on the CURRENT promise (it has followed every
   replacement), that promise has no result, and its context is live.  In the nil branch its channel
   has not fired either.  EXCEPTION (D20, recorded): in the promise branch nothing is said about the
   awaiter's own err / cancel channel: the code does not look at it there (container_errch_refuted). *)
Theorem cawait_quiescent_g s a x : Inv s -> quiescent s = true -> nth_error (acts s) a = Some x ->
  (forall k ch, pc x = CNil k ch -> actx x = false /\ ch_ready k (ach x) = false /\ cprom s = None) /\
  (forall k p ch, pc x = CProm k p ch ->
     actx x = false /\ cprom s = Some p /\ exists q, nth_error (proms s) p = Some q /\ isdone q = false).
Proof.
  intros HI Hq G. destruct (quiescent_actor s a x Hq G) as [_ Hr]. unfold any_ready in Hr.
  pose proof HI as (_ & _ & _ & HA). specialize (HA a x G). unfold aok in HA.
  split.
  - intros k ch Ep. rewrite Ep in *.
    destruct (Nat.eqb_spec (first_ready (rdy_nil s x k ch)) 0) as [Hz|]; [|discriminate].
    apply first_ready_zero in Hz as (H1 & H2 & H3 & _). cbn [rdy_nil] in *. destruct HA as [_ HA]. auto.
  - intros k p ch Ep. rewrite Ep in *.
    destruct (Nat.eqb_spec (first_ready (rdy_prom s x p ch)) 0) as [Hz|]; [|discriminate].
    apply first_ready_zero in Hz as (H1 & _ & H3 & H4). cbn [rdy_prom] in *. destruct HA as [Hp [_ HA]].
    split; [exact H1 | split; [auto|]].
    destruct (nth_error (proms s) p) as [q|] eqn:Gp; [|apply nth_error_None in Gp; lia].
    exists q. split; [reflexivity|]. unfold pclosed in H4. rewrite Gp in H4.
    now rewrite <- (quiescent_done_closed s p q HI Hq Gp).
Qed.

(* ------------------------------------------------------------------ *)
(* C11 clause 5/6: what a container awaiter does from its select *)

Lemma lookup_seta s a x np : nth_error (acts s) a = Some x ->
  nth_error (seta s a np) a = Some {| pc := np; actx := actx x; ach := ach x |}.
Proof. intros G. erewrite seta_eq by exact G. apply nth_error_set_nth_same. eapply nth_error_nth_len; eauto. Qed.

(* every outcome of a step of an awaiter inside p.AwaitWithCancelCh(ctx, waitCh) *)
Theorem cprom_step_cases s a x k p ch c : Inv s ->
  nth_error (acts s) a = Some x -> pc x = CProm k p ch ->
  let s' := step s (Step a c) in
  s' = s \/
  exists y, nth_error (acts s') a = Some y /\ actx y = actx x /\ ach y = ach x /\
    proms s' = proms s /\ cb s' = cb s /\ cprom s' = cprom s /\
    ((pc y = CGate k /\ closed (cb s) ch = true /\ actx x = false) \/
     (pc y = ARet 0%N ECanceled None /\ actx x = true) \/
     (exists q, nth_error (proms s) p = Some q /\ dclosed q = true /\ wres q = Some (fval q, ferr q) /\
                pc y = ARet (fval q) (ferr q) (Some p) /\
                (ferr q = ECanceled -> actx x = true \/ closed (cb s) ch = false))).
Proof.
  intros HI G Ep. cbn. unfold step. cbn [stepg]. rewrite G, Ep.
  destruct (pick (rdy_prom s x p ch) c) as [|[|[|[|[|n]]]]] eqn:Epk; try (left; reflexivity).
  - apply pick_ready in Epk. cbn [rdy_prom] in Epk. right. eexists. unfold with_acts; cbn [acts proms cb cprom].
    split; [apply lookup_seta; exact G|]. cbn [pc actx ach]. repeat split; auto.
  - apply pick_ready in Epk. cbn [rdy_prom] in Epk. right. eexists. unfold with_acts; cbn [acts proms cb cprom].
    split; [apply lookup_seta; exact G|]. cbn [pc actx ach]. repeat split; auto.
    destruct (actx x); [right; left; auto | left; auto].
  - apply pick_ready in Epk. cbn [rdy_prom] in Epk. apply pclosed_true in Epk as [q [Gp Hd]]. rewrite Gp.
    destruct (fields_published_g s p q HI Gp Hd) as (Hw & _).
    right. eexists. unfold with_acts; cbn [acts proms cb cprom].
    split; [apply lookup_seta; exact G|]. cbn [pc actx ach]. repeat split; auto.
    destruct (ferr q) eqn:Ef.
    + right; right. exists q. rewrite Ef. repeat split; auto. discriminate.
    + destruct (actx x) eqn:Ec.
      * right; right. exists q. rewrite Ef. repeat split; auto.
      * destruct (closed (cb s) ch) eqn:Ecl.
        -- left. auto.
        -- right; right. exists q. rewrite Ef. repeat split; auto.
    + right; right. exists q. rewrite Ef. repeat split; auto. discriminate.
    + right; right. exists q. rewrite Ef. repeat split; auto. discriminate.
Qed.

Lemma pick_only4 f c : f 1 = false -> f 2 = false -> f 3 = false -> f 4 = true ->
  (forall n, 4 < n -> f n = false) -> f 0 = false -> pick f c = 4.
Proof.
  intros H1 H2 H3 H4 Hbig H0. unfold pick, first_ready.
  destruct (f c) eqn:E; [|now rewrite H1, H2, H3, H4].
  destruct c as [|[|[|[|[|n]]]]]; try congruence. rewrite Hbig in E by lia. discriminate.
Qed.

(* the awaiter returns the result of the promise that is current, WHATEVER its error (also context.Canceled) *)
Theorem container_returns_current_g s a x k p ch q c : Inv s ->
  nth_error (acts s) a = Some x -> pc x = CProm k p ch ->
  nth_error (proms s) p = Some q -> dclosed q = true -> actx x = false -> closed (cb s) ch = false ->
  cprom s = Some p /\ wres q = Some (fval q, ferr q) /\
  exists y, nth_error (acts (step s (Step a c))) a = Some y /\ pc y = ARet (fval q) (ferr q) (Some p).
Proof.
  intros HI G Ep Gp Hd Hc Hcl. pose proof HI as (_ & _ & _ & HA). specialize (HA a x G). unfold aok in HA. rewrite Ep in HA.
  destruct HA as (_ & _ & Hcur). split; [auto|]. destruct (fields_published_g s p q HI Gp Hd) as (Hw & _). split; [exact Hw|].
  unfold step. cbn [stepg]. rewrite G, Ep.
  rewrite (pick_only4 (rdy_prom s x p ch) c); cbn [rdy_prom]; auto.
  - rewrite Gp. unfold with_acts; cbn [acts]. eexists. split; [apply lookup_seta; exact G|]. cbn [pc].
    rewrite Hc, Hcl. now destruct (ferr q).
  - unfold pclosed. now rewrite Gp.
  - intros n Hn. destruct n as [|[|[|[|[|n]]]]]; try lia; reflexivity.
Qed.

(* ------------------------------------------------------------------ *)
(* C11 clause 7: no spinning -- an awaiter run alone blocks or returns within 3 segments *)

Definition stable (s : st) (a : nat) : Prop :=
  exists y, nth_error (acts s) a = Some y /\ (returned y = true \/ (at_select y = true /\ any_ready s y = false)).

Lemma pick_zero f c : first_ready f = 0 -> (forall n, n = 0 \/ 4 < n -> f n = false) -> pick f c = 0.
Proof.
  intros Hz Hout. unfold pick. destruct (f c) eqn:E; [|exact Hz].
  apply first_ready_zero in Hz as (H1 & H2 & H3 & H4).
  destruct c as [|[|[|[|[|n]]]]]; try congruence; rewrite Hout in E by lia; discriminate.
Qed.

Lemma rdy_direct_out s x k p n : n = 0 \/ 4 < n -> rdy_direct s x k p n = false.
Proof. intros [->|H]; [reflexivity|]. destruct n as [|[|[|[|[|n]]]]]; try lia; reflexivity. Qed.
Lemma rdy_nil_out s x k ch n : n = 0 \/ 4 < n -> rdy_nil s x k ch n = false.
Proof. intros [->|H]; [reflexivity|]. destruct n as [|[|[|[|[|n]]]]]; try lia; reflexivity. Qed.
Lemma rdy_prom_out s x p ch n : n = 0 \/ 4 < n -> rdy_prom s x p ch n = false.
Proof. intros [->|H]; [reflexivity|]. destruct n as [|[|[|[|[|n]]]]]; try lia; reflexivity. Qed.

(* a blocked or returned actor does nothing when scheduled: no CPU is consumed *)
Lemma stable_absorb fixed s a c : stable s a -> stepg fixed s (Step a c) = s.
Proof.
  intros [y [G [Hr|[Hs Hn]]]]; cbn [stepg]; rewrite G.
  - unfold returned in Hr. destruct (pc y); try discriminate; reflexivity.
  - unfold at_select in Hs. unfold any_ready in Hn. destruct (pc y) as [| | |k p| | |k ch|k p ch| | | |]; try discriminate.
    + destruct (Nat.eqb_spec (first_ready (rdy_direct s y k p)) 0) as [Hz|]; [|discriminate].
      now rewrite (pick_zero _ c Hz (rdy_direct_out s y k p)).
    + destruct (Nat.eqb_spec (first_ready (rdy_nil s y k ch)) 0) as [Hz|]; [|discriminate].
      now rewrite (pick_zero _ c Hz (rdy_nil_out s y k ch)).
    + destruct (Nat.eqb_spec (first_ready (rdy_prom s y p ch)) 0) as [Hz|]; [|discriminate].
      now rewrite (pick_zero _ c Hz (rdy_prom_out s y p ch)).
Qed.

Lemma pick_cases f c : (forall n, n = 0 \/ 4 < n -> f n = false) ->
  (pick f c = 0 /\ first_ready f = 0) \/ (exists n, pick f c = S n /\ n < 4 /\ f (S n) = true).
Proof.
  intros Hout. destruct (pick f c) as [|n] eqn:E.
  - left. split; [reflexivity|]. unfold pick in E. destruct (f c) eqn:Ec; [|exact E]. subst c. rewrite Hout in Ec by auto. discriminate.
  - right. exists n. pose proof (pick_ready f c n E) as Hr. split; [reflexivity | split; [|exact Hr]].
    destruct (Nat.lt_ge_cases n 4) as [Hl|Hl]; [exact Hl|]. rewrite Hout in Hr by lia. discriminate.
Qed.

(* one step of the current code from a select: blocked, returned, or (container) back to the gate because
   the wait channel is closed *)
Lemma sel_progress s a x c : nth_error (acts s) a = Some x -> at_select x = true ->
  let s' := step s (Step a c) in
  (s' = s /\ any_ready s x = false) \/
  (exists y, nth_error (acts s') a = Some y /\ cb s' = cb s /\
     (returned y = true \/
      exists k ch, pc y = CGate k /\ closed (cb s) ch = true /\ (pc x = CNil k ch \/ exists p, pc x = CProm k p ch))).
Proof.
  intros G Hs. cbn. unfold step. cbn [stepg]. rewrite G. unfold at_select in Hs. unfold any_ready.
  destruct (pc x) as [| | |k p| | |k ch|k p ch| | | |] eqn:Ep; try discriminate.
  - destruct (pick_cases (rdy_direct s x k p) c (rdy_direct_out s x k p)) as [[E Hz]|[n [E [Hn Hr]]]]; rewrite E.
    + left. rewrite Hz. auto.
    + destruct n as [|[|[|[|n]]]]; try lia; try (cbn [rdy_direct] in Hr; discriminate).
      * right. eexists. unfold with_acts; cbn [acts cb]. split; [apply lookup_seta; exact G | auto].
      * right. eexists. unfold with_acts; cbn [acts cb]. split; [apply lookup_seta; exact G | auto].
      * cbn [rdy_direct] in Hr. apply pclosed_true in Hr as [q [Gp _]]. rewrite Gp.
        right. eexists. unfold with_acts; cbn [acts cb]. split; [apply lookup_seta; exact G | auto].
  - destruct (pick_cases (rdy_nil s x k ch) c (rdy_nil_out s x k ch)) as [[E Hz]|[n [E [Hn Hr]]]]; rewrite E.
    + left. rewrite Hz. auto.
    + destruct n as [|[|[|[|n]]]]; try lia; try (cbn [rdy_nil] in Hr; discriminate).
      * right. eexists. unfold with_acts; cbn [acts cb]. split; [apply lookup_seta; exact G | auto].
      * right. eexists. unfold with_acts; cbn [acts cb]. split; [apply lookup_seta; exact G | auto].
      * cbn [rdy_nil] in Hr. right. eexists. unfold with_acts; cbn [acts cb]. split; [apply lookup_seta; exact G|].
        split; [reflexivity|]. right. exists k, ch. cbn [pc]. auto.
  - destruct (pick_cases (rdy_prom s x p ch) c (rdy_prom_out s x p ch)) as [[E Hz]|[n [E [Hn Hr]]]]; rewrite E.
    + left. rewrite Hz. auto.
    + destruct n as [|[|[|[|n]]]]; try lia; try (cbn [rdy_prom] in Hr; discriminate).
      * right. eexists. unfold with_acts; cbn [acts cb]. split; [apply lookup_seta; exact G | auto].
      * cbn [rdy_prom] in Hr. right. eexists. unfold with_acts; cbn [acts cb]. split; [apply lookup_seta; exact G|].
        split; [reflexivity|]. destruct (actx x); cbn [pc]; [left; reflexivity|].
        right. exists k, ch. cbn [pc]. eauto.
      * cbn [rdy_prom] in Hr. apply pclosed_true in Hr as [q [Gp _]]. rewrite Gp.
        right. eexists. unfold with_acts; cbn [acts cb]. split; [apply lookup_seta; exact G|].
        split; [reflexivity|]. cbn [pc].
        destruct (ferr q); try (left; reflexivity). destruct (actx x); [left; reflexivity|].
        destruct (closed (cb s) ch) eqn:Ecl; [|left; reflexivity].
        right. exists k, ch. eauto.
Qed.

(* the section of a container awaiter hands it a fresh (open) wait channel *)
Lemma gate_step fixed s a x k c : Inv s -> nth_error (acts s) a = Some x -> pc x = CGate k ->
  let s' := stepg fixed s (Step a c) in
  exists y ch, nth_error (acts s') a = Some y /\ closed (cb s') ch = false /\
               (pc y = CNil k ch \/ exists p, pc y = CProm k p ch).
Proof.
  intros (Hwf & _) G Ep. cbn [stepg]. rewrite G, Ep.
  pose proof (getch_facts (cb s) Hwf) as (F1 & F2 & F3 & F4 & F5). destruct (getch (cb s)) as [b' ch]. cbn [fst snd] in *.
  cbn [acts cb]. eexists; exists ch. split; [apply lookup_seta; exact G|]. split; [exact F4|]. cbn [pc].
  destruct (cprom s) as [p|]; [right; eauto | left; reflexivity].
Qed.

Lemma fresh_sel_stable s a y k ch c : nth_error (acts s) a = Some y ->
  (pc y = CNil k ch \/ exists p, pc y = CProm k p ch) -> closed (cb s) ch = false ->
  stable (step s (Step a c)) a.
Proof.
  intros G Hp Hcl.
  assert (Hs : at_select y = true) by (unfold at_select; destruct Hp as [->|[p ->]]; reflexivity).
  destruct (sel_progress s a y c G Hs) as [[E Hn]|[z [Gz [_ [Hr|[k' [ch' [_ [Hc Hx]]]]]]]]].
  - rewrite E. exists y. auto.
  - exists z. auto.
  - exfalso. assert (ch' = ch) by (destruct Hp as [E1|[p1 E1]], Hx as [E2|[p2 E2]]; congruence). subst ch'. congruence.
Qed.

Theorem no_spin_g s a x c1 c2 c3 : Inv s -> nth_error (acts s) a = Some x ->
  at_select x = true \/ (exists k, pc x = CGate k) ->
  stable (solo true s a [c1; c2; c3]) a.
Proof.
  intros HI G Hx. unfold solo. cbn [fold_left].
  change (stable (step (step (step s (Step a c1)) (Step a c2)) (Step a c3)) a).
  destruct Hx as [Hs|[k Ep]].
  - destruct (sel_progress s a x c1 G Hs) as [[E Hn]|[y [Gy [Ecb [Hr|[k [ch [Epy [Hc Hx]]]]]]]]].
    + rewrite E. assert (St : stable s a) by (exists x; auto).
      unfold step. rewrite (stable_absorb true s a c2 St), (stable_absorb true s a c3 St). exact St.
    + assert (St : stable (step s (Step a c1)) a) by (exists y; auto).
      unfold step in *. rewrite (stable_absorb true _ a c2 St), (stable_absorb true _ a c3 St). exact St.
    + pose proof (stepg_inv true s (Step a c1) HI) as HI1. fold step in HI1.
      destruct (gate_step true _ a y k c2 HI1 Gy Epy) as [z [ch2 [Gz [Hcl Hpz]]]]. fold step in Gz, Hcl.
      exact (fresh_sel_stable _ a z k ch2 c3 Gz Hpz Hcl).
  - destruct (gate_step true s a x k c1 HI G Ep) as [z [ch2 [Gz [Hcl Hpz]]]]. fold step in Gz, Hcl.
    pose proof (fresh_sel_stable _ a z k ch2 c2 Gz Hpz Hcl) as St.
    unfold step in *. rewrite (stable_absorb true _ a c3 St). exact St.
Qed.

(* ------------------------------------------------------------------ *)
(* the two refutations *)

(* D11: the code before 27bd93c.  A lone awaiter of a container resolved with (3, context.Canceled):
   from state s it runs two segments (section; select) and is back in s, for every choice, for ever. *)
Definition d11_events : list ev :=
  [CallCAwait KAwait; CallCSetResult 3%N ECanceled; Step 1 0; Step 0 0; Step 0 0].

Theorem pinned_refuted_g :
  let s := run_pinned d11_events in
  (exists x, nth_error (acts s) 0 = Some x /\ pc x = CGate KAwait /\ actx x = false) /\
  cprom s = Some 0 /\ (exists q, nth_error (proms s) 0 = Some q /\ dclosed q = true /\ fval q = 3%N /\ ferr q = ECanceled) /\
  forall c1 c2, solo false s 0 [c1; c2] = s.
Proof.
  cbn zeta. split; [eexists; vm_compute; repeat split | split; [reflexivity | split; [eexists; vm_compute; repeat split|]]].
  intros c1 c2. unfold solo. cbn [fold_left].
  assert (E1 : stepg false (run_pinned d11_events) (Step 0 c1) = stepg false (run_pinned d11_events) (Step 0 0)) by reflexivity.
  rewrite E1.
  destruct c2 as [|[|[|[|[|c2]]]]]; vm_compute; reflexivity.
Qed.

(* the current code returns that result *)
Lemma d11_fixed_returns :
  exists x, nth_error (acts (run d11_events)) 0 = Some x /\ pc x = ARet 3%N ECanceled (Some 0).
Proof. eexists. vm_compute. split; reflexivity. Qed.

(* D20 (recorded, not repaired): a container awaiter with a pending promise current stays blocked at
   quiescence although its error channel has fired and its context is live *)
Definition d20_events : list ev :=
  [NewPromise; CallCSetPromise (Some 0); Step 0 0; CallCAwait KErrCh; Step 1 0; Step 1 0; FireCh 1 (ChVal (EOther 0)); Step 1 0].

Theorem container_errch_refuted_g :
  let s := run d20_events in
  quiescent s = true /\
  exists x ch, nth_error (acts s) 1 = Some x /\ pc x = CProm KErrCh 0 ch /\ actx x = false /\ ch_ready KErrCh (ach x) = true.
Proof. cbn zeta. split; [vm_compute; reflexivity|]. eexists; eexists. vm_compute. repeat split. Qed.

(* ------------------------------------------------------------------ *)
(* the statements of Props_C11.v that combine several of the lemmas above *)

Theorem fields_published_run es p q :
  let s := run es in
  nth_error (proms s) p = Some q -> dclosed q = true ->
  (wres q = Some (fval q, ferr q) /\ nwrites q = 1 /\ isdone q = true /\ cnt (at_pubgate p) (acts s) = 0) /\
  forall e, exists q', nth_error (proms (step s e)) p = Some q' /\
                       dclosed q' = true /\ fval q' = fval q /\ ferr q' = ferr q /\ nwrites q' = nwrites q /\ wres q' = wres q.
Proof.
  intros s Gp Hd. split; [exact (fields_published_g s p q (run_inv es) Gp Hd)|].
  intros e. exact (closed_stable true s e p q (run_inv es) Gp Hd).
Qed.

Theorem await_quiescent_run es a x :
  let s := run es in
  quiescent s = true -> nth_error (acts s) a = Some x ->
  (forall k p, pc x = PAw k p ->
     actx x = false /\ ch_ready k (ach x) = false /\ exists q, nth_error (proms s) p = Some q /\ isdone q = false) /\
  (forall k ch, pc x = CNil k ch -> actx x = false /\ ch_ready k (ach x) = false /\ cprom s = None) /\
  (forall k p ch, pc x = CProm k p ch ->
     actx x = false /\ cprom s = Some p /\ exists q, nth_error (proms s) p = Some q /\ isdone q = false).
Proof.
  intros s Hq G. split.
  - intros k p Ep. exact (await_quiescent_g s a x k p (run_inv es) Hq G Ep).
  - exact (cawait_quiescent_g s a x (run_inv es) Hq G).
Qed.

Theorem container_follows_replacement_run es a x k p ch c :
  let s := run es in
  nth_error (acts s) a = Some x -> pc x = CProm k p ch ->
  (closed (cb s) ch = false -> cprom s = Some p) /\
  let s' := step s (Step a c) in
  (s' = s \/
   exists y, nth_error (acts s') a = Some y /\ actx y = actx x /\ ach y = ach x /\
     proms s' = proms s /\ cb s' = cb s /\ cprom s' = cprom s /\
     ((pc y = CGate k /\ closed (cb s) ch = true /\ actx x = false) \/
      (pc y = ARet 0%N ECanceled None /\ actx x = true) \/
      (exists q, nth_error (proms s) p = Some q /\ dclosed q = true /\ wres q = Some (fval q, ferr q) /\
                 pc y = ARet (fval q) (ferr q) (Some p) /\
                 (ferr q = ECanceled -> actx x = true \/ closed (cb s) ch = false)))).
Proof.
  intros s G Ep. split.
  - destruct (run_inv es) as (_ & _ & _ & HA). specialize (HA a x G). unfold aok in HA. rewrite Ep in HA. tauto.
  - exact (cprom_step_cases s a x k p ch c (run_inv es) G Ep).
Qed.

Theorem no_spin_run es a x c1 c2 c3 :
  let s := run es in
  nth_error (acts s) a = Some x ->
  at_select x = true \/ (exists k, pc x = CGate k) ->
  let s' := solo true s a [c1; c2; c3] in
  (exists y, nth_error (acts s') a = Some y /\ (returned y = true \/ (at_select y = true /\ any_ready s' y = false))) /\
  forall c, step s' (Step a c) = s'.
Proof.
  intros s G Hx s'.
  pose proof (no_spin_g s a x c1 c2 c3 (run_inv es) G Hx) as St. split; [exact St|].
  intros c. exact (stable_absorb true s' a c St).
Qed.

(* ------------------------------------------------------------------ *)
(* BOUNDED tie between monitors and model (no unbounded model_satisfies_monitors theorem is proved):
   exhaustive sweep, by computation, over ALL sequences of at most d events drawn from the candidate
   alphabet [cands] below and accepted by the Spec-level step: the monitors, run on the model's own
   observations, report nothing except clause 7 (the recorded finding D20, which the model exhibits). *)
From Util Require Import Promise.Spec.

Definition dedup (l : list (list N)) : list (list N) := nodup (list_eq_dec N.eq_dec) l.

(* the status triples actor a can have after taking select case c = 0..4 in state s *)
Definition hints_of (s : st) (a : nat) : list (list N) :=
  dedup (map (fun c => acode (step s (Step a c)) a) [0; 1; 2; 3; 4]).

Definition cands (h : hst) : list (list N) :=
  let s := ms h in
  let na := length (acts s) in
  let ps := map N.of_nat (seq 0 (length (proms s))) in
  let actors := seq 0 na in
  ([[1]; [10; 3; 1]; [9; 0]; [11]; [8; 0; 0; 0]; [8; 1; 0; 0]; [8; 1; 1; 0]; [8; 2; 0; 1]]%N) ++
  flat_map (fun p : N =>
    ([[9; p + 1]; [3; p; 5; 0]; [3; p; 2; 1]]%N) ++
    flat_map (fun kc : N * N * N =>
      let '(k, ctx, ch) := kc in
      match kind_of k with
      | Some kk => map (fun hint => ([4; k; p; ctx; ch]%N) ++ hint)
                       (hints_of (pre_env (step s (CallAwait kk (N.to_nat p))) na ctx ch) na)
      | None => []
      end) ([(0, 0, 0); (0, 1, 0); (1, 0, 3); (2, 0, 0)]%N)) ps ++
  flat_map (fun a : nat =>
    let an := N.of_nat a in
    ([[6; an]; [7; an; 1]; [7; an; 5]]%N) ++
    map (fun hint => ([5; an]%N) ++ hint) (hints_of (step s (Step a 0)) a ++ [[0; 0; 0]%N]) ++
    map (fun hint => ([12; an]%N) ++ hint) (hints_of s a)) actors.

Definition only_d20 (fails : list (nat * nat)) : bool :=
  forallb (fun f => Nat.eqb (fst f) 11 && Nat.eqb (snd f) 7) fails.

Fixpoint sweep (d : nat) (h : hst) (m : mstt) : bool :=
  match d with
  | 0 => true
  | S d' =>
    forallb (fun e =>
      match hstep h e with
      | None => true
      | Some (h', o) => let '(m', fails) := mon m e o in only_d20 fails && sweep d' h' m'
      end) (cands h)
  end.

(* number of accepted sequences explored (for the record) *)
Fixpoint sweep_count (d : nat) (h : hst) : N :=
  match d with
  | 0 => 1%N
  | S d' =>
    fold_left (fun acc e => match hstep h e with None => acc | Some (h', _) => (acc + sweep_count d' h')%N end) (cands h) 1%N
  end.

(* run a fixed prefix through model and monitors (every event must be accepted and raise nothing but clause 7), then sweep *)
Fixpoint sweep_from (prefix : list (list N)) (d : nat) (h : hst) (m : mstt) : bool :=
  match prefix with
  | [] => sweep d h m
  | e :: rest =>
    match hstep h e with
    | None => false
    | Some (h', o) => let '(m', fails) := mon m e o in only_d20 fails && sweep_from rest d h' m'
    end
  end.

(* a pending promise is current and a container AwaitWithErrCh is blocked on it (the D20 situation is 1 event away) *)
Definition prefix_pending : list (list N) := [[1]; [9; 1]; [5; 0; 5; 0; 0]; [8; 1; 0; 0]; [5; 1; 2; 0; 0]]%N.
(* the same with exit gates: the awaiter is parked at the exit gate of its section *)
Definition prefix_pending_x : list (list N) := [[1]; [9; 1]; [5; 0; 5; 0; 0]; [8; 1; 0; 0]; [5; 1; 1; 0; 0]]%N.
(* two SetResult calls have raced on a promise with a blocked awaiter; the winner is parked before its writes *)
Definition prefix_race : list (list N) := [[1]; [4; 0; 0; 0; 0; 2; 0; 0]; [3; 0; 5; 0]; [3; 0; 2; 1]]%N.

Theorem monitors_accept_model_bounded :
  sweep 5 (hinit [0%N]) minit = true /\
  sweep 4 (hinit [1%N]) minit = true /\
  sweep_from prefix_pending 4 (hinit [0%N]) minit = true /\
  sweep_from prefix_pending_x 4 (hinit [1%N]) minit = true /\
  sweep_from prefix_race 4 (hinit [0%N]) minit = true.
Proof.
  split; [vm_cast_no_check (eq_refl true)|].
  split; [vm_cast_no_check (eq_refl true)|].
  split; [vm_cast_no_check (eq_refl true)|].
  split; vm_cast_no_check (eq_refl true).
Qed.
