(* Proofs about the Promise / PromiseContainer model (C11). *)
From Util Require Import Common.Base Common.ListLemmas Promise.Model.

Definition dflt : actor := {| pc := CSetRet false; actx := false; ach := ChOpen |}.

(* ------------------------------------------------------------------ *)
(* the invariant *)

(* facts about promise p (record q) against the actor table l *)
Definition pok (l : list actor) (p : nat) (q : prom) : Prop :=
  (isdone q = false -> dclosed q = false /\ nswaps q = 0 /\ wres q = None /\ pre q = false) /\
  (isdone q = true -> 1 <= nswaps q) /\
  cnt (won p) l = (if pre q then 0 else b2n (isdone q)) /\
  cnt (at_pubgate p) l + b2n (dclosed q) = b2n (isdone q) /\
  nwrites q = b2n (dclosed q) /\
  (dclosed q = true -> wres q = Some (fval q, ferr q)) /\
  (pre q = true -> dclosed q = true).

(* facts about one actor against promises ps, the container's Broadcast b and current promise cp *)
Definition aok (ps : list prom) (b : bc) (cp : option nat) (x : actor) : Prop :=
  match pc x with
  | PSet p _ _ => p < length ps
  | PSetGate p v e t => exists q, nth_error ps p = Some q /\ wres q = Some (v, e) /\ t = 0 /\ pre q = false
  | PSetRet p r t => p < length ps /\ (r = true <-> t = 0)
  | PAw _ p => p < length ps
  | ARet v e (Some p) => exists q, nth_error ps p = Some q /\ dclosed q = true /\ fval q = v /\ ferr q = e
  | CNil _ ch => ch < nxt b /\ (closed b ch = false -> cp = None)
  | CProm _ p ch => p < length ps /\ ch < nxt b /\ (closed b ch = false -> cp = Some p)
  | CSetGate (Some p) _ => p < length ps
  | _ => True
  end.

Definition Inv (s : st) : Prop :=
  bc_wf (cb s) /\
  (forall p, cprom s = Some p -> p < length (proms s)) /\
  (forall p q, nth_error (proms s) p = Some q -> pok (acts s) p q) /\
  (forall a x, nth_error (acts s) a = Some x -> aok (proms s) (cb s) (cprom s) x).

(* ------------------------------------------------------------------ *)
(* small facts *)

Lemma geta (l : list actor) a x : nth_error l a = Some x -> a < length l /\ nth a l dflt = x.
Proof. intros H. split; [eapply nth_error_nth_len; eauto | now apply nth_error_nth]. Qed.

Lemma set_nth_lookup {A} (l : list A) a v k y :
  nth_error (set_nth l a v) k = Some y ->
  (k <> a /\ nth_error l k = Some y) \/ (k = a /\ a < length l /\ y = v).
Proof.
  intros H. destruct (Nat.eq_dec k a) as [->|Hne].
  - destruct (Nat.lt_ge_cases a (length l)) as [Hl|Hl].
    + rewrite nth_error_set_nth_same in H by exact Hl. inversion H. right. auto.
    + rewrite set_nth_oob in H by exact Hl. apply nth_error_nth_len in H. lia.
  - rewrite nth_error_set_nth_other in H by exact Hne. left. auto.
Qed.

Lemma cnt_set_nth_eq (P : actor -> bool) l a x x' :
  nth_error l a = Some x -> P x' = P x -> cnt P (set_nth l a x') = cnt P l.
Proof.
  intros G HP. destruct (geta _ _ _ G) as [Hl Hn].
  pose proof (cnt_set_nth P l a x' dflt Hl) as H. rewrite Hn, HP in H. lia.
Qed.

Lemma cnt_snoc (P : actor -> bool) l x : cnt P (l ++ [x]) = cnt P l + b2n (P x).
Proof. rewrite cnt_app. unfold cnt at 2. cbn. destruct (P x); reflexivity. Qed.

Lemma seta_eq s a x np : nth_error (acts s) a = Some x ->
  seta s a np = set_nth (acts s) a {| pc := np; actx := actx x; ach := ach x |}.
Proof. intros G. unfold seta. now rewrite G. Qed.

Lemma nth_error_snoc_lt {A} (l : list A) y p q : nth_error l p = Some q -> nth_error (l ++ [y]) p = Some q.
Proof. intros H. rewrite nth_error_app1; [exact H | eapply nth_error_nth_len; eauto]. Qed.

(* aok is monotone in the promise list *)
Lemma aok_snoc_prom ps b cp x q0 : aok ps b cp x -> aok (ps ++ [q0]) b cp x.
Proof.
  unfold aok. rewrite app_length. cbn [length].
  destruct (pc x) as [p v e|p v e t|p r t|k p|v e [p|]|k|k ch|k p ch|[p|] r|r| |po ch]; intros H; try exact H; try lia.
  - destruct H as [q [H1 H2]]. exists q. split; [now apply nth_error_snoc_lt | exact H2].
  - destruct H as [H1 H2]. split; [lia | exact H2].
  - destruct H as [q [H1 H2]]. exists q. split; [now apply nth_error_snoc_lt | exact H2].
  - destruct H as [H1 H2]. split; [lia | exact H2].
Qed.

(* aok under a change of the container part *)
Lemma aok_cont ps b cp b' cp' x :
  aok ps b cp x -> nxt b <= nxt b' ->
  (forall ch, ch < nxt b -> closed b' ch = false -> closed b ch = false /\ cp' = cp) ->
  aok ps b' cp' x.
Proof.
  unfold aok. intros H Hn Hc.
  destruct (pc x) as [p v e|p v e t|p r t|k p|v e [p|]|k|k ch|k p ch|[p|] r|r| |po ch]; try exact H.
  - destruct H as [H1 H2]. split; [lia|]. intros Hcl. destruct (Hc ch H1 Hcl) as [H3 ->]. auto.
  - destruct H as [H0 [H1 H2]]. split; [exact H0 | split; [lia|]]. intros Hcl. destruct (Hc ch H1 Hcl) as [H3 ->]. auto.
Qed.

(* an actor that satisfies aok mentions only allocated promises in won / at_pubgate *)
Lemma aok_won_range ps b cp x p : aok ps b cp x -> length ps <= p -> won p x = false /\ at_pubgate p x = false.
Proof.
  unfold aok, won, at_pubgate. intros H Hp.
  destruct (pc x) as [p' v e|p' v e t|p' r t|k p'|v e [p'|]|k|k ch|k p' ch|[p'|] r|r| |po ch]; auto.
  - destruct H as [q [H1 _]]. apply nth_error_nth_len in H1.
    destruct (Nat.eqb_spec p p'); [lia | auto].
  - destruct H as [H1 _]. destruct r; [|auto]. destruct (Nat.eqb_spec p p'); [lia | auto].
Qed.

Lemma inv_fresh_counts s p : Inv s -> length (proms s) <= p ->
  cnt (won p) (acts s) = 0 /\ cnt (at_pubgate p) (acts s) = 0.
Proof.
  intros (_ & _ & _ & HA) Hp. split; apply cnt_zero_forall; intros x Hin;
    apply In_nth_error in Hin as [a Ha]; eapply aok_won_range; eauto.
Qed.

(* ------------------------------------------------------------------ *)
(* frame lemmas *)

(* A: one actor changes (same won / at_pubgate status), the container part may change, promises unchanged *)
Lemma inv_actor s a x x' b' cp' :
  Inv s -> nth_error (acts s) a = Some x ->
  (forall p, won p x' = won p x) -> (forall p, at_pubgate p x' = at_pubgate p x) ->
  bc_wf b' -> nxt (cb s) <= nxt b' ->
  (forall ch, ch < nxt (cb s) -> closed b' ch = false -> closed (cb s) ch = false /\ cp' = cprom s) ->
  (forall p, cp' = Some p -> p < length (proms s)) ->
  aok (proms s) b' cp' x' ->
  Inv {| proms := proms s; cb := b'; cprom := cp'; acts := set_nth (acts s) a x' |}.
Proof.
  intros (Hwf & Hcp & HP & HA) G Hw Hg Hwf' Hn Hc Hcp' Hx'.
  split; [exact Hwf' | split; [exact Hcp' | split]]; cbn [proms cb cprom acts].
  - intros p q Hq. specialize (HP p q Hq). unfold pok in *.
    rewrite (cnt_set_nth_eq (won p) _ _ _ _ G (Hw p)), (cnt_set_nth_eq (at_pubgate p) _ _ _ _ G (Hg p)). exact HP.
  - intros k y Hk. apply set_nth_lookup in Hk as [[Hne Hk]|[-> [_ ->]]]; [|exact Hx'].
    eapply aok_cont; eauto.
Qed.

(* B: a new actor that has not won anything *)
Lemma inv_add_actor s np :
  Inv s -> aok (proms s) (cb s) (cprom s) (new_actor np) ->
  (forall p, won p (new_actor np) = false) -> (forall p, at_pubgate p (new_actor np) = false) ->
  Inv (add_actor s np).
Proof.
  intros (Hwf & Hcp & HP & HA) Hx Hw Hg. unfold add_actor, with_acts.
  split; [exact Hwf | split; [exact Hcp | split]]; cbn [proms cb cprom acts].
  - intros p q Hq. specialize (HP p q Hq). unfold pok in *. rewrite !cnt_snoc, Hw, Hg. cbn [b2n]. rewrite !Nat.add_0_r. exact HP.
  - intros k y Hk. apply nth_error_app_inv in Hk as [Hk| ->]; [eauto | exact Hx].
Qed.

Lemma pok_prom0 l p : cnt (won p) l = 0 -> cnt (at_pubgate p) l = 0 -> pok l p prom0.
Proof. intros H1 H2. unfold pok, prom0; cbn. rewrite H1, H2. repeat split; auto; discriminate. Qed.
Lemma pok_prom_with l p v e : cnt (won p) l = 0 -> cnt (at_pubgate p) l = 0 -> pok l p (prom_with v e).
Proof. intros H1 H2. unfold pok, prom_with; cbn. rewrite H1, H2. repeat split; auto; discriminate. Qed.

Lemma nth_error_snoc_inv {A} (l : list A) y p q :
  nth_error (l ++ [y]) p = Some q -> nth_error l p = Some q \/ (p = length l /\ q = y).
Proof.
  intros H. destruct (Nat.lt_ge_cases p (length l)) as [Hl|Hl].
  - left. now rewrite nth_error_app1 in H.
  - right. rewrite nth_error_app2 in H by lia. destruct (p - length l) as [|k] eqn:E; cbn in H.
    + inversion H. split; [lia | reflexivity].
    + destruct k; discriminate.
Qed.

(* C: a new promise *)
Lemma inv_add_prom s q0 :
  Inv s -> (forall l p, cnt (won p) l = 0 -> cnt (at_pubgate p) l = 0 -> pok l p q0) ->
  Inv {| proms := proms s ++ [q0]; cb := cb s; cprom := cprom s; acts := acts s |}.
Proof.
  intros HI Hq0. pose proof HI as (Hwf & Hcp & HP & HA).
  split; [exact Hwf | split; [|split]]; cbn [proms cb cprom acts].
  - intros p Hp. rewrite app_length. specialize (Hcp p Hp). lia.
  - intros p q Hq. apply nth_error_snoc_inv in Hq as [Hq|[-> ->]]; [eauto|].
    destruct (inv_fresh_counts s (length (proms s)) HI (le_n _)) as [H1 H2]. now apply Hq0.
  - intros k y Hk. apply aok_snoc_prom. eauto.
Qed.

(* aok under an update of promise p that keeps what actors rely on *)
Lemma aok_prom_upd ps b cp y p q q' :
  aok ps b cp y -> nth_error ps p = Some q ->
  (forall r, wres q = Some r -> wres q' = Some r) -> pre q' = pre q ->
  (dclosed q = true -> dclosed q' = true /\ fval q' = fval q /\ ferr q' = ferr q) ->
  aok (set_nth ps p q') b cp y.
Proof.
  unfold aok. intros H G Hw Hpre Hd. rewrite length_set_nth.
  destruct (pc y) as [p' v e|p' v e t|p' r t|k p'|v e [p'|]|k|k ch|k p' ch|[p'|] r|r| |po ch]; try exact H.
  - destruct H as [q0 [H1 [H2 [H3 H4]]]]. destruct (Nat.eq_dec p' p) as [->|Hne].
    + rewrite G in H1. inversion H1; subst q0. exists q'.
      split; [apply nth_error_set_nth_same; eapply nth_error_nth_len; eauto|]. split; [auto | split; [auto | congruence]].
    + exists q0. split; [now rewrite nth_error_set_nth_other | auto].
  - destruct H as [q0 [H1 [H2 [H3 H4]]]]. destruct (Nat.eq_dec p' p) as [->|Hne].
    + rewrite G in H1. inversion H1; subst q0. destruct (Hd H2) as [D1 [D2 D3]]. exists q'.
      split; [apply nth_error_set_nth_same; eapply nth_error_nth_len; eauto|]. split; [auto | split; congruence].
    + exists q0. split; [now rewrite nth_error_set_nth_other | auto].
Qed.

(* D: promise p and actor a change together *)
Lemma inv_prom_actor s a x x' p q q' :
  Inv s -> nth_error (acts s) a = Some x -> nth_error (proms s) p = Some q ->
  (forall p', p' <> p -> won p' x' = won p' x /\ at_pubgate p' x' = at_pubgate p' x) ->
  pok (set_nth (acts s) a x') p q' ->
  (forall k y, k <> a -> nth_error (acts s) k = Some y -> aok (set_nth (proms s) p q') (cb s) (cprom s) y) ->
  aok (set_nth (proms s) p q') (cb s) (cprom s) x' ->
  Inv {| proms := set_nth (proms s) p q'; cb := cb s; cprom := cprom s; acts := set_nth (acts s) a x' |}.
Proof.
  intros (Hwf & Hcp & HP & HA) G Gp Hoth Hq' Hys Hx'.
  split; [exact Hwf | split; [|split]]; cbn [proms cb cprom acts].
  - intros p0 H0. rewrite length_set_nth. auto.
  - intros p0 q0 H0. apply set_nth_lookup in H0 as [[Hne H0]|[-> [_ ->]]]; [|exact Hq'].
    specialize (HP p0 q0 H0). destruct (Hoth p0 Hne) as [Hw Hg]. unfold pok in *.
    rewrite (cnt_set_nth_eq (won p0) _ _ _ _ G Hw), (cnt_set_nth_eq (at_pubgate p0) _ _ _ _ G Hg). exact HP.
  - intros k y Hk. apply set_nth_lookup in Hk as [[Hne Hk]|[-> [_ ->]]]; [eauto | exact Hx'].
Qed.

Lemma pick_ready f c n : pick f c = S n -> f (S n) = true.
Proof.
  unfold pick, first_ready. destruct (f c) eqn:E; [intros <-; exact E|].
  destruct (f 1) eqn:E1; [intros H; inversion H; subst; exact E1|].
  destruct (f 2) eqn:E2; [intros H; inversion H; subst; exact E2|].
  destruct (f 3) eqn:E3; [intros H; inversion H; subst; exact E3|].
  destruct (f 4) eqn:E4; [intros H; inversion H; subst; exact E4|]. discriminate.
Qed.

Lemma pclosed_true s p : pclosed s p = true -> exists q, nth_error (proms s) p = Some q /\ dclosed q = true.
Proof. unfold pclosed. destruct (nth_error (proms s) p) as [q|]; [intros H; now exists q | discriminate]. Qed.

Lemma getch_facts b : bc_wf b ->
  let b' := fst (getch b) in let ch := snd (getch b) in
  bc_wf b' /\ nxt b <= nxt b' /\ ch < nxt b' /\ closed b' ch = false /\
  (forall c, c < nxt b -> closed b' c = closed b c).
Proof.
  intros Hwf. pose proof (getch_open b Hwf) as Ho. pose proof (getch_wf b Hwf) as Hw.
  pose proof (getch_nxt_mono b) as Hm. pose proof (getch_closed_same b) as Hs.
  destruct (getch b) as [b' ch]. cbn [fst snd] in *. destruct Ho as [H1 [H2 _]]. repeat split; auto.
Qed.

Ltac actor_simple HI G :=
  unfold with_acts; erewrite seta_eq by exact G;
  apply (inv_actor _ _ _ _ _ _ HI G);
  [ intros ?; reflexivity | intros ?; reflexivity | apply HI | lia | intros ch0 _ Hc0; auto | apply HI | ].

Lemma stepg_inv fixed s e : Inv s -> Inv (stepg fixed s e).
Proof.
  intros HI. pose proof HI as (Hwf & Hcp & HP & HA).
  destruct e as [|v e|p v e|k p|k|[p|]|v e| |a|a c|a c]; cbn [stepg].
  - apply inv_add_prom; [exact HI | intros; now apply pok_prom0].
  - apply inv_add_prom; [exact HI | intros; now apply pok_prom_with].
  - destruct (Nat.ltb_spec p (length (proms s))) as [Hp|Hp]; [|exact HI].
    apply inv_add_actor; auto.
  - destruct (Nat.ltb_spec p (length (proms s))) as [Hp|Hp]; [|exact HI].
    apply inv_add_actor; auto.
  - apply inv_add_actor; unfold aok; cbn; auto.
  - destruct (Nat.ltb_spec p (length (proms s))) as [Hp|Hp]; [|exact HI].
    apply inv_add_actor; auto.
  - apply inv_add_actor; unfold aok; cbn; auto.
  - (* container SetResult: fresh resolved promise, then a new actor *)
    pose proof (inv_add_prom s (prom_with v e) HI ltac:(intros; now apply pok_prom_with)) as HI2.
    apply (inv_add_actor _ (CSetGate (Some (length (proms s))) true)) in HI2; [exact HI2 | | auto | auto].
    unfold aok; cbn. rewrite app_length; cbn; lia.
  - apply inv_add_actor; unfold aok; cbn; auto.
  - (* cancel ctx *)
    destruct (nth_error (acts s) a) as [x|] eqn:G; [|exact HI].
    unfold with_acts. apply (inv_actor _ _ _ _ _ _ HI G); auto.
    specialize (HA a x G). exact HA.
  - (* fire channel *)
    destruct (nth_error (acts s) a) as [x|] eqn:G; [|exact HI].
    destruct (ach x); try exact HI. destruct c; try exact HI.
    all: unfold with_acts; apply (inv_actor _ _ _ _ _ _ HI G); auto; specialize (HA a x G); exact HA.
  - (* step *)
    destruct (nth_error (acts s) a) as [x|] eqn:G; [|exact HI].
    pose proof (HA a x G) as Hx. unfold aok in Hx.
    destruct (pc x) as [p v e|p v e t|p r t|k p|v e src|k|k ch|k p ch|po r|r| |po ch] eqn:Epc; try exact HI.
    + (* Swap *)
      destruct (nth_error (proms s) p) as [q|] eqn:Gp; [|exact HI].
      pose proof (HP p q Gp) as (P1 & P2 & P3 & P4 & P5 & P6 & P7).
      assert (Hwx : won p x = false) by (unfold won; now rewrite Epc).
      assert (Hgx : at_pubgate p x = false) by (unfold at_pubgate; now rewrite Epc).
      destruct (geta _ _ _ G) as [Hl Hn].
      destruct (isdone q) eqn:Ed.
      * erewrite seta_eq by exact G.
        apply (inv_prom_actor s a x _ p q _ HI G Gp).
        -- intros p' Hne. unfold won, at_pubgate. cbn [pc]. rewrite Epc. destruct (Nat.eqb_spec p' p); [lia | auto].
        -- unfold pok; cbn [isdone dclosed nswaps wres pre nwrites fval ferr].
           rewrite (cnt_set_nth_eq (won p) _ _ _ _ G), (cnt_set_nth_eq (at_pubgate p) _ _ _ _ G);
             [|unfold at_pubgate; cbn [pc]; now rewrite Epc | unfold won; cbn [pc]; now rewrite Epc].
           repeat split; auto; try discriminate; lia.
        -- intros k0 y Hne Hk. apply (aok_prom_upd _ _ _ _ _ q _ (HA k0 y Hk) Gp); cbn [wres pre dclosed fval ferr]; [intros r0 Hr; first [exact Hr | congruence] | reflexivity | intros Hc; first [congruence | auto]].
        -- unfold aok; cbn [pc]. rewrite length_set_nth. split; [exact Hx|]. specialize (P2 eq_refl). split; [discriminate | lia].
      * destruct (P1 eq_refl) as (D1 & D2 & D3 & D4).
        erewrite seta_eq by exact G.
        apply (inv_prom_actor s a x _ p q _ HI G Gp).
        -- intros p' Hne. unfold won, at_pubgate. cbn [pc]. rewrite Epc. destruct (Nat.eqb_spec p' p); [lia | auto].
        -- unfold pok; cbn [isdone dclosed nswaps wres pre nwrites fval ferr].
           pose proof (cnt_set_nth (won p) (acts s) a {| pc := PSetGate p v e (nswaps q); actx := actx x; ach := ach x |} dflt Hl) as C1.
           pose proof (cnt_set_nth (at_pubgate p) (acts s) a {| pc := PSetGate p v e (nswaps q); actx := actx x; ach := ach x |} dflt Hl) as C2.
           rewrite Hn in C1, C2. rewrite Hwx in C1. rewrite Hgx in C2.
           replace (won p {| pc := PSetGate p v e (nswaps q); actx := actx x; ach := ach x |}) with true in C1
             by (unfold won; cbn [pc]; now rewrite Nat.eqb_refl).
           replace (at_pubgate p {| pc := PSetGate p v e (nswaps q); actx := actx x; ach := ach x |}) with true in C2
             by (unfold at_pubgate; cbn [pc]; now rewrite Nat.eqb_refl).
           cbn [b2n] in *.
           rewrite D4 in *. rewrite D1 in *. cbn [b2n] in *.
           repeat split; auto; try discriminate; try lia.
        -- intros k0 y Hne Hk. apply (aok_prom_upd _ _ _ _ _ q _ (HA k0 y Hk) Gp); cbn [wres pre dclosed fval ferr]; [intros r0 Hr; first [exact Hr | congruence] | reflexivity | intros Hc; first [congruence | auto]].
        -- unfold aok; cbn [pc]. eexists. split; [apply nth_error_set_nth_same; eapply nth_error_nth_len; eauto|]. cbn [wres pre]. auto.
    + (* publish *)
      destruct Hx as [q [Gp [Hw [-> Hpre]]]]. rewrite Gp.
      pose proof (HP p q Gp) as (P1 & P2 & P3 & P4 & P5 & P6 & P7).
      assert (Hwx : won p x = true) by (unfold won; rewrite Epc; apply Nat.eqb_refl).
      assert (Hgx : at_pubgate p x = true) by (unfold at_pubgate; rewrite Epc; apply Nat.eqb_refl).
      pose proof (nth_error_cnt_pos (at_pubgate p) _ _ _ G Hgx) as Hpos.
      destruct (geta _ _ _ G) as [Hl Hn].
      assert (Hdc : dclosed q = false) by (destruct (dclosed q), (isdone q); cbn [b2n] in P4; auto; lia).
      assert (Hdn : isdone q = true) by (destruct (isdone q); cbn [b2n] in P4; auto; lia).
      erewrite seta_eq by exact G.
      apply (inv_prom_actor s a x _ p q _ HI G Gp).
      * intros p' Hne. unfold won, at_pubgate. cbn [pc]. rewrite Epc. destruct (Nat.eqb_spec p' p); [lia | auto].
      * unfold pok; cbn [isdone dclosed nswaps wres pre nwrites fval ferr].
        pose proof (cnt_set_nth (won p) (acts s) a {| pc := PSetRet p true 0; actx := actx x; ach := ach x |} dflt Hl) as C1.
        pose proof (cnt_set_nth (at_pubgate p) (acts s) a {| pc := PSetRet p true 0; actx := actx x; ach := ach x |} dflt Hl) as C2.
        rewrite Hn in C1, C2. rewrite Hwx in C1. rewrite Hgx in C2.
        replace (won p {| pc := PSetRet p true 0; actx := actx x; ach := ach x |}) with true in C1
          by (unfold won; cbn [pc]; now rewrite Nat.eqb_refl).
        replace (at_pubgate p {| pc := PSetRet p true 0; actx := actx x; ach := ach x |}) with false in C2
          by (unfold at_pubgate; cbn [pc]; reflexivity).
        cbn [b2n] in *.
        rewrite Hdc, Hdn, Hpre in *. cbn [b2n] in *.
        repeat split; auto; try discriminate; try lia.
      * intros k0 y Hne Hk. apply (aok_prom_upd _ _ _ _ _ q _ (HA k0 y Hk) Gp); cbn [wres pre dclosed fval ferr]; [intros r0 Hr; first [exact Hr | congruence] | reflexivity | intros Hc; first [congruence | auto]].
      * unfold aok; cbn [pc]. rewrite length_set_nth. split; [eapply nth_error_nth_len; eauto | tauto].
    + (* Promise.Await* *)
      destruct (pick (rdy_direct s x k p) c) as [|[|[|[|[|n]]]]] eqn:Ep; try exact HI.
      * actor_simple HI G. exact I.
      * actor_simple HI G. exact I.
      * apply pick_ready in Ep. cbn [rdy_direct] in Ep. apply pclosed_true in Ep as [q [Gp Hd]]. rewrite Gp.
        actor_simple HI G. unfold aok; cbn [pc]. exists q. auto.
    + (* container await: section *)
      pose proof (getch_facts (cb s) Hwf) as (F1 & F2 & F3 & F4 & F5). destruct (getch (cb s)) as [b' ch]. cbn [fst snd] in *.
      erewrite seta_eq by exact G.
      apply (inv_actor _ _ _ _ _ _ HI G); auto.
      * intros p0. unfold won. cbn [pc]. rewrite Epc. now destruct (cprom s).
      * intros p0. unfold at_pubgate. cbn [pc]. rewrite Epc. now destruct (cprom s).
      * intros ch0 Hc0 Hcl. rewrite F5 in Hcl by exact Hc0. auto.
      * unfold aok; cbn [pc]. destruct (cprom s) as [p0|] eqn:Ec; cbn; auto.
    + (* container await, nil branch *)
      destruct (pick (rdy_nil s x k ch) c) as [|[|[|[|n]]]] eqn:Ep; try exact HI; actor_simple HI G; exact I.
    + (* container await, promise branch *)
      destruct Hx as [Hp [Hch Hcur]].
      destruct (pick (rdy_prom s x p ch) c) as [|[|[|[|[|n]]]]] eqn:Ep; try exact HI.
      * actor_simple HI G. exact I.
      * actor_simple HI G. unfold aok; cbn [pc]. now destruct (actx x).
      * apply pick_ready in Ep. cbn [rdy_prom] in Ep. apply pclosed_true in Ep as [q [Gp Hd]]. rewrite Gp.
        actor_simple HI G. unfold aok.
        destruct (ferr q) eqn:Ef; cbn [pc]; try (exists q; auto; fail).
        destruct (actx x); [cbn [pc]; exists q; auto|].
        destruct fixed; [|exact I]. destruct (closed (cb s) ch); cbn [pc]; [exact I | exists q; auto].
    + (* container SetPromise / SetResult *)
      destruct (r || negb (opt_eqb (cprom s) po)).
      * erewrite seta_eq by exact G.
        apply (inv_actor _ _ _ _ _ _ HI G); auto.
        -- apply bcast_wf.
        -- intros ch0 Hc0 Hcl. rewrite bcast_closes in Hcl by exact Hc0. discriminate.
        -- intros p0 ->. exact Hx.
        -- exact I.
      * actor_simple HI G. exact I.
    + (* GetPromise *)
      pose proof (getch_facts (cb s) Hwf) as (F1 & F2 & F3 & F4 & F5). destruct (getch (cb s)) as [b' ch]. cbn [fst snd] in *.
      erewrite seta_eq by exact G.
      apply (inv_actor _ _ _ _ _ _ HI G); auto.
      * intros ch0 Hc0 Hcl. rewrite F5 in Hcl by exact Hc0. auto.
      * exact I.
Qed.
