(* C11 -- promise: resolved at most once, every awaiter sees that result and returns.
   Statements only.  "For every number of concurrent setters and awaiters, every interleaving, every result
   and error value" = for every list of events of the model of Promise/Model.v (any number of promises and
   calls; every placement of the Swap, the field writes, wake-ups, cancellations, channel sends, container
   sections; values are arbitrary N, errors nil / context.Canceled / context.DeadlineExceeded / other i). *)
From Util Require Import Common.Base Common.ListLemmas Promise.Model Promise.Spec Promise.Proofs Promise.ProofsMon Promise.ProofsMon2 Promise.ProofsElide.

(* Exactly the first SetResult returns true.  [won p] = SetResult calls on p that won the Swap (parked before
   the writes, or returned true): there is exactly one once isDone is set, none for a promise constructed
   resolved; the ticket t of a call is the number of Swaps executed on p before its own (the constructor's
   Store counts as one): it returned true iff t = 0. *)
Theorem c11_exactly_first_setresult_true : forall es p q,
  let s := run es in
  nth_error (proms s) p = Some q ->
  cnt (won p) (acts s) = (if pre q then 0 else b2n (isdone q)) /\
  (forall a x r t, nth_error (acts s) a = Some x -> pc x = PSetRet p r t -> (r = true <-> t = 0)) /\
  (forall a x v e t, nth_error (acts s) a = Some x -> pc x = PSetGate p v e t -> t = 0).
Proof. intros es p q. exact (exactly_first_g (run es) p q (run_inv es)). Qed.
Print Assumptions c11_exactly_first_setresult_true.

(* ... and the Swap decides at once: a SetResult that runs its Swap after another one returns false even
   while the winner has not yet published (it is still parked before the writes) *)
Theorem c11_swap_decides : forall s a x p v e q c,
  nth_error (acts s) a = Some x -> pc x = PSet p v e -> nth_error (proms s) p = Some q ->
  let s' := step s (Step a c) in
  (exists y, nth_error (acts s') a = Some y /\
             pc y = if isdone q then PSetRet p false (nswaps q) else PSetGate p v e (nswaps q)) /\
  (exists q', nth_error (proms s') p = Some q' /\ isdone q' = true /\ nswaps q' = S (nswaps q) /\
              wres q' = if isdone q then wres q else Some (v, e)).
Proof. exact (swap_decides true). Qed.
Print Assumptions c11_swap_decides.

(* done closed => the two fields hold the winner's arguments, were written exactly once, nobody is left
   between Swap and writes; and no event ever changes them again *)
Theorem c11_fields_published_before_close : forall es p q,
  let s := run es in
  nth_error (proms s) p = Some q -> dclosed q = true ->
  (wres q = Some (fval q, ferr q) /\ nwrites q = 1 /\ isdone q = true /\ cnt (at_pubgate p) (acts s) = 0) /\
  forall e, exists q', nth_error (proms (step s e)) p = Some q' /\
                       dclosed q' = true /\ fval q' = fval q /\ ferr q' = ferr q /\ nwrites q' = nwrites q /\ wres q' = wres q.
Proof. exact fields_published_run. Qed.
Print Assumptions c11_fields_published_before_close.

(* every Await / AwaitWithErrCh / AwaitWithCancelCh (on a promise or on the container) that completed by
   result returned the winner's value and error *)
Theorem c11_await_returns_winner : forall es a x v e p,
  let s := run es in
  nth_error (acts s) a = Some x -> pc x = ARet v e (Some p) ->
  exists q, nth_error (proms s) p = Some q /\ dclosed q = true /\ wres q = Some (v, e).
Proof. intros es a x v e p. exact (await_returns_winner_g (run es) a x v e p (run_inv es)). Qed.
Print Assumptions c11_await_returns_winner.

(* liveness as quiescence safety.  In every reachable state without an enabled internal step:
   - no Promise awaiter is blocked while a result is available (isDone set: some SetResult won, or the
     promise was constructed resolved), its context is cancelled, or its channel fired;
   - a container awaiter in the nil branch: context live, channel not fired, and the container still holds nil;
   - a container awaiter in the promise branch: context live, it waits on the CURRENT promise, which has no result.
     EXCEPTION (known finding D20, see c11_container_errch_refuted): nothing is claimed about its own
     err / cancel channel in this branch, because the code does not select on it there. *)
Theorem c11_await_quiescent : forall es a x,
  let s := run es in
  quiescent s = true -> nth_error (acts s) a = Some x ->
  (forall k p, pc x = PAw k p ->
     actx x = false /\ ch_ready k (ach x) = false /\ exists q, nth_error (proms s) p = Some q /\ isdone q = false) /\
  (forall k ch, pc x = CNil k ch -> actx x = false /\ ch_ready k (ach x) = false /\ cprom s = None) /\
  (forall k p ch, pc x = CProm k p ch ->
     actx x = false /\ cprom s = Some p /\ exists q, nth_error (proms s) p = Some q /\ isdone q = false).
Proof. exact await_quiescent_run. Qed.
Print Assumptions c11_await_quiescent.

(* the full-strength clause "... or its error/cancel channel fires" is FALSE for container awaiters:
   a reachable quiescent state with a blocked container awaiter whose error channel has fired (D20) *)
Theorem c11_container_errch_refuted :
  exists es, let s := run es in
  quiescent s = true /\
  exists x ch, nth_error (acts s) 1 = Some x /\ pc x = CProm KErrCh 0 ch /\ actx x = false /\ ch_ready KErrCh (ach x) = true.
Proof. exists d20_events. exact container_errch_refuted_g. Qed.
Print Assumptions c11_container_errch_refuted.

(* a container awaiter follows replacements: from inside p.AwaitWithCancelCh(ctx, waitCh) it goes back to
   its HoldLock gate only when the wait channel is closed (the promise was replaced); it returns
   (0, Canceled) without a result only when its own context is cancelled; otherwise it returns p's published
   result -- and a result whose error is Canceled under a live context only while p is still current *)
Theorem c11_container_follows_replacement : forall es a x k p ch c,
  let s := run es in
  nth_error (acts s) a = Some x -> pc x = CProm k p ch ->
  (closed (cb s) ch = false -> cprom s = Some p) /\
  let s' := step s (Step a c) in
  (s' = s \/
   exists y, nth_error (acts s') a = Some y /\ actx y = actx x /\ ach y = ach x /\
     proms s' = proms s /\ cb s' = cb s /\ cprom s' = cprom s /\
     ((pc y = CGate k /\ closed (cb s) ch = true /\ actx x = false) \/
      (pc y = ARet 0%N ECanceled None /\ actx x = true) \/
      (exists q, nth_error (proms s) p = Some q /\ dclosed q = true /\ wres q = Some (fval q, ferr q) /\
                 pc y = ARet (fval q) (ferr q) (Some p) /\
                 (ferr q = ECanceled -> actx x = true \/ closed (cb s) ch = false)))).
Proof. exact container_follows_replacement_run. Qed.
Print Assumptions c11_container_follows_replacement.

(* ... and it does return the current promise's result, for EVERY result including (v, context.Canceled):
   live context, p still current and published => whatever case the scheduler prefers, the awaiter returns
   exactly p's winner's (value, error) *)
Theorem c11_container_returns_current_result : forall es a x k p ch q c,
  let s := run es in
  nth_error (acts s) a = Some x -> pc x = CProm k p ch ->
  nth_error (proms s) p = Some q -> dclosed q = true -> actx x = false -> closed (cb s) ch = false ->
  cprom s = Some p /\ wres q = Some (fval q, ferr q) /\
  exists y, nth_error (acts (step s (Step a c))) a = Some y /\ pc y = ARet (fval q) (ferr q) (Some p).
Proof. intros es a x k p ch q c. exact (container_returns_current_g (run es) a x k p ch q c (run_inv es)). Qed.
Print Assumptions c11_container_returns_current_result.

(* "blocks without consuming CPU" -- PARTIAL BY NATURE.  Proved on the model: an awaiter (of a promise or of
   the container) that is the only thing that runs is, after at most 3 segments and whatever select cases
   are preferred, returned or blocked with no ready case; and a returned / blocked actor does nothing when
   scheduled.  On the implementation this is enforced by the harness (at most 3 passes of the HoldLock
   entry gate while running alone, else status "spinning"; wall-clock watchdog); CPU time is not modelled. *)
Theorem c11_no_spin : forall es a x c1 c2 c3,
  let s := run es in
  nth_error (acts s) a = Some x ->
  at_select x = true \/ (exists k, pc x = CGate k) ->
  let s' := solo true s a [c1; c2; c3] in
  (exists y, nth_error (acts s') a = Some y /\ (returned y = true \/ (at_select y = true /\ any_ready s' y = false))) /\
  forall c, step s' (Step a c) = s'.
Proof. exact no_spin_run. Qed.
Print Assumptions c11_no_spin.

(* the code before /repo 27bd93c (D11) violates it: container resolved with (3, context.Canceled), one awaiter
   with a live context.  From state s the awaiter, run alone, is back in s after 2 segments, for every
   choice of select cases -- it never returns that result and never blocks.  (The current code returns
   (3, Canceled): c11_example_canceled_result_returned.) *)
Theorem c11_pinned_refuted :
  exists es a, let s := run_pinned es in
  (exists x, nth_error (acts s) a = Some x /\ pc x = CGate KAwait /\ actx x = false) /\
  cprom s = Some 0 /\ (exists q, nth_error (proms s) 0 = Some q /\ dclosed q = true /\ fval q = 3%N /\ ferr q = ECanceled) /\
  forall c1 c2, solo false s a [c1; c2] = s.
Proof. exists d11_events, 0. exact pinned_refuted_g. Qed.
Print Assumptions c11_pinned_refuted.

(* BOUNDED tie between the monitors and the model (kept; the UNBOUNDED theorems c11_model_satisfies_monitors ...
   c11_clause7_only_in_d21 follow below).
   By computation in the kernel (vm_compute): for EVERY sequence of at most 5 events (config [0]; at most 4 with exit
   gates, config [1]) from the candidate alphabet Proofs.cands (NewPromise, container SetResult(3, Canceled),
   SetPromise(nil / every promise), GetPromise, SetResult(5, nil) / (2, Canceled) on every promise, the Await variants
   incl. a pre-cancelled context and a pre-filled error channel with every possible select outcome, container awaits incl.
   pre-cancelled / pre-fired, cancel / close / send for every actor, gate and exit-gate steps of every actor with every
   possible select outcome) that the Spec-level step accepts -- 718 486 sequences for config [0] -- and for every such
   sequence of at most 4 further events after three fixed prefixes (blocked container awaiter on a pending promise,
   without and with exit gates; two SetResult calls raced with a blocked awaiter), the monitors run on the model's OWN
   observations report nothing except clause 7, the recorded finding D20 (which these sweeps do reach). *)
Theorem c11_monitors_accept_model_bounded :
  sweep 5 (hinit [0%N]) minit = true /\
  sweep 4 (hinit [1%N]) minit = true /\
  sweep_from prefix_pending 4 (hinit [0%N]) minit = true /\
  sweep_from prefix_pending_x 4 (hinit [1%N]) minit = true /\
  sweep_from prefix_race 4 (hinit [0%N]) minit = true.
Proof. exact monitors_accept_model_bounded. Qed.
Print Assumptions c11_monitors_accept_model_bounded.

(* ---------------- monitors and model: for ALL event lists, no bound ---------------- *)

(* Clause 7 of the monitors ("a container awaiter with a live context is blocked at quiescence although its err / cancel
   channel fired while a pending promise is current") is the recorded finding D20/D21: the code, and hence the model, does
   NOT satisfy it (c11_container_errch_refuted, c11_monitors_clause7_refuted).  The theorem is therefore stated for the
   monitors with that one clause filtered out:  mon_only keep m e o = let '(m', f) := mon m e o in (m', filter keep f),
   not_clause7 (pid, clause) = negb (pid = 11 && clause = 7).
   For EVERY configuration and EVERY list of harness events: on the observations the model itself produces (eager
   schedule of Spec.hstep; the run stops at the first event the model does not accept) none of the clauses
   1 2 3 4 5 6 8 9 of the property-11 monitors (nor any stress clause) is ever false. *)
Theorem c11_model_satisfies_monitors : forall cfg evs,
  monitor (mon_only not_clause7) 0 minit [] evs (run_obs hstep (hinit cfg) evs) = [].
Proof. exact model_satisfies_monitors. Qed.
Print Assumptions c11_model_satisfies_monitors.

(* hence the checker (replay + those monitors) reports nothing on any history that the model accepts completely *)
Theorem c11_model_run_check_clean : forall cfg evs,
  length (run_obs hstep (hinit cfg) evs) = length evs ->
  run_check hstep (mon_only not_clause7) (hinit cfg) minit evs (run_obs hstep (hinit cfg) evs) = [].
Proof. exact model_run_check_clean. Qed.
Print Assumptions c11_model_run_check_clean.

(* the same about the UNFILTERED monitors / the extracted checker run_check_promise: whatever they report on the model's
   own observations is clause 7 of property 11 *)
Theorem c11_model_monitors_only_clause7 : forall cfg evs x,
  In x (monitor mon 0 minit [] evs (run_obs hstep (hinit cfg) evs)) -> exists j, x = PropFalse 11 7 j.
Proof. exact model_monitors_only_clause7. Qed.
Print Assumptions c11_model_monitors_only_clause7.

Theorem c11_model_run_check_only_clause7 : forall cfg evs x,
  length (run_obs hstep (hinit cfg) evs) = length evs ->
  In x (run_check_promise cfg evs (run_obs hstep (hinit cfg) evs)) -> exists j, x = PropFalse 11 7 j.
Proof. exact model_run_check_only_clause7. Qed.
Print Assumptions c11_model_run_check_only_clause7.

(* ... and clause 7 is raised ONLY in the D20/D21 situation: after any accepted history (model state h, monitor state m
   reached side by side, ProofsMon2.hrun), if the monitor step for the next accepted event reports anything, it is
   (11, 7) and the model state is quiescent with a container awaiter blocked inside p.AwaitWithCancelCh, live context,
   own channel fired, p current and pending (ProofsMon.d21).  So an implementation that behaves like the model and is
   never driven into that situation raises no alarm at all. *)
Theorem c11_clause7_only_in_d21 : forall cfg evs h m e h' o,
  hrun (hinit cfg) minit evs = Some (h, m) -> hstep h e = Some (h', o) ->
  forall p, In p (snd (mon m e o)) ->
  p = (11%nat, 7%nat) /\
  (quiescent (ms h') = true /\
   exists a x k p ch q, nth_error (acts (ms h')) a = Some x /\ pc x = CProm k p ch /\ actx x = false /\
                        ch_ready k (ach x) = true /\ cprom (ms h') = Some p /\
                        nth_error (proms (ms h')) p = Some q /\ isdone q = false).
Proof. exact clause7_only_in_d21. Qed.
Print Assumptions c11_clause7_only_in_d21.

(* the full statement "no clause at all is ever false" is REFUTED by the model (= by the code, finding D20/D21): on this
   history, which the model accepts completely, the monitors run on the model's own observations report clause 7 *)
Theorem c11_monitors_clause7_refuted :
  length (run_obs hstep (hinit [0%N]) d21_history) = length d21_history /\
  monitor mon 0 minit [] d21_history (run_obs hstep (hinit [0%N]) d21_history) = [PropFalse 11 7 5].
Proof. exact monitors_clause7_refuted. Qed.
Print Assumptions c11_monitors_clause7_refuted.

(* ---------------- Examples (non-vacuity) ---------------- *)
Example c11_example_canceled_result_returned :
  exists x, nth_error (acts (run d11_events)) 0 = Some x /\ pc x = ARet 3%N ECanceled (Some 0).
Proof. exact d11_fixed_returns. Qed.

(* two SetResult calls race: the second Swap loses and returns false while the winner is still parked before
   its writes; an awaiter is blocked meanwhile; after the publish step it returns the winner's (7, other 0) *)
Example c11_example_race :
  let s1 := run [NewPromise; CallAwait KAwait 0; CallSet 0 7%N (EOther 0); CallSet 0 9%N ENil; Step 1 0; Step 2 0; Step 0 0] in
  let s2 := step (step s1 (Step 1 0)) (Step 0 0) in
  map pc (acts s1) = [PAw KAwait 0; PSetGate 0 7%N (EOther 0) 0; PSetRet 0 false 1] /\
  map pc (acts s2) = [ARet 7%N (EOther 0) (Some 0); PSetRet 0 true 0; PSetRet 0 false 1] /\
  quiescent s1 = false /\ quiescent s2 = true.
Proof. vm_compute. repeat split; reflexivity. Qed.

(* a container awaiter follows a replacement and returns the new promise's result *)
Example c11_example_replacement :
  let s := run [NewPromise; NewPromise; CallCSetPromise (Some 0); Step 0 0; CallCAwait KCancelCh; Step 1 0; Step 1 0;
                CallCSetPromise (Some 1); Step 2 0; Step 1 0; Step 1 0; Step 1 0;
                CallSet 1 5%N EDeadline; Step 3 0; Step 3 0; Step 1 0] in
  map pc (acts s) = [CSetRet false; ARet 5%N EDeadline (Some 1); CSetRet false; PSetRet 1 true 0] /\ quiescent s = true.
Proof. vm_compute. split; reflexivity. Qed.

Local Open Scope N_scope.
(* the extracted checker's function agrees with the D11 corpus history and reports the spinning observation *)
Example c11_example_check_d11 :
  run_check_promise [0] [[8;0;0;0]; [10;3;1]; [5;1;5;1;0]; [5;0;4;3;1]]
                        [[1;0;0]; [1;0;0;1;0;0]; [1;0;0;5;1;0]; [4;3;1;5;1;0]] = [] /\
  run_check_promise [0] [[8;0;0;0]; [10;3;1]; [5;1;5;1;0]; [5;0;7;0;0]]
                        [[1;0;0]; [1;0;0;1;0;0]; [1;0;0;5;1;0]; [7;0;0;5;1;0]]
    = [Mismatch 3%nat [4;3;1;5;1;0] [7;0;0;5;1;0]; PropFalse 11%nat 8%nat 3%nat].
Proof. vm_compute. split; reflexivity. Qed.

(* ... and on the D20 history the model AGREES with the implementation while monitor clause 7 is false *)
Example c11_example_check_d20 :
  run_check_promise [0] [[1]; [9;1]; [5;0;5;0;0]; [8;1;0;0]; [5;1;2;0;0]; [7;1;5]]
                        [[]; [1;0;0]; [5;0;0]; [5;0;0;1;0;0]; [5;0;0;2;0;0]; [5;0;0;2;0;0]] = [PropFalse 11%nat 7%nat 5%nat].
Proof. vm_compute. reflexivity. Qed.

(* error identity under an ended context: an awaiter whose context ended like a deadline (Err() = DeadlineExceeded, error 2) or
   was cancelled with a cause (error 98) must still be handed context.Canceled (error 1), by Promise (clause 2) and by the
   container (clause 3); the context's own error / cause is rejected, (0, Canceled) is what the model predicts
   (seeded change C16_4B: Promise.AwaitWithCancelCh returns context.Cause(ctx)) *)
Example c11_example_check_context_error_identity :
  run_check_promise [0] [[1]; [4;0;0;0;0;2;0;0]; [6;0]] [[]; [2;0;0]; [4;0;2]]
    = [Mismatch 2%nat [4;0;1] [4;0;2]; PropFalse 11%nat 2%nat 2%nat] /\
  run_check_promise [0] [[1]; [4;2;0;0;0;2;0;0]; [6;0]] [[]; [2;0;0]; [4;0;98]]
    = [Mismatch 2%nat [4;0;1] [4;0;98]; PropFalse 11%nat 2%nat 2%nat] /\
  run_check_promise [0] [[8;1;0;0]; [5;0;2;0;0]; [6;0]] [[1;0;0]; [2;0;0]; [4;0;2]]
    = [Mismatch 2%nat [4;0;1] [4;0;2]; PropFalse 11%nat 3%nat 2%nat] /\
  run_check_promise [0] [[1]; [4;0;0;0;0;2;0;0]; [6;0]] [[]; [2;0;0]; [4;0;1]] = [] /\
  run_check_promise [0] [[8;1;0;0]; [5;0;2;0;0]; [6;0]] [[1;0;0]; [2;0;0]; [4;0;1]] = [].
Proof. vm_compute. repeat split; reflexivity. Qed.

(* A SetResult on a promise that is already resolved is a no-op: it returns false (the new actor is finished with
   PSetRet p false) and leaves the promise table (up to the unobservable swap counter), the container and every other
   actor as they were.  The saturation history of the harness (thorough tier) relies on it: it makes 2^32 such calls on
   one promise and records only three of them as events. *)
Theorem c11_setresult_on_resolved_is_noop : forall s p v e q,
  nth_error (proms s) p = Some q -> isdone q = true ->
  let s' := step (step s (CallSet p v e)) (Step (length (acts s)) 0) in
  map forget (proms s') = map forget (proms s) /\ cb s' = cb s /\ cprom s' = cprom s /\
  acts s' = acts s ++ [new_actor (PSetRet p false (nswaps q))].
Proof. exact setresult_on_resolved_is_noop. Qed.
Print Assumptions c11_setresult_on_resolved_is_noop.
