From Util Require Import Common.Base Common.ListLemmas Promise.Model Promise.Spec Promise.Proofs.
