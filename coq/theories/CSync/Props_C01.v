(* C01 — csync locks: one writer or many readers, and only between acquire and release.
   Statements only.  "For all schedules" = for every list of events of the gate-level model
   (any number of calls, any interleaving of critical sections, cancellations, wake-ups and
   release calls). *)
From Util Require Import Common.Base Common.ListLemmas CSync.RWModel CSync.RWProofs CSync.MModel CSync.MProofs.
From Util Require Import CSync.RWSpec CSync.MSpec CSync.MonCore CSync.RWProofsMon CSync.MProofsMon.

(* RWMutex: at every reachable state at most one caller holds for writing at the API (between the
   return of Lock/TryLock and its first release call), and then nobody holds for reading *)
Theorem c01_rwmutex_exclusion : forall es,
  let s := run es in
  cnt apiW (acts s) <= 1 /\ (cnt apiW (acts s) = 1 -> cnt apiR (acts s) = 0).
Proof. exact exclusion. Qed.
Print Assumptions c01_rwmutex_exclusion.

(* the lock's own counters are exactly the numbers of calls that hold / wait (internal view) *)
Theorem c01_rwmutex_counters : forall es,
  let s := run es in
  nreaders s = cnt holdsR (acts s) /\ b2n (writing s) = cnt holdsW (acts s) /\ ww s = cnt waitsW (acts s)
  /\ (writing s = true -> nreaders s = 0).
Proof. exact run_inv. Qed.
Print Assumptions c01_rwmutex_counters.

(* a repeated release changes nothing at all *)
Theorem c01_rwmutex_release_idempotent : forall s a x,
  nth_error (acts s) a = Some x -> apc x <> LHeld Granted -> apc x <> THeld Granted ->
  step s (Release a) = s.
Proof. exact release_idempotent. Qed.
Print Assumptions c01_rwmutex_release_idempotent.

(* entering release() does not yet change the lock: the holder set shrinks at the API only *)
Theorem c01_rwmutex_release_entry_keeps_lock_state : forall s a,
  let s' := step s (Release a) in
  b s' = b s /\ nreaders s' = nreaders s /\ writing s' = writing s /\ ww s' = ww s.
Proof. exact release_first_keeps_lock_state. Qed.
Print Assumptions c01_rwmutex_release_entry_keeps_lock_state.

(* a TryLock that returns false leaves the lock and every other call untouched *)
Theorem c01_rwmutex_failed_trylock_inert : forall s a x,
  nth_error (acts s) a = Some x -> apc x = TStart ->
  apc (nth a (acts (step s (Sect a))) dflt) = TFalse ->
  let s' := step s (Sect a) in
  b s' = b s /\ nreaders s' = nreaders s /\ writing s' = writing s /\ ww s' = ww s /\
  forall k, k <> a -> nth_error (acts s') k = nth_error (acts s) k.
Proof. exact failed_trylock_inert. Qed.
Print Assumptions c01_rwmutex_failed_trylock_inert.

(* non-vacuity: two readers hold together; a writer holds alone *)
Example c01_example_two_readers :
  let s := run [CallLock false; CallLock false; Sect 0; Sect 1] in cnt apiR (acts s) = 2 /\ cnt apiW (acts s) = 0.
Proof. vm_compute. split; reflexivity. Qed.
Example c01_example_writer :
  let s := run [CallLock true; Sect 0; CallLock false; Sect 1; CallTry true; Sect 2] in
  cnt apiW (acts s) = 1 /\ cnt apiR (acts s) = 0 /\ cnt waitsW (acts s) = 0.
Proof. vm_compute. repeat split; reflexivity. Qed.

(* ---------------- Mutex ---------------- *)
Theorem c01_mutex_exclusion : forall es, cnt mapi (macts (mrun es)) <= 1.
Proof. exact mutex_exclusion. Qed.
Print Assumptions c01_mutex_exclusion.

Theorem c01_mutex_release_idempotent : forall s a x,
  nth_error (macts s) a = Some x -> mp x <> MHeld Granted -> mp x <> MTHeld Granted -> mstep s (MRelease a) = s.
Proof. exact mutex_release_idempotent. Qed.
Print Assumptions c01_mutex_release_idempotent.

Theorem c01_mutex_failed_trylock_inert : forall s a x,
  nth_error (macts s) a = Some x -> mp x = MTStart -> locked s = true ->
  let s' := mstep s (MSect a) in
  mb s' = mb s /\ locked s' = locked s /\ mp (nth a (macts s') mdflt) = MTFalse /\
  forall k, k <> a -> nth_error (macts s') k = nth_error (macts s) k.
Proof. exact mutex_failed_trylock_inert. Qed.
Print Assumptions c01_mutex_failed_trylock_inert.

Theorem c01_mutex_cancel_inert : forall s a x,
  nth_error (macts s) a = Some x ->
  let s' := mstep s (MCancelWake a) in mb s' = mb s /\ locked s' = locked s.
Proof. exact mutex_cancel_inert. Qed.
Print Assumptions c01_mutex_cancel_inert.

Example c01_example_mutex :
  let s := mrun [MCallLock; MSect 0; MCallLock; MSect 1; MCallTry; MSect 2] in
  cnt mapi (macts s) = 1 /\ cnt mblocked (macts s) = 1.
Proof. vm_compute. split; reflexivity. Qed.

(* ---------------- the monitors accept the models (ties RWSpec.mon / MSpec.mon_mutex to the proven models) ----------------
   For EVERY event list (no bound): whenever the Spec-level step function that run_check_rwmutex / run_check_mutex use
   (lstep hstep / lstep mhstep: the sync.Locker layer over the eager-schedule step, with the lockers state) accepts the
   events, the monitors those checkers use (lmon mon / lmon mon_mutex: clauses (1,1) (1,2) (1,3) of C01 and (2,1)-(2,4) of
   C02) report nothing on the model's own observations.  The models take no configuration: the statement holds for every
   cfg.  rw_step/rw_mon/mu_step/mu_mon are abbreviations for exactly the two arguments of run_check in RWSpec.v / MSpec.v. *)
Theorem c01_rwmutex_model_satisfies_monitors : forall evs,
  monitor (lmon mon (@length mact)) 0 ([], lockers0) [] evs
          (run_obs (lstep hstep (fun h => length (hmap h))) (hinit, lockers0) evs) = [].
Proof. exact model_satisfies_monitors. Qed.
Print Assumptions c01_rwmutex_model_satisfies_monitors.

Theorem c01_rwmutex_model_run_check_clean : forall cfg evs,
  length (run_obs (lstep hstep (fun h => length (hmap h))) (hinit, lockers0) evs) = length evs ->
  run_check_rwmutex cfg evs (run_obs (lstep hstep (fun h => length (hmap h))) (hinit, lockers0) evs) = [].
Proof. intros cfg evs Hl. exact (model_run_check_clean evs Hl cfg). Qed.
Print Assumptions c01_rwmutex_model_run_check_clean.

Theorem c01_mutex_model_satisfies_monitors : forall evs,
  monitor (lmon mon_mutex (@length mact)) 0 ([], lockers0) [] evs
          (run_obs (lstep mhstep (fun h => length (mhmap h))) (mhinit, lockers0) evs) = [].
Proof. exact mutex_model_satisfies_monitors. Qed.
Print Assumptions c01_mutex_model_satisfies_monitors.

Theorem c01_mutex_model_run_check_clean : forall cfg evs,
  length (run_obs (lstep mhstep (fun h => length (mhmap h))) (mhinit, lockers0) evs) = length evs ->
  run_check_mutex cfg evs (run_obs (lstep mhstep (fun h => length (mhmap h))) (mhinit, lockers0) evs) = [].
Proof. intros cfg evs Hl. exact (mutex_model_run_check_clean evs Hl cfg). Qed.
Print Assumptions c01_mutex_model_run_check_clean.

(* non-vacuity: a history with Locker events that the model accepts completely, and on which the checker is silent:
   Locker.Lock(write) granted, Locker.Lock(read) blocks, Unlock(write) + its section wakes and grants the reader,
   Unlock(read), Unlock(read) of the now empty read locker panics *)
Example c01_example_model_history :
  let evs := [[6; 1]; [3; 0]; [6; 0]; [3; 1]; [7; 1]; [3; 2]; [3; 1]; [7; 0]; [3; 3]; [7; 0]]%N in
  let obss := run_obs (lstep hstep (fun h => length (hmap h))) (hinit, lockers0) evs in
  length obss = length evs /\ last obss [] = [3; 3; 6; 6; 9]%N /\ run_check_rwmutex [] evs obss = [].
Proof. vm_compute. repeat split; reflexivity. Qed.
