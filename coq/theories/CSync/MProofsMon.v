(* Mutex: the monitors (mon_mutex through the sync.Locker layer, exactly what run_check_mutex evaluates) report nothing on
   the model's own observations, for every event list.  Same plan as RWProofsMon.v; every Mutex call is a writer, so the
   reader clauses (1,2), (2,1), (2,4) are vacuous and "registered waiting writer" is not tracked (dw = true). *)
From Util Require Import Common.Base Common.ListLemmas CSync.RWModel CSync.RWSpec CSync.MModel CSync.MProofs CSync.MSpec
  CSync.MonCore CSync.RWProofsMon.

(* ------------------------------------------------------------------ *)
(* descriptors of the Mutex model *)
Definition mheld (p : mpc) : bool := match p with MHeld _ | MTHeld _ => true | _ => false end.
Definition mrel_entered (p : mpc) : bool :=
  match p with MHeld Granted | MTHeld Granted => false | MHeld _ | MTHeld _ => true | _ => false end.
Definition mrelcalled (p : mpc) : bool := match p with MHeld RelCalled | MTHeld RelCalled => true | _ => false end.
Definition mkind (x : mactor) : N := (if m_is_lock_pc (mp x) then 1 else 3)%N.

Definition mddflt : desc := {| dk := 4; dc := 0; drel := false; dcanc := false; dw := true |}.
Definition mdesc_x (x : mactor) : desc :=
  {| dk := mkind x; dc := mcode_pc (mp x); drel := mrel_entered (mp x); dcanc := mc x; dw := true |}.
Definition mdesc_of (s : mst) (ha : hact) : desc :=
  match ha with
  | HCall k => match nth_error (macts s) k with Some x => mdesc_x x | None => mddflt end
  | _ => {| dk := 4; dc := mcode s ha; drel := false; dcanc := false; dw := true |}
  end.

Lemma mdesc_code s ha : dc (mdesc_of s ha) = mcode s ha.
Proof. destruct ha as [k|t f|]; cbn [mdesc_of]; [|reflexivity|reflexivity]. cbn [mcode]. destruct (nth_error (macts s) k); reflexivity. Qed.

Lemma mobs_desc h : mobs h = map dc (map (mdesc_of (mms h)) (mhmap h)).
Proof. unfold mobs. rewrite map_map. apply map_ext. intros ha. symmetry. apply mdesc_code. Qed.

Lemma mcode3_held p : mcode_pc p = 3%N <-> mheld p = true.
Proof. destruct p; cbn; split; intros H; try discriminate; reflexivity. Qed.
Lemma mcode2_wait p : mcode_pc p = 2%N -> exists ch, p = MWait ch.
Proof. destruct p; cbn; intros H; try discriminate. eauto. Qed.

(* ------------------------------------------------------------------ *)
(* pure facts about the program counters *)
Definition msect_pc (p p1 : mpc) : Prop :=
  p1 = p \/
  ((p = MStart \/ p = MWoken) /\ (p1 = MHeld Granted \/ (exists ch, p1 = MWait ch) \/ p1 = MCanceled)) \/
  (p = MTStart /\ (p1 = MTHeld Granted \/ p1 = MTFalse)) \/
  (p = MHeld RelCalled /\ p1 = MHeld Released) \/
  (p = MTHeld RelCalled /\ p1 = MTHeld Released).
Definition mwake_pc (p1 p' : mpc) : Prop := p' = p1 \/ (exists ch, p1 = MWait ch /\ p' = MWoken).
Definition mgiveup_pc (p1 p' : mpc) : Prop := p' = p1 \/ (exists ch, p1 = MWait ch /\ p' = MCanceled).
Definition mrelease_pc (p p' : mpc) : Prop :=
  p' = p \/ (p = MHeld Granted /\ p' = MHeld RelCalled) \/ (p = MTHeld Granted /\ p' = MTHeld RelCalled).

Definition mptr (p p' : mpc) : Prop :=
  m_is_lock_pc p' = m_is_lock_pc p /\ (mheld p = true -> mheld p' = true).

Lemma msect_wake_pcs p p1 p' : msect_pc p p1 -> mwake_pc p1 p' ->
  mptr p p' /\ mrel_entered p' = mrel_entered p /\
  (mrelcalled p' = true -> mrelcalled p = true) /\
  (forall ch, p' = MWait ch -> p1 = MWait ch).
Proof.
  unfold msect_pc, mwake_pc, mptr. intros HS HW.
  destruct HS as [HS|[([HS|HS] & [HS1|[(ch & HS1)|HS1]])|[(HS & [HS1|HS1])|[(HS & HS1)|(HS & HS1)]]]]; subst;
    destruct HW as [HW|(ch0 & HW & HW')]; subst; try discriminate;
    cbn [m_is_lock_pc mheld mrel_entered mrelcalled]; repeat split; intros; try discriminate; try congruence; auto.
Qed.

Lemma mgiveup_pcs p p' : mgiveup_pc p p' ->
  mptr p p' /\ mrel_entered p' = mrel_entered p /\ mrelcalled p' = mrelcalled p /\
  (forall ch, p' = MWait ch -> p = MWait ch).
Proof.
  unfold mgiveup_pc, mptr. intros [HW|(ch0 & HW & HW')]; subst;
    cbn [m_is_lock_pc mheld mrel_entered mrelcalled]; repeat split; intros; try discriminate; try congruence; auto.
Qed.

Lemma mrelease_pcs p p' : mrelease_pc p p' ->
  mptr p p' /\ (mrel_entered p = true -> mrel_entered p' = true) /\
  (p' = p \/ (mrel_entered p = false /\ mrel_entered p' = true)) /\
  (forall ch, p' = MWait ch -> p = MWait ch).
Proof.
  unfold mrelease_pc, mptr. intros [HW|[(HW & HW')|(HW & HW')]]; subst;
    cbn [m_is_lock_pc mheld mrel_entered mrelcalled]; repeat split; intros; try discriminate; try congruence; auto.
Qed.

(* ------------------------------------------------------------------ *)
(* what one model step does to one actor *)
Lemma mseta_get s a p k x : nth_error (macts s) k = Some x ->
  exists x', nth_error (mseta s a p) k = Some x' /\ mc x' = mc x /\
             ((k <> a /\ mp x' = mp x) \/ (k = a /\ mp x' = p)).
Proof.
  intros G. unfold mseta. destruct (nth_error (macts s) a) as [y|] eqn:Ga.
  - destruct (Nat.eq_dec k a) as [->|Hne].
    + rewrite nth_error_set_nth_same by (eapply nth_error_nth_len; eauto). rewrite G in Ga. inversion Ga; subst y.
      eexists. split; [reflexivity|]. cbn [mc mp]. auto.
    + rewrite nth_error_set_nth_other by exact Hne. exists x. repeat split; auto.
  - exists x. repeat split; auto. left. split; [|reflexivity]. intros ->. congruence.
Qed.

Lemma mseta_len s a p : length (mseta s a p) = length (macts s).
Proof. unfold mseta. destruct (nth_error (macts s) a); [apply length_set_nth | reflexivity]. Qed.

Lemma msect_actor s a k x : nth_error (macts s) k = Some x ->
  let s' := mstep s (MSect a) in
  exists x', nth_error (macts s') k = Some x' /\ mc x' = mc x /\
             msect_pc (mp x) (mp x') /\ (forall ch, mp x' = MWait ch -> mp x = MWait ch \/ mc x = false).
Proof.
  intros G. cbn zeta. cbn [mstep].
  destruct (nth_error (macts s) a) as [y|] eqn:Ga.
  2:{ exists x. repeat split; auto. now left. }
  assert (Hy : k = a -> y = x) by (intros ->; congruence).
  destruct y as [p c]. cbn [mp mc].
  destruct p as [|ch| |g| | |g|]; try destruct g;
    try (exists x; repeat split; auto; now left);
    try destruct (locked s); try destruct (getch (mb s)) as [b' ch']; try destruct c; cbn [macts];
    match goal with |- context [mseta s a ?p] => destruct (mseta_get s a p k x G) as (x' & Gx' & E2 & [[Hne E3]|[-> E3]]) end;
    exists x'; (split; [exact Gx'|]); (split; [exact E2|]);
    try (split; [left; exact E3 | intros ch0 Hp; left; congruence]);
    specialize (Hy eq_refl); subst x; unfold msect_pc; cbn [mp mc] in *; rewrite E3; (split; [srch | intros ch0 Hp; try discriminate; auto]).
Qed.

Lemma msect_len s a : length (macts (mstep s (MSect a))) = length (macts s).
Proof.
  cbn [mstep]. destruct (nth_error (macts s) a) as [y|]; [|reflexivity].
  destruct (mp y) as [|ch| |g| | |g|]; try destruct g; try reflexivity;
    try destruct (locked s); try destruct (getch (mb s)); cbn [macts]; apply mseta_len.
Qed.

Lemma mwake_actor s a k x : nth_error (macts s) k = Some x ->
  let s' := mstep s (MWake a) in
  exists x', nth_error (macts s') k = Some x' /\ mc x' = mc x /\ mwake_pc (mp x) (mp x') /\
             (k = a -> forall ch, mp x' = MWait ch -> closed (mb s) ch = false).
Proof.
  intros G. cbn zeta. cbn [mstep]. unfold mwake_pc.
  destruct (nth_error (macts s) a) as [y|] eqn:Ga.
  2:{ exists x. repeat split; auto. intros ->. congruence. }
  assert (Hy : k = a -> y = x) by (intros ->; congruence).
  destruct (mp y) as [|ch| |g| | |g|] eqn:Ep;
    try (exists x; repeat split; auto; intros Hk ch0 Hp; specialize (Hy Hk); subst y; congruence).
  destruct (closed (mb s) ch) eqn:Ec.
  - cbn [macts]. destruct (mseta_get s a MWoken k x G) as (x' & Gx' & E2 & [[Hne E3]|[-> E3]]); exists x'; repeat split; auto;
      try (intros Hk; contradiction); try (right; specialize (Hy eq_refl); subst y; eauto; fail); try (intros _ ch0 Hp; congruence).
  - exists x. repeat split; auto. intros Hk ch0 Hp. specialize (Hy Hk). subst y. rewrite Ep in Hp. inversion Hp; subst ch0. exact Ec.
Qed.

Lemma mwake_scalars s a : let s' := mstep s (MWake a) in
  mb s' = mb s /\ locked s' = locked s /\ length (macts s') = length (macts s).
Proof.
  cbn zeta. cbn [mstep]. destruct (nth_error (macts s) a) as [y|]; [|auto].
  destruct (mp y); auto. destruct (closed (mb s) ch); auto. cbn [mb locked macts]. rewrite mseta_len. auto.
Qed.

Lemma mwake_pc_trans p p1 p' : mwake_pc p p1 -> mwake_pc p1 p' -> mwake_pc p p'.
Proof.
  unfold mwake_pc. intros [A|(ch1 & A & A')] [B|(ch & B & B')]; subst; auto.
  - right. eauto.
  - right. eauto.
  - discriminate.
Qed.

Lemma mwakes_fold l : forall s, let s' := fold_left (fun s a => mstep s (MWake a)) l s in
  mb s' = mb s /\ locked s' = locked s /\ length (macts s') = length (macts s) /\
  forall k x, nth_error (macts s) k = Some x ->
    exists x', nth_error (macts s') k = Some x' /\ mc x' = mc x /\ mwake_pc (mp x) (mp x') /\
               (In k l -> forall ch, mp x' = MWait ch -> closed (mb s) ch = false).
Proof.
  induction l as [|a l IH]; intros s; cbn [fold_left].
  - repeat split; auto. intros k x G. exists x. repeat split; auto; [now left | intros []].
  - destruct (mwake_scalars s a) as (S1 & S2 & S3).
    destruct (IH (mstep s (MWake a))) as (T1 & T2 & T3 & TA).
    repeat split; try congruence.
    intros k x G. destruct (mwake_actor s a k x G) as (x1 & G1 & A2 & A3 & A4).
    destruct (TA k x1 G1) as (x' & G' & B2 & B3 & B4). exists x'.
    split; [exact G'|]. split; [congruence|]. split; [eapply mwake_pc_trans; eauto|].
    intros [<-|Hin] ch Hp.
    + destruct B3 as [B3|(ch0 & _ & B3')]; [|congruence]. apply A4; [reflexivity | congruence].
    + rewrite <- S1. now apply B4.
Qed.

Lemma msettle_facts s : let s' := msettle s in
  mb s' = mb s /\ locked s' = locked s /\ length (macts s') = length (macts s) /\
  forall k x, nth_error (macts s) k = Some x ->
    exists x', nth_error (macts s') k = Some x' /\ mc x' = mc x /\ mwake_pc (mp x) (mp x') /\
               (forall ch, mp x' = MWait ch -> closed (mb s') ch = false).
Proof.
  cbn zeta. unfold msettle. destruct (mwakes_fold (seq 0 (length (macts s))) s) as (T1 & T2 & T3 & TA).
  repeat split; auto. intros k x G. destruct (TA k x G) as (x' & G' & B2 & B3 & B4). exists x'. repeat split; auto.
  intros ch Hp. rewrite T1. apply B4; [|exact Hp]. apply in_seq. apply nth_error_nth_len in G. lia.
Qed.

Lemma msettle_run s : msettle s = fold_left mstep (map MWake (seq 0 (length (macts s)))) s.
Proof.
  unfold msettle. generalize (seq 0 (length (macts s))) as l. generalize s as s0.
  intros s0 l. revert s0. induction l as [|a l IH]; intros s0; cbn [fold_left map]; [reflexivity | apply IH].
Qed.

Lemma mcancelctx_actor s a k x : nth_error (macts s) k = Some x ->
  let s' := mstep s (MCancelCtx a) in
  exists x', nth_error (macts s') k = Some x' /\ mp x' = mp x /\ (k = a -> mc x' = true) /\ (k <> a -> mc x' = mc x).
Proof.
  intros G. cbn zeta. cbn [mstep].
  destruct (nth_error (macts s) a) as [y|] eqn:Ga.
  2:{ exists x. repeat split; auto. intros ->. congruence. }
  cbn [macts]. destruct (Nat.eq_dec k a) as [->|Hne].
  - rewrite nth_error_set_nth_same by (eapply nth_error_nth_len; eauto). rewrite G in Ga. inversion Ga; subst y.
    eexists. split; [reflexivity|]. cbn [mp mc]. repeat split; auto; try (intros Hc; congruence).
  - rewrite nth_error_set_nth_other by exact Hne. exists x. repeat split; auto; try (intros Hc; congruence).
Qed.

Lemma mcancelctx_scalars s a : let s' := mstep s (MCancelCtx a) in
  mb s' = mb s /\ locked s' = locked s /\ length (macts s') = length (macts s).
Proof.
  cbn zeta. cbn [mstep]. destruct (nth_error (macts s) a) as [y|]; [|auto].
  cbn [mb locked macts]. rewrite length_set_nth. auto.
Qed.

Lemma mcancelwake_actor s a k x : nth_error (macts s) k = Some x ->
  let s' := mstep s (MCancelWake a) in
  exists x', nth_error (macts s') k = Some x' /\ mc x' = mc x /\ mgiveup_pc (mp x) (mp x') /\
             (k = a -> mc x = true -> forall ch, mp x' <> MWait ch).
Proof.
  intros G. cbn zeta. cbn [mstep]. unfold mgiveup_pc.
  destruct (nth_error (macts s) a) as [y|] eqn:Ga.
  2:{ exists x. repeat split; auto. intros ->. congruence. }
  assert (Hy : k = a -> y = x) by (intros ->; congruence).
  destruct (mp y) as [|ch| |g| | |g|] eqn:Ep;
    try (exists x; repeat split; auto; intros Hk Hc ch0 Hp; specialize (Hy Hk); subst y; congruence).
  destruct (mc y) eqn:Ec.
  - cbn [macts]. destruct (mseta_get s a MCanceled k x G) as (x' & Gx' & E2 & [[Hne E3]|[-> E3]]); exists x'; repeat split; auto;
      try (intros Hk; contradiction); try (right; specialize (Hy eq_refl); subst y; eauto; fail); try (intros _ _ ch0 Hp; congruence).
  - exists x. repeat split; auto. intros Hk Hc. specialize (Hy Hk). subst y. congruence.
Qed.

Lemma mcancelwake_scalars s a : let s' := mstep s (MCancelWake a) in
  mb s' = mb s /\ locked s' = locked s /\ length (macts s') = length (macts s).
Proof.
  cbn zeta. cbn [mstep]. destruct (nth_error (macts s) a) as [y|]; [|auto].
  destruct (mp y); auto. destruct (mc y); auto. cbn [mb locked macts]. rewrite mseta_len. auto.
Qed.

Lemma mrelease_actor s a k x : nth_error (macts s) k = Some x ->
  let s' := mstep s (MRelease a) in
  exists x', nth_error (macts s') k = Some x' /\ mc x' = mc x /\ mrelease_pc (mp x) (mp x') /\ (k <> a -> mp x' = mp x) /\
             (k = a -> mheld (mp x) = true -> mrel_entered (mp x') = true).
Proof.
  intros G. cbn zeta. cbn [mstep]. unfold mrelease_pc.
  destruct (nth_error (macts s) a) as [y|] eqn:Ga.
  2:{ exists x. repeat split; auto. intros ->. congruence. }
  assert (Hy : k = a -> y = x) by (intros ->; congruence).
  destruct (mp y) as [|ch| |g| | |g|] eqn:Ep; try destruct g;
    try (exists x; repeat split; auto; intros Hk Hh; specialize (Hy Hk); subst y; rewrite Ep in *; try discriminate; reflexivity).
  - cbn [macts]. destruct (mseta_get s a (MHeld RelCalled) k x G) as (x' & Gx' & E2 & [[Hne E3]|[-> E3]]); exists x'; repeat split; auto;
      try (intros Hk; contradiction); try (right; specialize (Hy eq_refl); subst y; auto; fail); try (intros _ _; now rewrite E3).
  - cbn [macts]. destruct (mseta_get s a (MTHeld RelCalled) k x G) as (x' & Gx' & E2 & [[Hne E3]|[-> E3]]); exists x'; repeat split; auto;
      try (intros Hk; contradiction); try (right; specialize (Hy eq_refl); subst y; auto; fail); try (intros _ _; now rewrite E3).
Qed.

Lemma mrelease_scalars s a : let s' := mstep s (MRelease a) in
  mb s' = mb s /\ locked s' = locked s /\ length (macts s') = length (macts s).
Proof.
  cbn zeta. cbn [mstep]. destruct (nth_error (macts s) a) as [y|]; [|auto].
  destruct (mp y) as [| | |[]| | |[]|]; auto; cbn [mb locked macts]; rewrite mseta_len; auto.
Qed.

(* ------------------------------------------------------------------ *)
(* the accepted harness events *)
Inductive mhcase (h : mhst) : list N -> mhst -> Prop :=
| MHC_lock w : mhcase h [1; w]%N {| mms := mstep (mms h) MCallLock; mhmap := mhmap h ++ [HCall (length (macts (mms h)))] |}
| MHC_try w : mhcase h [2; w]%N {| mms := mstep (mms h) MCallTry; mhmap := mhmap h ++ [HCall (length (macts (mms h)))] |}
| MHC_sect i m x :
    nth_error (mhmap h) (N.to_nat i) = Some (HCall m) \/ nth_error (mhmap h) (N.to_nat i) = Some (HRel m true) ->
    nth_error (macts (mms h)) m = Some x ->
    mhcase h [3; i]%N {| mms := msettle (mstep (mms h) (MSect m)); mhmap := mhmap h |}
| MHC_cancel i m x :
    nth_error (mhmap h) (N.to_nat i) = Some (HCall m) -> nth_error (macts (mms h)) m = Some x ->
    mhcase h [4; i]%N {| mms := mstep (mstep (mms h) (MCancelCtx m)) (MCancelWake m); mhmap := mhmap h |}
| MHC_rel i m x g :
    nth_error (mhmap h) (N.to_nat i) = Some (HCall m) -> nth_error (macts (mms h)) m = Some x ->
    mp x = MHeld g \/ mp x = MTHeld g ->
    mhcase h [5; i]%N {| mms := mstep (mms h) (MRelease m); mhmap := mhmap h ++ [HRel m (match g with Granted => true | _ => false end)] |}
| MHC_panic : mhcase h [8]%N {| mms := mms h; mhmap := mhmap h ++ [HPanic] |}.

Opaque mstep msettle.
Lemma mhstep_cases h e h' o : mhstep h e = Some (h', o) -> mhcase h e h' /\ o = mobs h'.
Proof.
  unfold mhstep. intros H.
  repeat (match type of H with context [match ?t with _ => _ end] => destruct t eqn:?; try discriminate H end).
  all: injection H as Hs Ho; subst o; subst h'; split; [|reflexivity].
  all: try (econstructor; eauto; fail).
  all: match goal with
       | Hp : mp ?a = MHeld ?g |- _ => eapply (MHC_rel h _ _ a g); eauto
       | Hp : mp ?a = MTHeld ?g |- _ => eapply (MHC_rel h _ _ a g); eauto
       end.
Qed.
Transparent mstep msettle.

(* ------------------------------------------------------------------ *)
Definition mwaiters_ok (s : mst) : Prop :=
  forall a x ch, nth_error (macts s) a = Some x -> mp x = MWait ch -> closed (mb s) ch = false /\ mc x = false.

Definition MHI (h : mhst) : Prop :=
  (exists es, mms h = mrun es) /\
  calls (mhmap h) = seq 0 (length (macts (mms h))) /\
  (forall t x, nth_error (macts (mms h)) t = Some x -> mrelcalled (mp x) = true -> In (HRel t true) (mhmap h)) /\
  mwaiters_ok (mms h).

Definition mafacts (s' : mst) (relm cancm : option nat) (k : nat) (x x' : mactor) : Prop :=
  mptr (mp x) (mp x') /\
  mrel_entered (mp x') = mrel_entered (mp x) || tgt relm k /\
  mc x' = mc x || tgt cancm k /\
  (mrelcalled (mp x') = true -> mrelcalled (mp x) = true \/ (tgt relm k = true /\ mrel_entered (mp x) = false)) /\
  (forall ch, mp x' = MWait ch -> closed (mb s') ch = false /\ mc x' = false).

Definition all_mafacts (s s' : mst) (relm cancm : option nat) : Prop :=
  forall k x, nth_error (macts s) k = Some x -> exists x', nth_error (macts s') k = Some x' /\ mafacts s' relm cancm k x x'.

Lemma mafacts_same s k x : mwaiters_ok s -> nth_error (macts s) k = Some x -> mafacts s None None k x x.
Proof.
  intros Hw G. unfold mafacts, mptr. cbn [tgt]. rewrite !orb_false_r.
  repeat split; auto; eapply Hw; eauto.
Qed.

Lemma mcall_afacts s ev nw : mwaiters_ok s ->
  macts (mstep s ev) = macts s ++ [nw] -> mb (mstep s ev) = mb s ->
  all_mafacts s (mstep s ev) None None.
Proof.
  intros Hw Ha Hb k x G. exists x. split.
  - rewrite Ha, nth_error_app1; [exact G | eapply nth_error_nth_len; eauto].
  - destruct (mafacts_same s k x Hw G) as (A1 & A2 & A3 & A4 & A5). unfold mafacts. repeat split; auto; try apply A1.
    + rewrite Hb. eapply Hw; eauto.
    + eapply Hw; eauto.
Qed.

Lemma msect_afacts s m : mwaiters_ok s -> all_mafacts s (msettle (mstep s (MSect m))) None None.
Proof.
  intros Hw k x G.
  destruct (msect_actor s m k x G) as (x1 & G1 & A2 & A4 & A6).
  destruct (msettle_facts (mstep s (MSect m))) as (T1 & T2 & T3 & TA).
  destruct (TA k x1 G1) as (x' & G' & B2 & B3 & B4). exists x'. split; [exact G'|].
  destruct (msect_wake_pcs _ _ _ A4 B3) as (P1 & P5 & P7 & P8).
  unfold mafacts. cbn [tgt]. rewrite !orb_false_r.
  split; [exact P1|]. split; [exact P5|]. split; [congruence|]. split; [auto|].
  intros ch Hp. split; [now apply B4|]. rewrite B2, A2.
  destruct (A6 ch (P8 ch Hp)) as [Hx|Hx]; [|exact Hx]. eapply Hw; eauto.
Qed.

Lemma msect_settle_len s m : length (macts (msettle (mstep s (MSect m)))) = length (macts s).
Proof. destruct (msettle_facts (mstep s (MSect m))) as (T1 & T2 & T3 & TA). rewrite T3. apply msect_len. Qed.

Lemma mcancel_afacts s m : mwaiters_ok s -> all_mafacts s (mstep (mstep s (MCancelCtx m)) (MCancelWake m)) None (Some m).
Proof.
  intros Hw k x G.
  destruct (mcancelctx_actor s m k x G) as (x1 & G1 & A2 & A3 & A4).
  destruct (mcancelctx_scalars s m) as (S1 & _ & _).
  destruct (mcancelwake_actor (mstep s (MCancelCtx m)) m k x1 G1) as (x' & G' & B2 & B3 & B4).
  destruct (mcancelwake_scalars (mstep s (MCancelCtx m)) m) as (T1 & _ & _).
  exists x'. split; [exact G'|]. rewrite A2 in B3.
  destruct (mgiveup_pcs _ _ B3) as (P1 & P5 & P7 & P8).
  unfold mafacts. cbn [tgt]. rewrite !orb_false_r.
  split; [exact P1|]. split; [exact P5|]. split; [|split].
  - rewrite B2. destruct (Nat.eqb_spec k m) as [E|E]; [rewrite (A3 E); now rewrite orb_true_r | rewrite (A4 E); now rewrite orb_false_r].
  - intros Hr. left. congruence.
  - intros ch Hp. rewrite T1, S1. pose proof (P8 ch Hp) as Hp0.
    destruct (Nat.eq_dec k m) as [E|E].
    + exfalso. apply (B4 E (A3 E) ch). exact Hp.
    + rewrite B2, (A4 E). eapply Hw; eauto.
Qed.

Lemma mrelease_afacts s m x0 : mwaiters_ok s -> nth_error (macts s) m = Some x0 -> mheld (mp x0) = true ->
  all_mafacts s (mstep s (MRelease m)) (Some m) None.
Proof.
  intros Hw G0 Hh0 k x G.
  destruct (mrelease_actor s m k x G) as (x' & G' & A2 & A3 & A3n & A4).
  destruct (mrelease_scalars s m) as (S1 & _ & _).
  exists x'. split; [exact G'|].
  destruct (mrelease_pcs _ _ A3) as (P1 & P5 & P6 & P8).
  unfold mafacts. cbn [tgt]. rewrite !orb_false_r.
  split; [exact P1|]. split; [|split; [exact A2|split]].
  - destruct (Nat.eqb_spec k m) as [E|E].
    + subst k. assert (x = x0) by congruence. subst x0. rewrite (A4 eq_refl Hh0). now rewrite orb_true_r.
    + rewrite orb_false_r. now rewrite (A3n E).
  - intros Hr. destruct (Nat.eqb_spec k m) as [E|E]; [|left; rewrite <- (A3n E); exact Hr].
    destruct P6 as [P6|[P6 _]]; [left; congruence | right; auto].
  - intros ch Hp. rewrite S1, A2. eapply Hw; eauto.
Qed.

Lemma mafacts_waiters s s' R C : length (macts s') = length (macts s) -> all_mafacts s s' R C -> mwaiters_ok s'.
Proof.
  intros Hl HA a x' ch G' Hp.
  destruct (nth_error_len_some (macts s) a) as (x & G); [rewrite <- Hl; eapply nth_error_nth_len; eauto|].
  destruct (HA a x G) as (x'' & G'' & (_ & _ & _ & _ & H6)). assert (x'' = x') by congruence. subst x''. auto.
Qed.

Lemma mrun_snoc es e : mrun (es ++ [e]) = mstep (mrun es) e.
Proof. unfold mrun. now rewrite fold_left_app. Qed.
Lemma mrun_app es es' : mrun (es ++ es') = fold_left mstep es' (mrun es).
Proof. unfold mrun. now rewrite fold_left_app. Qed.

Lemma mhcase_HI h e h' : MHI h -> mhcase h e h' -> MHI h'.
Proof.
  intros ((es & Es) & Hcalls & Hrel & Hw) Hc. destruct Hc as [w|w|i m x Hi Gx|i m x Hi Gx|i m x g Hi Gx Hg|]; unfold MHI; cbn [mms mhmap].
  - assert (Ea : macts (mstep (mms h) MCallLock) = macts (mms h) ++ [{| mp := MStart; mc := false |}]) by reflexivity.
    split; [exists (es ++ [MCallLock]); now rewrite mrun_snoc, Es|].
    split; [rewrite calls_app, Hcalls, Ea, app_length; cbn [calls length]; now rewrite Nat.add_1_r, seq_S|].
    split.
    + intros t y G Hr. rewrite Ea in G. apply nth_error_app_inv in G as [G| ->]; [|discriminate]. apply in_or_app. left. eauto.
    + intros a y ch G Hp. rewrite Ea in G. apply nth_error_app_inv in G as [G| ->]; [|discriminate]. eapply Hw; eauto.
  - assert (Ea : macts (mstep (mms h) MCallTry) = macts (mms h) ++ [{| mp := MTStart; mc := false |}]) by reflexivity.
    split; [exists (es ++ [MCallTry]); now rewrite mrun_snoc, Es|].
    split; [rewrite calls_app, Hcalls, Ea, app_length; cbn [calls length]; now rewrite Nat.add_1_r, seq_S|].
    split.
    + intros t y G Hr. rewrite Ea in G. apply nth_error_app_inv in G as [G| ->]; [|discriminate]. apply in_or_app. left. eauto.
    + intros a y ch G Hp. rewrite Ea in G. apply nth_error_app_inv in G as [G| ->]; [|discriminate]. eapply Hw; eauto.
  - pose proof (msect_afacts (mms h) m Hw) as HA. pose proof (msect_settle_len (mms h) m) as Hl.
    split; [exists (es ++ MSect m :: map MWake (seq 0 (length (macts (mstep (mms h) (MSect m)))))); rewrite mrun_app, <- Es; cbn [fold_left]; apply msettle_run|].
    split; [now rewrite Hl|]. split; [|eapply mafacts_waiters; eauto].
    intros t y' G' Hr.
    destruct (nth_error_len_some (macts (mms h)) t) as (y & G); [rewrite <- Hl; eapply nth_error_nth_len; eauto|].
    destruct (HA t y G) as (y'' & G'' & (_ & _ & _ & H5 & _)). assert (y'' = y') by congruence. subst y''.
    destruct (H5 Hr) as [H|[H _]]; [eauto | discriminate].
  - pose proof (mcancel_afacts (mms h) m Hw) as HA.
    assert (Hl : length (macts (mstep (mstep (mms h) (MCancelCtx m)) (MCancelWake m))) = length (macts (mms h))).
    { destruct (mcancelwake_scalars (mstep (mms h) (MCancelCtx m)) m) as (_ & _ & ->).
      now destruct (mcancelctx_scalars (mms h) m) as (_ & _ & ->). }
    split; [exists (es ++ [MCancelCtx m; MCancelWake m]); now rewrite mrun_app, <- Es|].
    split; [now rewrite Hl|]. split; [|eapply mafacts_waiters; eauto].
    intros t y' G' Hr.
    destruct (nth_error_len_some (macts (mms h)) t) as (y & G); [rewrite <- Hl; eapply nth_error_nth_len; eauto|].
    destruct (HA t y G) as (y'' & G'' & (_ & _ & _ & H5 & _)). assert (y'' = y') by congruence. subst y''.
    destruct (H5 Hr) as [H|[H _]]; [eauto | discriminate].
  - assert (Hh : mheld (mp x) = true) by (destruct Hg as [-> | ->]; reflexivity).
    pose proof (mrelease_afacts (mms h) m x Hw Gx Hh) as HA.
    destruct (mrelease_scalars (mms h) m) as (_ & _ & Hl).
    split; [exists (es ++ [MRelease m]); now rewrite mrun_snoc, Es|].
    split; [rewrite calls_app, Hl; cbn [calls]; now rewrite app_nil_r|]. split; [|eapply mafacts_waiters; eauto].
    intros t y' G' Hr. apply in_or_app.
    destruct (nth_error_len_some (macts (mms h)) t) as (y & G); [rewrite <- Hl; eapply nth_error_nth_len; eauto|].
    destruct (HA t y G) as (y'' & G'' & (_ & _ & _ & H5 & _)). assert (y'' = y') by congruence. subst y''.
    destruct (H5 Hr) as [H|[Ht Hre]]; [left; eauto|]. right. cbn [tgt] in Ht. apply Nat.eqb_eq in Ht. subst t.
    assert (y = x) by congruence. subst y.
    destruct Hg as [Hg|Hg]; rewrite Hg in Hre; destruct g; try discriminate; now left.
  - split; [eauto|]. split; [rewrite calls_app; cbn [calls]; now rewrite app_nil_r|].
    split; [|exact Hw]. intros t y G Hr. apply in_or_app. left. eauto.
Qed.

(* ------------------------------------------------------------------ *)
Lemma mcode_nocall s ha : (forall k, ha <> HCall k) -> mcode s ha <> 3%N /\ mcode s ha <> 2%N.
Proof.
  destruct ha as [k|t f|]; intros Hn; [exfalso; eapply Hn; eauto| |cbn; split; discriminate].
  cbn [mcode]. destruct f; [|split; discriminate]. destruct (nth_error (macts s) t) as [x|]; [|split; discriminate].
  destruct (mp x) as [| | |[]| | |[]|]; split; discriminate.
Qed.

Lemma mkind_ne0 x : mkind x <> 0%N.
Proof. unfold mkind. destruct (m_is_lock_pc (mp x)); discriminate. Qed.

Lemma mq1_existing s s' relm cancm (nw : Prop) m m' ha :
  all_mafacts s s' relm cancm ->
  (forall k, ha = HCall k -> k < length (macts s)) ->
  Rd m (mdesc_of s ha) ->
  mk m' = mk m -> mreg m' = mreg m -> mgranted m' = mgranted m ->
  mrel m' = mrel m || tgt_h relm ha -> mcanc m' = mcanc m || tgt_h cancm ha ->
  Q1 nw m' (mdesc_of s' ha).
Proof.
  intros HA Hlt (R1 & R2 & R3 & R4 & R5) E1 E2 E3 E4 E5.
  destruct ha as [k|t f|].
  - destruct (nth_error_len_some (macts s) k (Hlt k eq_refl)) as (x & G).
    destruct (HA k x G) as (x' & G' & ((T2 & T3) & F2 & F3 & _)).
    cbn [mdesc_of tgt_h] in *. rewrite G in *. rewrite G'. cbn [mdesc_x dk dc drel dcanc dw] in *.
    assert (Ek : mkind x' = mkind x) by (unfold mkind; now rewrite T2).
    unfold Q1. cbn [mdesc_x dk dc drel dcanc dw].
    split; [congruence|]. split; [congruence|]. split; [congruence|].
    split; [reflexivity|]. split; [reflexivity|]. split.
    + intros Hg. rewrite E3, R5 in Hg. apply N.eqb_eq in Hg. apply mcode3_held. apply T3. now apply mcode3_held.
    + intros _ Hk. exfalso. unfold d_isr in Hk. cbn [mdesc_x dk] in Hk. unfold mkind in Hk. destruct (m_is_lock_pc (mp x')); discriminate Hk.
  - cbn [mdesc_of tgt_h] in *. rewrite !orb_false_r in *. unfold Q1. cbn [dk dc drel dcanc dw] in *.
    destruct (mcode_nocall s (HRel t f)) as [N3 _]; [intros k; discriminate|].
    repeat split; try congruence; intros; try discriminate.
    rewrite E3, R5 in H. apply N.eqb_eq in H. contradiction.
  - cbn [mdesc_of tgt_h] in *. rewrite !orb_false_r in *. unfold Q1. cbn [dk dc drel dcanc dw] in *.
    repeat split; try congruence; intros; try discriminate.
    rewrite E3, R5 in H. discriminate H.
Qed.

Lemma mq1_list s s' relm cancm hm ml ml' (nw : Prop) :
  all_mafacts s s' relm cancm ->
  (forall k, In (HCall k) hm -> k < length (macts s)) ->
  Forall2 Rd ml (map (mdesc_of s) hm) ->
  length ml' = length ml ->
  (forall j m m' ha, nth_error ml j = Some m -> nth_error ml' j = Some m' -> nth_error hm j = Some ha ->
     mk m' = mk m /\ mreg m' = mreg m /\ mgranted m' = mgranted m /\
     mrel m' = mrel m || tgt_h relm ha /\ mcanc m' = mcanc m || tgt_h cancm ha) ->
  Forall2 (Q1 nw) ml' (map (mdesc_of s') hm).
Proof.
  intros HA Hlt HF Hl Hupd. pose proof (Forall2_len _ _ _ HF) as Hl2. rewrite map_length in Hl2.
  apply Forall2_nth_intro; [rewrite map_length; congruence|].
  intros j m' d' G1 G2. rewrite nth_error_map in G2.
  destruct (nth_error hm j) as [ha|] eqn:Gh; [|discriminate]. cbn [option_map] in G2. inversion G2; subst d'.
  destruct (nth_error_len_some ml j) as (m & Gm); [rewrite <- Hl; eapply nth_error_nth_len; eauto|].
  destruct (Forall2_nth_l _ _ _ HF j m Gm) as (d & Gd & HR). rewrite nth_error_map, Gh in Gd. cbn [option_map] in Gd. inversion Gd; subst d.
  destruct (Hupd j m m' ha Gm G1 Gh) as (E1 & E2 & E3 & E4 & E5).
  eapply mq1_existing; eauto. intros k ->. apply Hlt. eapply nth_error_In; eauto.
Qed.

Lemma mq1_list_upd s s' relm cancm hm ml i f (nw : Prop) :
  all_mafacts s s' relm cancm ->
  (forall k, In (HCall k) hm -> k < length (macts s)) ->
  Forall2 Rd ml (map (mdesc_of s) hm) ->
  (forall m, mk (f m) = mk m /\ mreg (f m) = mreg m /\ mgranted (f m) = mgranted m) ->
  (forall j ha m, nth_error hm j = Some ha -> nth_error ml j = Some m ->
     mrel (if Nat.eqb j i then f m else m) = mrel m || tgt_h relm ha /\
     mcanc (if Nat.eqb j i then f m else m) = mcanc m || tgt_h cancm ha) ->
  Forall2 (Q1 nw) (upd ml i f) (map (mdesc_of s') hm).
Proof.
  intros HA Hlt HF Hf Hrc. eapply mq1_list; eauto; [apply upd_len|].
  intros j m m' ha Gm Gm' Gh. rewrite nth_error_upd, Gm in Gm'. destruct (Hrc j ha m Gh Gm) as [Hr Hc].
  destruct (Nat.eqb j i); cbn [option_map] in Gm'; inversion Gm'; subst m'.
  - destruct (Hf m) as (F1 & F2 & F3). auto.
  - auto.
Qed.

Lemma mq1_list_id s s' hm ml (nw : Prop) :
  all_mafacts s s' None None ->
  (forall k, In (HCall k) hm -> k < length (macts s)) ->
  Forall2 Rd ml (map (mdesc_of s) hm) ->
  Forall2 (Q1 nw) ml (map (mdesc_of s') hm).
Proof.
  intros HA Hlt HF. eapply mq1_list; eauto.
  intros j m m' ha Gm Gm' Gh. assert (m' = m) by congruence. subst m'.
  destruct ha; cbn [tgt_h tgt]; rewrite !orb_false_r; auto.
Qed.

(* ------------------------------------------------------------------ *)
Lemma mhW_api x : h_holdsW (mdesc_x x) = mapi x.
Proof. destruct x as [p c]. destruct p as [| | |[]| | |[]|]; reflexivity. Qed.

Lemma mdcount_calls (hf : desc -> bool) (P : mactor -> bool) s hm :
  (forall x, hf (mdesc_x x) = P x) -> (forall d, dk d = 4%N -> hf d = false) ->
  calls hm = seq 0 (length (macts s)) ->
  count_b (map hf (map (mdesc_of s) hm)) = cnt P (macts s).
Proof.
  intros H1 H2 Hc. rewrite map_map.
  rewrite (count_calls (fun ha => hf (mdesc_of s ha)) (fun k => match nth_error (macts s) k with Some x => P x | None => false end)).
  - rewrite Hc. apply count_seq.
  - intros k. cbn [mdesc_of]. destruct (nth_error (macts s) k); [apply H1 | now apply H2].
  - intros t f. now apply H2.
  - now apply H2.
Qed.

Lemma mhi_call h k x : MHI h -> nth_error (macts (mms h)) k = Some x -> In (HCall k) (mhmap h).
Proof.
  intros (_ & Hc & _) G. apply In_calls. rewrite Hc. apply in_seq. apply nth_error_nth_len in G. lia.
Qed.

Lemma mhi_call_lt h k : MHI h -> In (HCall k) (mhmap h) -> k < length (macts (mms h)).
Proof. intros (_ & Hc & _) Hin. apply In_calls in Hin. rewrite Hc in Hin. apply in_seq in Hin. lia. Qed.

Lemma mhi_quiescent h : MHI h -> dquiet (map (mdesc_of (mms h)) (mhmap h)) = true -> mquiescent (mms h) = true.
Proof.
  intros HH Hq. pose proof HH as (_ & _ & Hrel & Hw). unfold dquiet in Hq. apply negb_true_iff in Hq.
  assert (Hno : forall ha, In ha (mhmap h) -> mcode (mms h) ha <> 1%N).
  { intros ha Hin E. rewrite <- not_true_iff_false in Hq. apply Hq. apply existsb_exists. exists 1%N. split; [|reflexivity].
    rewrite <- E, <- mdesc_code. apply in_map. now apply in_map. }
  unfold mquiescent. apply forallb_forall. intros x Hin. destruct (In_nth_error _ _ Hin) as (k & G).
  pose proof (Hno _ (mhi_call h k x HH G)) as Hc. cbn [mcode] in Hc. rewrite G in Hc.
  assert (Hr : mrelcalled (mp x) = false).
  { destruct (mrelcalled (mp x)) eqn:Er; [|reflexivity]. exfalso. pose proof (Hno _ (Hrel k x G Er)) as Hc2. cbn [mcode] in Hc2. rewrite G in Hc2.
    destruct (mp x) as [| | |[]| | |[]|]; try discriminate; now apply Hc2. }
  unfold mat_gate. destruct (mp x) as [|ch| |[]| | |[]|] eqn:Ep; cbn [mcode_pc mrelcalled negb andb] in *; try reflexivity; try (exfalso; now apply Hc); try discriminate.
  destruct (Hw k x ch G Ep) as [-> ->]. reflexivity.
Qed.

Lemma count_b_zero (l : list bool) : (forall x, In x l -> x = false) -> count_b l = 0.
Proof.
  unfold count_b. induction l as [|h t IH]; intros H; [reflexivity|]. cbn [filter].
  rewrite (H h (or_introl eq_refl)). apply IH. intros x Hx. apply H. now right.
Qed.

Lemma mdesc_kind s ha : dk (mdesc_of s ha) <> 0%N.
Proof.
  destruct ha as [k|t f|]; cbn [mdesc_of dk]; try discriminate.
  destruct (nth_error (macts s) k) as [x|]; cbn [mdesc_x mddflt dk]; [apply mkind_ne0 | discriminate].
Qed.

Lemma mhi_clauses h : MHI h -> clauses_ok (map (mdesc_of (mms h)) (mhmap h)).
Proof.
  intros HH. pose proof HH as ((es & Es) & Hcalls & Hrel & Hw).
  set (ds := map (mdesc_of (mms h)) (mhmap h)).
  assert (EW : dholdsW ds = cnt mapi (macts (mms h))).
  { unfold dholdsW, ds. apply mdcount_calls; [apply mhW_api | | exact Hcalls]. intros d Hd. unfold h_holdsW, d_isw. now rewrite Hd. }
  assert (ER : dholdsR ds = 0).
  { unfold dholdsR. apply count_b_zero. intros x Hin. apply in_map_iff in Hin as (d & <- & Hin).
    unfold ds in Hin. apply in_map_iff in Hin as (ha & <- & _). unfold h_holdsR, d_isr.
    destruct ha as [k|t f|]; cbn [mdesc_of dk]; try reflexivity.
    destruct (nth_error (macts (mms h)) k) as [x|]; [|reflexivity]. cbn [mdesc_x dk]. unfold mkind. destruct (m_is_lock_pc (mp x)); reflexivity. }
  pose proof (mutex_exclusion es) as X1. rewrite <- Es in X1.
  unfold clauses_ok. fold ds. rewrite EW, ER.
  split; [exact X1|]. split; [reflexivity|]. split; [|split].
  - intros _ Hb. exfalso. apply existsb_exists in Hb as (d & Hin & Hd). unfold ds in Hin. apply in_map_iff in Hin as (ha & <- & _).
    unfold h_blockedR in Hd. apply andb_true_iff in Hd as [Hk _]. apply N.eqb_eq in Hk. exact (mdesc_kind _ _ Hk).
  - intros Hq Hb. apply (mhi_quiescent h HH) in Hq.
    apply existsb_exists in Hb as (d & Hin & Hd). unfold ds in Hin. apply in_map_iff in Hin as (ha & <- & Hin).
    unfold h_blockedW in Hd. apply andb_true_iff in Hd as [Hk Hc]. apply N.eqb_eq in Hk. apply N.eqb_eq in Hc.
    destruct ha as [k|t f|]; cbn [mdesc_of dk] in Hk; try discriminate.
    cbn [mdesc_of] in Hc. destruct (nth_error (macts (mms h)) k) as [x|] eqn:G; [|discriminate].
    cbn [mdesc_x dc] in Hc. destruct (mcode2_wait _ Hc) as (ch & Hp).
    rewrite Es in Hq, G.
    destruct (mutex_quiescent_blocked_has_holder es k x ch Hq G Hp) as (k' & y & G' & Hy). rewrite <- Es in G'.
    pose proof (nth_error_cnt_pos mapi _ _ _ G' Hy). lia.
  - apply existsb_false_all. intros d Hin. unfold ds in Hin. apply in_map_iff in Hin as (ha & <- & Hin).
    unfold h_canc. destruct ha as [k|t f|]; cbn [mdesc_of dcanc]; try reflexivity.
    destruct (nth_error (macts (mms h)) k) as [x|] eqn:G; [|reflexivity]. cbn [mdesc_x dcanc dc].
    destruct (N.eqb_spec (mcode_pc (mp x)) 2) as [E|E]; [|apply andb_false_r].
    destruct (mcode2_wait _ E) as (ch & Hp). destruct (Hw k x ch G Hp) as [_ ->]. reflexivity.
Qed.

(* ------------------------------------------------------------------ *)
Definition MR (ml : list mact) (h : mhst) : Prop := MHI h /\ Forall2 Rd ml (map (mdesc_of (mms h)) (mhmap h)).

(* the event as [mon_mutex] hands it to [mon] *)
Definition mtr_ev (e : list N) : list N := match e with [1; _] => [1; 1] | [2; _] => [2; 1] | _ => e end%N.
Lemma mon_mutex_eq ml e o : mon_mutex ml e o = mon ml (mtr_ev e) o.
Proof. reflexivity. Qed.

Lemma mhcase_q1 ml h e h' (nw : Prop) : MR ml h -> mhcase h e h' ->
  Forall2 (Q1 nw) (mon_ev ml (mtr_ev e)) (map (mdesc_of (mms h')) (mhmap h')).
Proof.
  intros [HH HF] Hc. pose proof HH as (_ & Hcalls & _ & Hw).
  assert (Hlt : forall k, In (HCall k) (mhmap h) -> k < length (macts (mms h))) by (intros k; apply mhi_call_lt; exact HH).
  assert (Hnd : NoDup (calls (mhmap h))) by (rewrite Hcalls; apply seq_NoDup).
  destruct Hc as [w|w|i m x Hi Gx|i m x Hi Gx|i m x g Hi Gx Hg|]; cbn [mms mhmap mtr_ev] in *.
  - rewrite mon_ev_lock, map_app. cbn [map]. apply Forall2_snoc.
    + eapply mq1_list_id; eauto. eapply mcall_afacts; eauto; reflexivity.
    + apply q1_new; cbn [mdesc_of mstep macts];
        rewrite nth_error_app2, Nat.sub_diag by lia; cbn [nth_error mdesc_x dk dc drel dcanc]; try reflexivity; try discriminate.
  - rewrite mon_ev_try, map_app. cbn [map]. apply Forall2_snoc.
    + eapply mq1_list_id; eauto. eapply mcall_afacts; eauto; reflexivity.
    + apply q1_new; cbn [mdesc_of mstep macts];
        rewrite nth_error_app2, Nat.sub_diag by lia; cbn [nth_error mdesc_x dk dc drel dcanc]; try reflexivity; try discriminate.
  - destruct (mon_ev_sect ml i) as (regs & ->).
    eapply (mq1_list_upd (mms h) _ None None); [apply msect_afacts; exact Hw | exact Hlt | exact HF | intros m0; destruct (m_first_fields regs m0) as (F1 & F2 & F3 & _); auto|].
    intros j ha m0 _ _. destruct (m_first_fields regs m0) as (_ & _ & _ & F4 & F5).
    destruct ha; cbn [tgt_h tgt]; rewrite !orb_false_r; destruct (Nat.eqb j (N.to_nat i)); auto.
  - rewrite mon_ev_cancel.
    eapply (mq1_list_upd (mms h) _ None (Some m)); [apply mcancel_afacts; exact Hw | exact Hlt | exact HF | intros m0; cbn; auto|].
    intros j ha m0 Gh _. rewrite (tgt_other _ _ _ _ _ Hnd Hi Gh).
    split; [destruct ha; cbn [tgt_h tgt]; rewrite orb_false_r; destruct (Nat.eqb j (N.to_nat i)); reflexivity|].
    destruct (Nat.eqb j (N.to_nat i)); cbn [m_canc mcanc]; [now rewrite orb_true_r | now rewrite orb_false_r].
  - rewrite mon_ev_rel, map_app. cbn [map]. apply Forall2_snoc.
    + assert (Hh : mheld (mp x) = true) by (destruct Hg as [-> | ->]; reflexivity).
      eapply (mq1_list_upd (mms h) _ (Some m) None); [eapply mrelease_afacts; eauto | exact Hlt | exact HF | intros m0; cbn; auto|].
      intros j ha m0 Gh _. rewrite (tgt_other _ _ _ _ _ Hnd Hi Gh).
      split; [|destruct ha; cbn [tgt_h tgt]; rewrite orb_false_r; destruct (Nat.eqb j (N.to_nat i)); reflexivity].
      destruct (Nat.eqb j (N.to_nat i)); cbn [m_rel mrel]; [now rewrite orb_true_r | now rewrite orb_false_r].
    + destruct (mcode_nocall (mstep (mms h) (MRelease m)) (HRel m (match g with Granted => true | _ => false end))) as [N3 N2]; [intros k; discriminate|].
      apply q1_new; cbn [mdesc_of dk dc drel dcanc]; auto.
  - rewrite mon_ev_panic, map_app. cbn [map]. apply Forall2_snoc.
    + eapply mq1_list_id; eauto. intros k x G. exists x. split; [exact G | now apply mafacts_same].
    + apply q1_new; cbn [mdesc_of dk dc drel dcanc mcode]; auto; discriminate.
Qed.

Lemma mmon_step ml h e h' o : MR ml h -> mhstep h e = Some (h', o) -> exists ml', mon_mutex ml e o = (ml', []) /\ MR ml' h'.
Proof.
  intros HR Hs. destruct (mhstep_cases _ _ _ _ Hs) as [Hc ->].
  pose proof (mhcase_HI _ _ _ (proj1 HR) Hc) as HH'.
  rewrite mon_mutex_eq, mon_split, mobs_desc.
  destruct (mon_post_clean (mon_ev ml (mtr_ev e)) (map (mdesc_of (mms h')) (mhmap h'))) as (ml' & Em & HF').
  - now apply (mhcase_q1 ml h e h').
  - now apply mhi_clauses.
  - exists ml'. split; [exact Em|]. split; assumption.
Qed.

Lemma MHI_init : MHI mhinit.
Proof.
  split; [exists []; reflexivity|]. split; [reflexivity|].
  split; [intros t x G; destruct t; discriminate | intros a x ch G; destruct a; discriminate].
Qed.

Lemma MR_init : MR [] mhinit.
Proof. split; [apply MHI_init | constructor]. Qed.

Lemma MR_len ml h : MR ml h -> length ml = length (mhmap h).
Proof. intros [_ HF]. apply Forall2_len in HF. now rewrite map_length in HF. Qed.

Lemma mpanic_obs h h' o : mhstep h [8%N] = Some (h', o) -> last o 0%N = 9%N.
Proof.
  intros Hs. destruct (mhstep_cases _ _ _ _ Hs) as [Hc ->]. inversion Hc; subst.
  unfold mobs. cbn [mhmap mms]. rewrite map_app. cbn [map]. now rewrite last_snoc.
Qed.

Lemma mrel_obs h i h' o : mhstep h [5%N; i] = Some (h', o) -> last o 0%N <> 9%N.
Proof.
  intros Hs. destruct (mhstep_cases _ _ _ _ Hs) as [Hc ->]. inversion Hc; subst.
  unfold mobs. cbn [mhmap mms]. rewrite map_app. cbn [map]. rewrite last_snoc. cbn [mcode].
  match goal with |- (if ?c then _ else _) <> _ => destruct c end; [|discriminate].
  destruct (nth_error (macts (mstep (mms h) (MRelease m))) m) as [y|]; [|discriminate].
  destruct (mp y) as [| | |[]| | |[]|]; discriminate.
Qed.

Lemma mcode_ne7 s h : N.eqb 7 (mcode s h) = false.
Proof.
  unfold mcode. destruct h as [m|t first|]; [| |reflexivity].
  - destruct (nth_error (macts s) m) as [x|]; [|reflexivity]. destruct (mp x); reflexivity.
  - destruct first; [|reflexivity]. destruct (nth_error (macts s) t) as [x|]; [|reflexivity].
    destruct (mp x) as [| | |[]| | |[]|]; reflexivity.
Qed.

Lemma mno7 h e h' o : mhstep h e = Some (h', o) -> existsb (N.eqb 7%N) o = false.
Proof.
  intros Hs. destruct (mhstep_cases _ _ _ _ Hs) as [_ ->]. unfold mobs.
  induction (mhmap h') as [|x l IH]; [reflexivity|]. cbn [map existsb]. now rewrite mcode_ne7, IH.
Qed.

(* ------------------------------------------------------------------ *)
(* THE THEOREMS, about exactly what run_check_mutex uses *)
Definition mu_step := lstep mhstep (fun h => length (mhmap h)).
Definition mu_mon := lmon mon_mutex (@length mact).

Theorem mutex_model_satisfies_monitors evs :
  monitor mu_mon 0 ([], lockers0) [] evs (run_obs mu_step (mhinit, lockers0) evs) = [].
Proof.
  apply (layer_clean mhst (list mact) mhstep mon_mutex (fun h => length (mhmap h)) (@length mact) MR MR_len mmon_step mpanic_obs mrel_obs mno7).
  split; [apply MR_init | reflexivity].
Qed.

Theorem mutex_model_satisfies_monitors_core evs : monitor mon_mutex 0 [] [] evs (run_obs mhstep mhinit evs) = [].
Proof.
  assert (H : forall evs h ml i rep, MR ml h -> monitor mon_mutex i ml rep evs (run_obs mhstep h evs) = []).
  { clear. induction evs as [|e evs IH]; intros h ml i rep HR; [reflexivity|].
    cbn [run_obs]. destruct (mhstep h e) as [[h' o]|] eqn:E; [|reflexivity].
    destruct (mmon_step _ _ _ _ _ HR E) as (ml' & Em & HR'). cbn [monitor]. rewrite Em. cbn [filter map app]. now apply IH. }
  apply H. apply MR_init.
Qed.

Theorem mutex_model_run_check_clean evs :
  length (run_obs mu_step (mhinit, lockers0) evs) = length evs ->
  forall cfg, run_check_mutex cfg evs (run_obs mu_step (mhinit, lockers0) evs) = [].
Proof.
  intros Hl cfg. unfold run_check_mutex, run_check. pose proof (mutex_model_satisfies_monitors evs) as HM.
  unfold mu_step, mu_mon in *.
  rewrite (replay_own mhst mhstep (fun h => length (mhmap h)) evs (mhinit, lockers0) 0 Hl), HM. reflexivity.
Qed.
