(* Mutex: the monitors (mon_mutex through the sync.Locker layer, exactly what run_check_mutex evaluates) report nothing on
   the model's own observations, for every event list.  Same plan as RWProofsMon.v; every Mutex call is a writer, so the
   reader clauses (1,2), (2,1), (2,4) are vacuous and "registered waiting writer" is not tracked (dw = true). *)
From Util Require Import Common.Base Common.ListLemmas CSync.RWModel CSync.RWSpec CSync.MModel CSync.MProofs CSync.MSpec
  CSync.MonCore CSync.RWProofsMon.

(* ------------------------------------------------------------------ *)
(* descriptors of the Mutex model *)
Definition mheld (p : mpc) : bool := match p with MHeld _ | MTHeld _ => true | _ => false end.
Definition mrel_entered (p : mpc) : bool :=
  match p with MHeld Granted | MTHeld Granted => false | MHeld _ | MTHeld _ => true | _ => false end.
Definition mrelcalled (p : mpc) : bool := match p with MHeld RelCalled | MTHeld RelCalled => true | _ => false end.
Definition mkind (x : mactor) : N := (if m_is_lock_pc (mp x) then 1 else 3)%N.

Definition mddflt : desc := {| dk := 4; dc := 0; drel := false; dcanc := false; dw := true |}.
Definition mdesc_x (x : mactor) : desc :=
  {| dk := mkind x; dc := mcode_pc (mp x); drel := mrel_entered (mp x); dcanc := mc x; dw := true |}.
Definition mdesc_of (s : mst) (ha : hact) : desc :=
  match ha with
  | HCall k => match nth_error (macts s) k with Some x => mdesc_x x | None => mddflt end
  | _ => {| dk := 4; dc := mcode s ha; drel := false; dcanc := false; dw := true |}
  end.

Lemma mdesc_code s ha : dc (mdesc_of s ha) = mcode s ha.
Proof. destruct ha as [k|t f|]; cbn [mdesc_of]; [|reflexivity|reflexivity]. cbn [mcode]. destruct (nth_error (macts s) k); reflexivity. Qed.

Lemma mobs_desc h : mobs h = map dc (map (mdesc_of (mms h)) (mhmap h)).
Proof. unfold mobs. rewrite map_map. apply map_ext. intros ha. symmetry. apply mdesc_code. Qed.

Lemma mcode3_held p : mcode_pc p = 3%N <-> mheld p = true.
Proof. destruct p; cbn; split; intros H; try discriminate; reflexivity. Qed.
Lemma mcode2_wait p : mcode_pc p = 2%N -> exists ch, p = MWait ch.
Proof. destruct p; cbn; intros H; try discriminate. eauto. Qed.

(* ------------------------------------------------------------------ *)
(* pure facts about the program counters *)
Definition msect_pc (p p1 : mpc) : Prop :=
  p1 = p \/
  ((p = MStart \/ p = MWoken) /\ (p1 = MHeld Granted \/ (exists ch, p1 = MWait ch) \/ p1 = MCanceled)) \/
  (p = MTStart /\ (p1 = MTHeld Granted \/ p1 = MTFalse)) \/
  (p = MHeld RelCalled /\ p1 = MHeld Released) \/
  (p = MTHeld RelCalled /\ p1 = MTHeld Released).
Definition mwake_pc (p1 p' : mpc) : Prop := p' = p1 \/ (exists ch, p1 = MWait ch /\ p' = MWoken).
Definition mgiveup_pc (p1 p' : mpc) : Prop := p' = p1 \/ (exists ch, p1 = MWait ch /\ p' = MCanceled).
Definition mrelease_pc (p p' : mpc) : Prop :=
  p' = p \/ (p = MHeld Granted /\ p' = MHeld RelCalled) \/ (p = MTHeld Granted /\ p' = MTHeld RelCalled).

Definition mptr (p p' : mpc) : Prop :=
  m_is_lock_pc p' = m_is_lock_pc p /\ (mheld p = true -> mheld p' = true).

Lemma msect_wake_pcs p p1 p' : msect_pc p p1 -> mwake_pc p1 p' ->
  mptr p p' /\ mrel_entered p' = mrel_entered p /\
  (mrelcalled p' = true -> mrelcalled p = true) /\
  (forall ch, p' = MWait ch -> p1 = MWait ch).
Proof.
  unfold msect_pc, mwake_pc, mptr. intros HS HW.
  destruct HS as [HS|[([HS|HS] & [HS1|[(ch & HS1)|HS1]])|[(HS & [HS1|HS1])|[(HS & HS1)|(HS & HS1)]]]]; subst;
    destruct HW as [HW|(ch0 & HW & HW')]; subst; try discriminate;
    cbn [m_is_lock_pc mheld mrel_entered mrelcalled]; repeat split; intros; try discriminate; try congruence; auto.
Qed.

Lemma mgiveup_pcs p p' : mgiveup_pc p p' ->
  mptr p p' /\ mrel_entered p' = mrel_entered p /\ mrelcalled p' = mrelcalled p /\
  (forall ch, p' = MWait ch -> p = MWait ch).
Proof.
  unfold mgiveup_pc, mptr. intros [HW|(ch0 & HW & HW')]; subst;
    cbn [m_is_lock_pc mheld mrel_entered mrelcalled]; repeat split; intros; try discriminate; try congruence; auto.
Qed.

Lemma mrelease_pcs p p' : mrelease_pc p p' ->
  mptr p p' /\ (mrel_entered p = true -> mrel_entered p' = true) /\
  (p' = p \/ (mrel_entered p = false /\ mrel_entered p' = true)) /\
  (forall ch, p' = MWait ch -> p = MWait ch).
Proof.
  unfold mrelease_pc, mptr. intros [HW|[(HW & HW')|(HW & HW')]]; subst;
    cbn [m_is_lock_pc mheld mrel_entered mrelcalled]; repeat split; intros; try discriminate; try congruence; auto.
Qed.

(* ------------------------------------------------------------------ *)
(* what one model step does to one actor *)
Lemma mseta_get s a p k x : nth_error (macts s) k = Some x ->
  exists x', nth_error (mseta s a p) k = Some x' /\ mc x' = mc x /\
             ((k <> a /\ mp x' = mp x) \/ (k = a /\ mp x' = p)).
Proof.
  intros G. unfold mseta. destruct (nth_error (macts s) a) as [y|] eqn:Ga.
  - destruct (Nat.eq_dec k a) as [->|Hne].
    + rewrite nth_error_set_nth_same by (eapply nth_error_nth_len; eauto). rewrite G in Ga. inversion Ga; subst y.
      eexists. split; [reflexivity|]. cbn [mc mp]. auto.
    + rewrite nth_error_set_nth_other by exact Hne. exists x. repeat split; auto.
  - exists x. repeat split; auto. left. split; [|reflexivity]. intros ->. congruence.
Qed.

Lemma mseta_len s a p : length (mseta s a p) = length (macts s).
Proof. unfold mseta. destruct (nth_error (macts s) a); [apply length_set_nth | reflexivity]. Qed.

Lemma msect_actor s a k x : nth_error (macts s) k = Some x ->
  let s' := mstep s (MSect a) in
  exists x', nth_error (macts s') k = Some x' /\ mc x' = mc x /\
             msect_pc (mp x) (mp x') /\ (forall ch, mp x' = MWait ch -> mp x = MWait ch \/ mc x = false).
Proof.
  intros G. cbn zeta. cbn [mstep].
  destruct (nth_error (macts s) a) as [y|] eqn:Ga.
  2:{ exists x. repeat split; auto. now left. }
  assert (Hy : k = a -> y = x) by (intros ->; congruence).
  destruct y as [p c]. cbn [mp mc].
  destruct p as [|ch| |g| | |g|]; try destruct g;
    try (exists x; repeat split; auto; now left);
    try destruct (locked s); try destruct (getch (mb s)) as [b' ch']; try destruct c; cbn [macts];
    match goal with |- context [mseta s a ?p] => destruct (mseta_get s a p k x G) as (x' & Gx' & E2 & [[Hne E3]|[-> E3]]) end;
    exists x'; (split; [exact Gx'|]); (split; [exact E2|]);
    try (split; [left; exact E3 | intros ch0 Hp; left; congruence]);
    specialize (Hy eq_refl); subst x; unfold msect_pc; cbn [mp mc] in *; rewrite E3; (split; [srch | intros ch0 Hp; try discriminate; auto]).
Qed.

Lemma msect_len s a : length (macts (mstep s (MSect a))) = length (macts s).
Proof.
  cbn [mstep]. destruct (nth_error (macts s) a) as [y|]; [|reflexivity].
  destruct (mp y) as [|ch| |g| | |g|]; try destruct g; try reflexivity;
    try destruct (locked s); try destruct (getch (mb s)); cbn [macts]; apply mseta_len.
Qed.

Lemma mwake_actor s a k x : nth_error (macts s) k = Some x ->
  let s' := mstep s (MWake a) in
  exists x', nth_error (macts s') k = Some x' /\ mc x' = mc x /\ mwake_pc (mp x) (mp x') /\
             (k = a -> forall ch, mp x' = MWait ch -> closed (mb s) ch = false).
Proof.
  intros G. cbn zeta. cbn [mstep]. unfold mwake_pc.
  destruct (nth_error (macts s) a) as [y|] eqn:Ga.
  2:{ exists x. repeat split; auto. intros ->. congruence. }
  assert (Hy : k = a -> y = x) by (intros ->; congruence).
  destruct (mp y) as [|ch| |g| | |g|] eqn:Ep;
    try (exists x; repeat split; auto; intros Hk ch0 Hp; specialize (Hy Hk); subst y; congruence).
  destruct (closed (mb s) ch) eqn:Ec.
  - cbn [macts]. destruct (mseta_get s a MWoken k x G) as (x' & Gx' & E2 & [[Hne E3]|[-> E3]]); exists x'; repeat split; auto;
      try (intros Hk; contradiction); try (right; specialize (Hy eq_refl); subst y; eauto; fail); try (intros _ ch0 Hp; congruence).
  - exists x. repeat split; auto. intros Hk ch0 Hp. specialize (Hy Hk). subst y. rewrite Ep in Hp. inversion Hp; subst ch0. exact Ec.
Qed.

Lemma mwake_scalars s a : let s' := mstep s (MWake a) in
  mb s' = mb s /\ locked s' = locked s /\ length (macts s') = length (macts s).
Proof.
  cbn zeta. cbn [mstep]. destruct (nth_error (macts s) a) as [y|]; [|auto].
  destruct (mp y); auto. destruct (closed (mb s) ch); auto. cbn [mb locked macts]. rewrite mseta_len. auto.
Qed.

Lemma mwake_pc_trans p p1 p' : mwake_pc p p1 -> mwake_pc p1 p' -> mwake_pc p p'.
Proof.
  unfold mwake_pc. intros [A|(ch1 & A & A')] [B|(ch & B & B')]; subst; auto.
  - right. eauto.
  - right. eauto.
  - discriminate.
Qed.

Lemma mwakes_fold l : forall s, let s' := fold_left (fun s a => mstep s (MWake a)) l s in
  mb s' = mb s /\ locked s' = locked s /\ length (macts s') = length (macts s) /\
  forall k x, nth_error (macts s) k = Some x ->
    exists x', nth_error (macts s') k = Some x' /\ mc x' = mc x /\ mwake_pc (mp x) (mp x') /\
               (In k l -> forall ch, mp x' = MWait ch -> closed (mb s) ch = false).
Proof.
  induction l as [|a l IH]; intros s; cbn [fold_left].
  - repeat split; auto. intros k x G. exists x. repeat split; auto; [now left | intros []].
  - destruct (mwake_scalars s a) as (S1 & S2 & S3).
    destruct (IH (mstep s (MWake a))) as (T1 & T2 & T3 & TA).
    repeat split; try congruence.
    intros k x G. destruct (mwake_actor s a k x G) as (x1 & G1 & A2 & A3 & A4).
    destruct (TA k x1 G1) as (x' & G' & B2 & B3 & B4). exists x'.
    split; [exact G'|]. split; [congruence|]. split; [eapply mwake_pc_trans; eauto|].
    intros [<-|Hin] ch Hp.
    + destruct B3 as [B3|(ch0 & _ & B3')]; [|congruence]. apply A4; [reflexivity | congruence].
    + rewrite <- S1. now apply B4.
Qed.

Lemma msettle_facts s : let s' := msettle s in
  mb s' = mb s /\ locked s' = locked s /\ length (macts s') = length (macts s) /\
  forall k x, nth_error (macts s) k = Some x ->
    exists x', nth_error (macts s') k = Some x' /\ mc x' = mc x /\ mwake_pc (mp x) (mp x') /\
               (forall ch, mp x' = MWait ch -> closed (mb s') ch = false).
Proof.
  cbn zeta. unfold msettle. destruct (mwakes_fold (seq 0 (length (macts s))) s) as (T1 & T2 & T3 & TA).
  repeat split; auto. intros k x G. destruct (TA k x G) as (x' & G' & B2 & B3 & B4). exists x'. repeat split; auto.
  intros ch Hp. rewrite T1. apply B4; [|exact Hp]. apply in_seq. apply nth_error_nth_len in G. lia.
Qed.

Lemma msettle_run s : msettle s = fold_left mstep (map MWake (seq 0 (length (macts s)))) s.
Proof.
  unfold msettle. generalize (seq 0 (length (macts s))) as l. generalize s as s0.
  intros s0 l. revert s0. induction l as [|a l IH]; intros s0; cbn [fold_left map]; [reflexivity | apply IH].
Qed.

Lemma mcancelctx_actor s a k x : nth_error (macts s) k = Some x ->
  let s' := mstep s (MCancelCtx a) in
  exists x', nth_error (macts s') k = Some x' /\ mp x' = mp x /\ (k = a -> mc x' = true) /\ (k <> a -> mc x' = mc x).
Proof.
  intros G. cbn zeta. cbn [mstep].
  destruct (nth_error (macts s) a) as [y|] eqn:Ga.
  2:{ exists x. repeat split; auto. intros ->. congruence. }
  cbn [macts]. destruct (Nat.eq_dec k a) as [->|Hne].
  - rewrite nth_error_set_nth_same by (eapply nth_error_nth_len; eauto). rewrite G in Ga. inversion Ga; subst y.
    eexists. split; [reflexivity|]. cbn [mp mc]. repeat split; auto; try (intros Hc; congruence).
  - rewrite nth_error_set_nth_other by exact Hne. exists x. repeat split; auto; try (intros Hc; congruence).
Qed.

Lemma mcancelctx_scalars s a : let s' := mstep s (MCancelCtx a) in
  mb s' = mb s /\ locked s' = locked s /\ length (macts s') = length (macts s).
Proof.
  cbn zeta. cbn [mstep]. destruct (nth_error (macts s) a) as [y|]; [|auto].
  cbn [mb locked macts]. rewrite length_set_nth. auto.
Qed.

Lemma mcancelwake_actor s a k x : nth_error (macts s) k = Some x ->
  let s' := mstep s (MCancelWake a) in
  exists x', nth_error (macts s') k = Some x' /\ mc x' = mc x /\ mgiveup_pc (mp x) (mp x') /\
             (k = a -> mc x = true -> forall ch, mp x' <> MWait ch).
Proof.
  intros G. cbn zeta. cbn [mstep]. unfold mgiveup_pc.
  destruct (nth_error (macts s) a) as [y|] eqn:Ga.
  2:{ exists x. repeat split; auto. intros ->. congruence. }
  assert (Hy : k = a -> y = x) by (intros ->; congruence).
  destruct (mp y) as [|ch| |g| | |g|] eqn:Ep;
    try (exists x; repeat split; auto; intros Hk Hc ch0 Hp; specialize (Hy Hk); subst y; congruence).
  destruct (mc y) eqn:Ec.
  - cbn [macts]. destruct (mseta_get s a MCanceled k x G) as (x' & Gx' & E2 & [[Hne E3]|[-> E3]]); exists x'; repeat split; auto;
      try (intros Hk; contradiction); try (right; specialize (Hy eq_refl); subst y; eauto; fail); try (intros _ _ ch0 Hp; congruence).
  - exists x. repeat split; auto. intros Hk Hc. specialize (Hy Hk). subst y. congruence.
Qed.

Lemma mcancelwake_scalars s a : let s' := mstep s (MCancelWake a) in
  mb s' = mb s /\ locked s' = locked s /\ length (macts s') = length (macts s).
Proof.
  cbn zeta. cbn [mstep]. destruct (nth_error (macts s) a) as [y|]; [|auto].
  destruct (mp y); auto. destruct (mc y); auto. cbn [mb locked macts]. rewrite mseta_len. auto.
Qed.

Lemma mrelease_actor s a k x : nth_error (macts s) k = Some x ->
  let s' := mstep s (MRelease a) in
  exists x', nth_error (macts s') k = Some x' /\ mc x' = mc x /\ mrelease_pc (mp x) (mp x') /\ (k <> a -> mp x' = mp x) /\
             (k = a -> mheld (mp x) = true -> mrel_entered (mp x') = true).
Proof.
  intros G. cbn zeta. cbn [mstep]. unfold mrelease_pc.
  destruct (nth_error (macts s) a) as [y|] eqn:Ga.
  2:{ exists x. repeat split; auto. intros ->. congruence. }
  assert (Hy : k = a -> y = x) by (intros ->; congruence).
  destruct (mp y) as [|ch| |g| | |g|] eqn:Ep; try destruct g;
    try (exists x; repeat split; auto; intros Hk Hh; specialize (Hy Hk); subst y; rewrite Ep in *; try discriminate; reflexivity).
  - cbn [macts]. destruct (mseta_get s a (MHeld RelCalled) k x G) as (x' & Gx' & E2 & [[Hne E3]|[-> E3]]); exists x'; repeat split; auto;
      try (intros Hk; contradiction); try (right; specialize (Hy eq_refl); subst y; auto; fail); try (intros _ _; now rewrite E3).
  - cbn [macts]. destruct (mseta_get s a (MTHeld RelCalled) k x G) as (x' & Gx' & E2 & [[Hne E3]|[-> E3]]); exists x'; repeat split; auto;
      try (intros Hk; contradiction); try (right; specialize (Hy eq_refl); subst y; auto; fail); try (intros _ _; now rewrite E3).
Qed.

Lemma mrelease_scalars s a : let s' := mstep s (MRelease a) in
  mb s' = mb s /\ locked s' = locked s /\ length (macts s') = length (macts s).
Proof.
  cbn zeta. cbn [mstep]. destruct (nth_error (macts s) a) as [y|]; [|auto].
  destruct (mp y) as [| | |[]| | |[]|]; auto; cbn [mb locked macts]; rewrite mseta_len; auto.
Qed.
