(* Mutex: codec, eager schedule, observations; monitors are RWSpec.mon with every call a writer. *)
From Util Require Import Common.Base Common.ListLemmas CSync.RWModel CSync.MModel CSync.RWSpec.

Record mhst := { mms : mst; mhmap : list hact }.
Definition mhinit : mhst := {| mms := minit; mhmap := [] |}.

Definition msettle (s : mst) : mst := fold_left (fun s a => mstep s (MWake a)) (seq 0 (length (macts s))) s.

Definition mcode_pc (p : mpc) : N :=
  match p with
  | MStart | MWoken | MTStart => 1
  | MWait _ => 2
  | MHeld _ | MTHeld _ => 3
  | MCanceled => 4
  | MTFalse => 5
  end%N.

Definition mcode (s : mst) (h : hact) : N :=
  match h with
  | HCall m => match nth_error (macts s) m with Some x => mcode_pc (mp x) | None => 0%N end
  | HRel t first =>
    if first then
      match nth_error (macts s) t with
      | Some x => match mp x with MHeld RelCalled | MTHeld RelCalled => 1%N | _ => 6%N end
      | None => 0%N
      end
    else 6%N
  | HPanic => 9%N
  end.

Definition mobs (h : mhst) : list N := map (mcode (mms h)) (mhmap h).

Definition m_is_call_gate (p : mpc) : bool := match p with MStart | MWoken | MTStart => true | _ => false end.
Definition m_is_lock_pc (p : mpc) : bool := match p with MStart | MWait _ | MWoken | MHeld _ | MCanceled => true | _ => false end.

Definition mhstep (h : mhst) (e : list N) : option (mhst * list N) :=
  let s := mms h in
  let ret h' := Some (h', mobs h') in
  match e with
  | [1; _] => ret {| mms := mstep s MCallLock; mhmap := mhmap h ++ [HCall (length (macts s))] |}
  | [2; _] => ret {| mms := mstep s MCallTry; mhmap := mhmap h ++ [HCall (length (macts s))] |}
  | [3; i] =>
    match nth_error (mhmap h) (N.to_nat i) with
    | Some (HCall m) =>
      match nth_error (macts s) m with
      | Some x => if m_is_call_gate (mp x) then ret {| mms := msettle (mstep s (MSect m)); mhmap := mhmap h |} else None
      | None => None
      end
    | Some (HRel t true) =>
      match nth_error (macts s) t with
      | Some x => match mp x with
                  | MHeld RelCalled | MTHeld RelCalled => ret {| mms := msettle (mstep s (MSect t)); mhmap := mhmap h |}
                  | _ => None
                  end
      | None => None
      end
    | _ => None
    end
  | [4; i] =>
    match nth_error (mhmap h) (N.to_nat i) with
    | Some (HCall m) =>
      match nth_error (macts s) m with
      | Some x => if m_is_lock_pc (mp x)
                  then ret {| mms := mstep (mstep s (MCancelCtx m)) (MCancelWake m); mhmap := mhmap h |}
                  else None
      | None => None
      end
    | _ => None
    end
  | [5; i] =>
    match nth_error (mhmap h) (N.to_nat i) with
    | Some (HCall m) =>
      match nth_error (macts s) m with
      | Some x => match mp x with
                  | MHeld g | MTHeld g =>
                    ret {| mms := mstep s (MRelease m);
                           mhmap := mhmap h ++ [HRel m (match g with Granted => true | _ => false end)] |}
                  | _ => None
                  end
      | None => None
      end
    | _ => None
    end
  | [8] => ret {| mms := s; mhmap := mhmap h ++ [HPanic] |}
  | _ => None
  end%N.

(* every Mutex call is exclusive: monitor it as a writer *)
Definition mon_mutex (ml : list mact) (e o : list N) : list mact * list (nat * nat) :=
  mon ml (match e with [1; _] => [1; 1] | [2; _] => [2; 1] | _ => e end)%N o.

(* MutexLocker: Lock = Lock(context.Background()) and store the release function; Unlock = swap it out and call it,
   panic if there is none: the [6 1] / [7 1] events of RWSpec with a stack that never holds more than one entry *)
Definition run_check_mutex (cfg : list N) (evs obss : list (list N)) : list issue :=
  run_check (lstep mhstep (fun h => length (mhmap h))) (lmon mon_mutex (@length mact)) (mhinit, lockers0) ([], lockers0) evs obss.
