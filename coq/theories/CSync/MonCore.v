(* The monitor [RWSpec.mon] and the Locker layer [lmon]/[lstep], analysed WITHOUT any model.
   [mon] is split into "apply the event" ([mon_ev]) and "read the observed codes" ([mon_post]); the second half is shown to
   report nothing whenever the observed codes come from a list of DESCRIPTORS (one per harness actor: kind of call, status
   code, release entered, context cancelled, registered as waiting writer) that satisfies the clauses.  RWProofsMon.v and
   MProofsMon.v instantiate the descriptors with the RWMutex and the Mutex model. *)
From Util Require Import Common.Base Common.ListLemmas CSync.RWModel CSync.RWSpec.

(* ------------------------------------------------------------------ *)
(* list helpers *)

Lemma Forall2_len {A B} (P : A -> B -> Prop) l1 l2 : Forall2 P l1 l2 -> length l1 = length l2.
Proof. induction 1; cbn [length]; congruence. Qed.

Lemma Forall2_nth_l {A B} (P : A -> B -> Prop) l1 l2 : Forall2 P l1 l2 ->
  forall j a, nth_error l1 j = Some a -> exists b, nth_error l2 j = Some b /\ P a b.
Proof.
  induction 1 as [|x y l1 l2 Hxy HF IH]; intros j a Hj; [destruct j; discriminate|].
  destruct j as [|j]; cbn [nth_error] in *; [inversion Hj; subst; eauto | eauto].
Qed.

Lemma Forall2_nth_r {A B} (P : A -> B -> Prop) l1 l2 : Forall2 P l1 l2 ->
  forall j b, nth_error l2 j = Some b -> exists a, nth_error l1 j = Some a /\ P a b.
Proof.
  induction 1 as [|x y l1 l2 Hxy HF IH]; intros j a Hj; [destruct j; discriminate|].
  destruct j as [|j]; cbn [nth_error] in *; [inversion Hj; subst; eauto | eauto].
Qed.

Lemma Forall2_imp {A B} (P Q : A -> B -> Prop) l1 l2 :
  (forall a b, P a b -> Q a b) -> Forall2 P l1 l2 -> Forall2 Q l1 l2.
Proof. intros HPQ. induction 1; constructor; auto. Qed.

(* strengthen pointwise with membership on the right *)
Lemma Forall2_imp_in {A B} (P Q : A -> B -> Prop) l1 l2 :
  (forall a b, In b l2 -> P a b -> Q a b) -> Forall2 P l1 l2 -> Forall2 Q l1 l2.
Proof.
  intros HPQ HF. induction HF as [|x y l1 l2 Hxy HF IH]; constructor.
  - apply HPQ; [now left | exact Hxy].
  - apply IH. intros a b Hin. apply HPQ. now right.
Qed.

Lemma Forall2_snoc {A B} (P : A -> B -> Prop) l1 l2 a b :
  Forall2 P l1 l2 -> P a b -> Forall2 P (l1 ++ [a]) (l2 ++ [b]).
Proof. intros HF Hab. apply Forall2_app; [exact HF | constructor; [exact Hab | constructor]]. Qed.

Lemma Forall2_set_nth {A B} (P : A -> B -> Prop) l1 l2 : Forall2 P l1 l2 ->
  forall j a b, nth_error l2 j = Some b -> P a b -> Forall2 P (set_nth l1 j a) l2.
Proof.
  induction 1 as [|x y l1 l2 Hxy HF IH]; intros j a b Hj Hab; [constructor|].
  destruct j as [|j]; cbn [nth_error set_nth] in *.
  - inversion Hj; subst. constructor; assumption.
  - constructor; [exact Hxy | eapply IH; eauto].
Qed.

(* map over (combine l (map g ds)) against ds *)
Lemma Forall2_map_combine {A B C} (P Q : A -> B -> Prop) (f : A * C -> A) (g : B -> C) l ds :
  Forall2 P l ds -> (forall a d, P a d -> Q (f (a, g d)) d) -> Forall2 Q (map f (combine l (map g ds))) ds.
Proof. intros HF HPQ. induction HF as [|x y l ds Hxy HF IH]; cbn [map combine]; constructor; auto. Qed.

Lemma Forall2_map_l {A B} (P Q : A -> B -> Prop) (f : A -> A) l ds :
  Forall2 P l ds -> (forall a d, P a d -> Q (f a) d) -> Forall2 Q (map f l) ds.
Proof. intros HF HPQ. induction HF; cbn [map]; constructor; auto. Qed.

Lemma map_combine_eq {A B C D} (P : A -> B -> Prop) (f : A * C -> D) (g : B -> C) (h : B -> D) l ds :
  Forall2 P l ds -> (forall a d, P a d -> f (a, g d) = h d) -> map f (combine l (map g ds)) = map h ds.
Proof. intros HF HE. induction HF as [|x y l ds Hxy HF IH]; cbn [map combine]; [reflexivity|]. f_equal; auto. Qed.

Lemma existsb_combine_eq {A B C} (P : A -> B -> Prop) (f : A * C -> bool) (g : B -> C) (h : B -> bool) l ds :
  Forall2 P l ds -> (forall a d, P a d -> f (a, g d) = h d) -> existsb f (combine l (map g ds)) = existsb h ds.
Proof. intros HF HE. induction HF as [|x y l ds Hxy HF IH]; cbn [map combine existsb]; [reflexivity|]. f_equal; auto. Qed.

Lemma existsb_false_const {A} (l : list A) : existsb (fun _ => false) l = false.
Proof. induction l; cbn [existsb]; auto. Qed.

Lemma last_snoc {A} (l : list A) a d : last (l ++ [a]) d = a.
Proof. induction l as [|h t IH]; [reflexivity|]. cbn [app]. destruct (t ++ [a]) eqn:E; [destruct t; discriminate|]. cbn [last]. exact IH. Qed.

(* ------------------------------------------------------------------ *)
(* [mon] in two halves *)

Definition m_first (regs : list nat) (m : mact) : mact :=
  if mfirst m then m
  else {| mk := mk m; mrel := mrel m; mcanc := mcanc m; mreg := mreg m; mfirst := true; mgranted := mgranted m;
          mblk := if N.eqb (mk m) 0 || N.eqb (mk m) 2 then regs else [] |}.
Definition m_canc (m : mact) : mact :=
  {| mk := mk m; mrel := mrel m; mcanc := true; mreg := mreg m; mfirst := mfirst m; mgranted := mgranted m; mblk := mblk m |}.
Definition m_rel (m : mact) : mact :=
  {| mk := mk m; mrel := true; mcanc := mcanc m; mreg := mreg m; mfirst := mfirst m; mgranted := mgranted m; mblk := mblk m |}.

Definition mon_ev (ml : list mact) (e : list N) : list mact :=
  let regs_before := map fst (filter (fun p => mreg (snd p)) (combine (seq 0 (length ml)) ml)) in
  match e with
  | [1; w] => ml ++ [mnew (if N.eqb w 1 then 1 else 0)]
  | [2; w] => ml ++ [mnew (if N.eqb w 1 then 3 else 2)]
  | [3; i] => upd ml (N.to_nat i) (m_first regs_before)
  | [4; i] => upd ml (N.to_nat i) m_canc
  | [5; i] => upd ml (N.to_nat i) m_rel ++ [mnew 4]
  | [8] => ml ++ [mnew 4]
  | _ => ml
  end%N.

Definition f_reg (p : mact * N) : mact :=
  let (m, c) := p in
  {| mk := mk m; mrel := mrel m; mcanc := mcanc m;
     mreg := if N.eqb (mk m) 1 then (if N.eqb c 2 then true else if N.eqb c 3 || N.eqb c 4 then false else mreg m) else false;
     mfirst := mfirst m; mgranted := mgranted m; mblk := mblk m |}.
Definition f_blk (still : nat -> bool) (m : mact) : mact :=
  {| mk := mk m; mrel := mrel m; mcanc := mcanc m; mreg := mreg m; mfirst := mfirst m; mgranted := mgranted m;
     mblk := filter still (mblk m) |}.
Definition f_gr (p : mact * N) : mact :=
  let (m, c) := p in
  {| mk := mk m; mrel := mrel m; mcanc := mcanc m; mreg := mreg m; mfirst := mfirst m;
     mgranted := mgranted m || N.eqb c 3; mblk := mblk m |}.
Definition p_holdsW (p : mact * N) : bool := let (m, c) := p in is_w m && N.eqb c 3 && negb (mrel m).
Definition p_holdsR (p : mact * N) : bool := let (m, c) := p in is_r m && N.eqb c 3 && negb (mrel m).
Definition p_blockedR (p : mact * N) : bool := let (m, c) := p in N.eqb (mk m) 0 && N.eqb c 2.
Definition p_blockedW (p : mact * N) : bool := let (m, c) := p in N.eqb (mk m) 1 && N.eqb c 2.
Definition p_canc (p : mact * N) : bool := let (m, c) := p in mcanc m && N.eqb c 2.
Definition p_pref (p : mact * N) : bool :=
  let (m, c) := p in (N.eqb (mk m) 0 || N.eqb (mk m) 2) && N.eqb c 3 && negb (mgranted m) && negb (match mblk m with [] => true | _ => false end).

Definition mon_post (ml1 : list mact) (o : list N) : list mact * list (nat * nat) :=
  let ml2 := map f_reg (combine ml1 o) in
  let still := fun j => match nth_error ml2 j with Some m => mreg m | None => false end in
  let ml3 := map (f_blk still) ml2 in
  let pairs3 := combine ml3 o in
  let holdsW := count_b (map p_holdsW pairs3) in
  let holdsR := count_b (map p_holdsR pairs3) in
  let quiet := negb (existsb (N.eqb 1) o) in
  let blockedR := existsb p_blockedR pairs3 in
  let blockedW := existsb p_blockedW pairs3 in
  let canc_blocked := existsb p_canc pairs3 in
  let pref_bad := existsb p_pref pairs3 in
  let ml4 := map f_gr pairs3 in
  let fails :=
    (if Nat.ltb 1 holdsW then [(1, 1)] else []) ++
    (if Nat.ltb 0 holdsW && Nat.ltb 0 holdsR then [(1, 2)] else []) ++
    (if quiet && blockedR && negb (Nat.ltb 0 holdsW || blockedW) then [(2, 1)] else []) ++
    (if quiet && blockedW && Nat.eqb (holdsW + holdsR) 0 then [(2, 2)] else []) ++
    (if quiet && canc_blocked then [(2, 3)] else []) ++
    (if pref_bad then [(2, 4)] else [])
  in (ml4, fails).

Lemma mon_split ml e o : mon ml e o = mon_post (mon_ev ml e) o.
Proof. reflexivity. Qed.

(* ------------------------------------------------------------------ *)
(* descriptors: what a model says about one harness actor after a step *)

Record desc := { dk : N;        (* kind: 0 Lock(read) 1 Lock(write) 2 TryLock(read) 3 TryLock(write) 4 release call / panic *)
                 dc : N;        (* status code shown in the observation *)
                 drel : bool;   (* a release of this grant has been entered *)
                 dcanc : bool;  (* its context is cancelled *)
                 dw : bool }.   (* counted as a registered waiting writer *)

Definition d_isw (d : desc) : bool := N.eqb (dk d) 1 || N.eqb (dk d) 3.
Definition d_isr (d : desc) : bool := N.eqb (dk d) 0 || N.eqb (dk d) 2.
Definition h_holdsW (d : desc) : bool := d_isw d && N.eqb (dc d) 3 && negb (drel d).
Definition h_holdsR (d : desc) : bool := d_isr d && N.eqb (dc d) 3 && negb (drel d).
Definition h_blockedR (d : desc) : bool := N.eqb (dk d) 0 && N.eqb (dc d) 2.
Definition h_blockedW (d : desc) : bool := N.eqb (dk d) 1 && N.eqb (dc d) 2.
Definition h_canc (d : desc) : bool := dcanc d && N.eqb (dc d) 2.

Definition dholdsW (ds : list desc) : nat := count_b (map h_holdsW ds).
Definition dholdsR (ds : list desc) : nat := count_b (map h_holdsR ds).
Definition dquiet (ds : list desc) : bool := negb (existsb (N.eqb 1) (map dc ds)).

(* the clauses of C01/C02 that [mon] evaluates, read on descriptors *)
Definition clauses_ok (ds : list desc) : Prop :=
  dholdsW ds <= 1 /\
  (0 < dholdsW ds -> dholdsR ds = 0) /\
  (dquiet ds = true -> existsb h_blockedR ds = true -> 0 < dholdsW ds \/ existsb h_blockedW ds = true) /\
  (dquiet ds = true -> existsb h_blockedW ds = true -> 0 < dholdsW ds + dholdsR ds) /\
  existsb h_canc ds = false.

Definition nowait (ds : list desc) : Prop := forall d, In d ds -> dw d = false.

(* monitor entry against descriptor, after a complete [mon] step *)
Definition Rd (m : mact) (d : desc) : Prop :=
  mk m = dk d /\ mrel m = drel d /\ mcanc m = dcanc d /\ (mreg m = true -> dw d = true) /\ mgranted m = N.eqb (dc d) 3.

(* monitor entry after [mon_ev] against the descriptor AFTER the model's step *)
Definition Q1 (nw : Prop) (m : mact) (d : desc) : Prop :=
  mk m = dk d /\ mrel m = drel d /\ mcanc m = dcanc d /\
  (mreg m = true -> dk d = 1%N -> dc d <> 3%N -> dc d <> 4%N -> dw d = true) /\
  (dk d = 1%N -> dc d = 2%N -> dw d = true) /\
  (mgranted m = true -> dc d = 3%N) /\
  (mgranted m = false -> d_isr d = true -> dc d = 3%N -> nw).

Definition Q2 (nw : Prop) (m : mact) (d : desc) : Prop :=
  mk m = dk d /\ mrel m = drel d /\ mcanc m = dcanc d /\ (mreg m = true -> dw d = true) /\
  (mgranted m = true -> dc d = 3%N) /\ (mgranted m = false -> d_isr d = true -> dc d = 3%N -> nw).

Definition Q3 (ds : list desc) (m : mact) (d : desc) : Prop :=
  Q2 (nowait ds) m d /\ forall j, In j (mblk m) -> exists d', nth_error ds j = Some d' /\ dw d' = true.

Lemma q1_q2 nw m d : Q1 nw m d -> Q2 nw (f_reg (m, dc d)) d.
Proof.
  intros (Hk & Hr & Hc & Hreg & Hblk & Hg1 & Hg0). unfold f_reg, Q2. cbn [mk mrel mcanc mreg mgranted].
  repeat split; auto.
  rewrite Hk. destruct (N.eqb_spec (dk d) 1) as [Ek|Ek]; [|discriminate].
  destruct (N.eqb_spec (dc d) 2) as [E2|E2]; [intros _; auto|].
  destruct (N.eqb_spec (dc d) 3) as [E3|E3]; [discriminate|].
  destruct (N.eqb_spec (dc d) 4) as [E4|E4]; [discriminate|]. cbn [orb]. intros Hm. auto.
Qed.

Lemma count_b_pos_in (l : list bool) : 0 < count_b l -> In true l.
Proof.
  unfold count_b. induction l as [|h t IH]; cbn [filter length]; [lia|].
  destruct h; [intros _; now left | intros H; right; auto].
Qed.

Theorem mon_post_clean ml1 ds :
  Forall2 (Q1 (nowait ds)) ml1 ds -> clauses_ok ds ->
  exists ml', mon_post ml1 (map dc ds) = (ml', []) /\ Forall2 Rd ml' ds.
Proof.
  intros HF (C11 & C12 & C21 & C22 & C23).
  unfold mon_post.
  set (ml2 := map f_reg (combine ml1 (map dc ds))).
  set (still := fun j => match nth_error ml2 j with Some m => mreg m | None => false end).
  set (ml3 := map (f_blk still) ml2).
  assert (H2 : Forall2 (Q2 (nowait ds)) ml2 ds).
  { unfold ml2. eapply Forall2_map_combine; [exact HF|]. intros a d. apply q1_q2. }
  assert (H3 : Forall2 (Q3 ds) ml3 ds).
  { unfold ml3. eapply Forall2_map_l; [exact H2|]. intros a d Ha. split.
    - destruct Ha as (Hk & Hr & Hc & Hreg & Hg1 & Hg0). unfold f_blk, Q2. cbn [mk mrel mcanc mreg mgranted]. repeat split; auto.
    - unfold f_blk. cbn [mblk]. intros j Hj. apply filter_In in Hj as [_ Hst]. unfold still in Hst.
      destruct (nth_error ml2 j) as [mj|] eqn:Gj; [|discriminate].
      destruct (Forall2_nth_l _ _ _ H2 j mj Gj) as (d' & Gd & (_ & _ & _ & Hreg & _)). eauto. }
  assert (EW : map p_holdsW (combine ml3 (map dc ds)) = map h_holdsW ds).
  { eapply map_combine_eq; [exact H3|]. intros a d ((Hk & Hr & _) & _). unfold p_holdsW, h_holdsW, is_w, d_isw. now rewrite Hk, Hr. }
  assert (ER : map p_holdsR (combine ml3 (map dc ds)) = map h_holdsR ds).
  { eapply map_combine_eq; [exact H3|]. intros a d ((Hk & Hr & _) & _). unfold p_holdsR, h_holdsR, is_r, d_isr. now rewrite Hk, Hr. }
  assert (EbR : existsb p_blockedR (combine ml3 (map dc ds)) = existsb h_blockedR ds).
  { eapply existsb_combine_eq; [exact H3|]. intros a d ((Hk & _) & _). unfold p_blockedR, h_blockedR. now rewrite Hk. }
  assert (EbW : existsb p_blockedW (combine ml3 (map dc ds)) = existsb h_blockedW ds).
  { eapply existsb_combine_eq; [exact H3|]. intros a d ((Hk & _) & _). unfold p_blockedW, h_blockedW. now rewrite Hk. }
  assert (Ecb : existsb p_canc (combine ml3 (map dc ds)) = existsb h_canc ds).
  { eapply existsb_combine_eq; [exact H3|]. intros a d ((_ & _ & Hc & _) & _). unfold p_canc, h_canc. now rewrite Hc. }
  assert (Epf : existsb p_pref (combine ml3 (map dc ds)) = false).
  { rewrite (existsb_combine_eq (Q3 ds) p_pref dc (fun _ => false) ml3 ds H3); [apply existsb_false_const|].
    intros a d ((Hk & _ & _ & _ & _ & Hg0) & Hblk). unfold p_pref. rewrite Hk.
    destruct (N.eqb (dk d) 0 || N.eqb (dk d) 2) eqn:E0; [|reflexivity].
    destruct (N.eqb_spec (dc d) 3) as [E3|E3]; [|reflexivity].
    destruct (mgranted a) eqn:Eg; [reflexivity|]. cbn [andb negb].
    destruct (mblk a) as [|j r] eqn:Eb; [reflexivity|]. exfalso.
    destruct (Hblk j (or_introl eq_refl)) as (d' & Gd & Hw).
    pose proof (Hg0 eq_refl E0 E3 d' (nth_error_In _ _ Gd)) as Hnw. congruence. }
  rewrite EW, ER, EbR, EbW, Ecb, Epf.
  fold (dholdsW ds). fold (dholdsR ds). fold (dquiet ds).
  assert (F1 : Nat.ltb 1 (dholdsW ds) = false) by (apply Nat.ltb_ge; lia).
  assert (F2 : Nat.ltb 0 (dholdsW ds) && Nat.ltb 0 (dholdsR ds) = false).
  { destruct (Nat.ltb_spec 0 (dholdsW ds)) as [Hp|Hp]; [|reflexivity]. rewrite (C12 Hp). reflexivity. }
  assert (F3 : dquiet ds && existsb h_blockedR ds && negb (Nat.ltb 0 (dholdsW ds) || existsb h_blockedW ds) = false).
  { destruct (dquiet ds) eqn:Eq; [|reflexivity]. destruct (existsb h_blockedR ds) eqn:Eb; [|reflexivity]. cbn [andb].
    destruct (C21 eq_refl eq_refl) as [Hp|Hb].
    - destruct (Nat.ltb_spec 0 (dholdsW ds)); [reflexivity | lia].
    - rewrite Hb, orb_true_r. reflexivity. }
  assert (F4 : dquiet ds && existsb h_blockedW ds && Nat.eqb (dholdsW ds + dholdsR ds) 0 = false).
  { destruct (dquiet ds) eqn:Eq; [|reflexivity]. destruct (existsb h_blockedW ds) eqn:Eb; [|reflexivity]. cbn [andb].
    pose proof (C22 eq_refl eq_refl) as Hp. destruct (Nat.eqb_spec (dholdsW ds + dholdsR ds) 0); [lia | reflexivity]. }
  rewrite F1, F2, F3, F4, C23, andb_false_r. cbn [app].
  eexists. split; [reflexivity|].
  eapply Forall2_map_combine; [exact H3|].
  intros a d ((Hk & Hr & Hc & Hreg & Hg1 & Hg0) & _). unfold f_gr, Rd. cbn [mk mrel mcanc mreg mgranted].
  repeat split; auto.
  destruct (mgranted a) eqn:Eg; cbn [orb]; [|reflexivity]. rewrite (Hg1 eq_refl). reflexivity.
Qed.

(* ------------------------------------------------------------------ *)
(* the sync.Locker layer: [lmon inner] on the observations of [lstep inner] *)
Section Layer.
  Variables (H M : Type).
  Variable inner : H -> list N -> option (H * list N).
  Variable imon : M -> list N -> list N -> M * list (nat * nat).
  Variable nh : H -> nat.
  Variable nm : M -> nat.
  Variable R : M -> H -> Prop.
  Hypothesis R_len : forall m h, R m h -> nm m = nh h.
  Hypothesis R_step : forall m h e h' o, R m h -> inner h e = Some (h', o) -> exists m', imon m e o = (m', []) /\ R m' h'.
  Hypothesis panic_obs : forall h h' o, inner h [8%N] = Some (h', o) -> last o 0%N = 9%N.
  Hypothesis rel_obs : forall h i h' o, inner h [5%N; i] = Some (h', o) -> last o 0%N <> 9%N.
  Hypothesis no7 : forall h e h' o, inner h e = Some (h', o) -> existsb (N.eqb 7%N) o = false.

  Definition RL (ml : M * lockers) (hl : H * lockers) : Prop := R (fst ml) (fst hl) /\ snd ml = snd hl.

  Lemma ltranslate_7 l n w e' l' : ltranslate l n [7%N; w] = Some (e', l') -> e' = [8%N] \/ exists i, e' = [5%N; i].
  Proof.
    cbn [ltranslate]. destruct (N.eqb w 1).
    - destruct (lstk_w l) as [|i r]; intros E; inversion E; eauto.
    - destruct (lstk_r l) as [|i r]; intros E; inversion E; eauto.
  Qed.

  Lemma lmon_step ml hl e hl' o : RL ml hl -> lstep inner nh hl e = Some (hl', o) ->
    exists ml', lmon imon nm ml e o = (ml', []) /\ RL ml' hl'.
  Proof.
    destruct ml as [m l0], hl as [h l]. intros [HR El] Hs. cbn [fst snd] in HR, El. subst l0.
    unfold lstep in Hs. unfold lmon. rewrite (R_len _ _ HR).
    destruct (ltranslate l (nh h) e) as [[e' l']|] eqn:Et; [|discriminate].
    destruct (inner h e') as [[h' o']|] eqn:Ei; [|discriminate]. inversion Hs; subst hl' o'. clear Hs.
    destruct (R_step _ _ _ _ _ HR Ei) as (m' & Em & HR'). rewrite Em.
    assert (F : match e, e' with
                | [7%N; _], [8%N] => if N.eqb (last o 0%N) 9%N then [] else [(1, 3)]
                | [7%N; _], _ => if N.eqb (last o 0%N) 9%N then [(1, 3)] else []
                | _, _ => []
                end = (@nil (nat * nat))).
    { destruct e as [|a e1]; [reflexivity|].
      destruct a as [|p]; [reflexivity|].
      destruct p as [p|p|]; try reflexivity. destruct p as [p|p|]; try reflexivity. destruct p as [p|p|]; try reflexivity.
      destruct e1 as [|w e2]; [reflexivity|]. destruct e2 as [|c e3]; [|reflexivity].
      destruct (ltranslate_7 _ _ _ _ _ Et) as [->|[i ->]].
      - rewrite (panic_obs _ _ _ Ei). reflexivity.
      - pose proof (rel_obs _ _ _ _ Ei) as Hn. destruct (N.eqb_spec (last o 0%N) 9); [congruence | reflexivity]. }
    rewrite F, (no7 _ _ _ _ Ei). cbn [app]. eexists. split; [reflexivity|]. split; [exact HR' | reflexivity].
  Qed.

  Theorem layer_clean evs : forall ml hl i rep, RL ml hl ->
    monitor (lmon imon nm) i ml rep evs (run_obs (lstep inner nh) hl evs) = [].
  Proof.
    induction evs as [|e evs IH]; intros ml hl i rep HRL; [reflexivity|].
    cbn [run_obs]. destruct (lstep inner nh hl e) as [[hl' o]|] eqn:E; [|reflexivity].
    destruct (lmon_step _ _ _ _ _ HRL E) as (ml' & Em & HRL').
    cbn [monitor]. rewrite Em. cbn [filter map app]. apply IH. exact HRL'.
  Qed.

  Lemma list_eqb_refl l : list_eqb l l = true.
  Proof. induction l as [|h t IH]; [reflexivity|]. cbn [list_eqb]. now rewrite N.eqb_refl, IH. Qed.

  Lemma replay_own evs : forall (s : H * lockers) i, length (run_obs (lstep inner nh) s evs) = length evs ->
    replay (lstep inner nh) i s evs (run_obs (lstep inner nh) s evs) = [].
  Proof.
    induction evs as [|e evs IH]; intros s i Hl; [reflexivity|]. cbn [run_obs replay] in *.
    destruct (lstep inner nh s e) as [[s' o]|]; [|discriminate Hl]. cbn [length] in Hl. rewrite list_eqb_refl. apply IH. lia.
  Qed.
End Layer.
