(* Proofs about the RWMutex model: counting invariant (exclusion, no residue), no lost wake-up,
   quiescence, writer preference, idempotent release. *)
From Util Require Import Common.Base Common.ListLemmas CSync.RWModel.

Definition dflt : actor := {| aw := false; apc := TFalse; acanc := false |}.

Definition Inv (s : st) : Prop :=
  nreaders s = cnt holdsR (acts s) /\ b2n (writing s) = cnt holdsW (acts s) /\ ww s = cnt waitsW (acts s)
  /\ (writing s = true -> nreaders s = 0).

Lemma geta s a x : nth_error (acts s) a = Some x -> a < length (acts s) /\ nth a (acts s) dflt = x.
Proof. intros H. split; [eapply nth_error_nth_len; eauto | now apply nth_error_nth]. Qed.

Ltac facts s a newx Hl Hn :=
  let CR := fresh "CR" in let CW := fresh "CW" in let CWW := fresh "CWW" in
  pose proof (cnt_set_nth holdsR (acts s) a newx dflt Hl) as CR;
  pose proof (cnt_set_nth holdsW (acts s) a newx dflt Hl) as CW;
  pose proof (cnt_set_nth waitsW (acts s) a newx dflt Hl) as CWW;
  rewrite Hn in CR, CW, CWW;
  cbn [holdsR holdsW waitsW aw apc acanc andb negb unreleased b2n] in CR, CW, CWW.

Ltac fin := unfold Inv; cbn [nreaders writing ww acts b]; unfold b2n in *; cbn [andb negb unreleased] in *;
            repeat split; intros; try lia; try congruence; auto.

Ltac setx s a :=
  unfold seta; match goal with G : nth_error (acts s) a = Some _ |- _ => rewrite G end; cbn [aw acanc apc].

Lemma step_gen_inv fx s e : Inv s -> Inv (step_gen fx s e).
Proof.
  intros (HR & HW & HWW & HX). destruct e as [w|w|a|a|a|a|a]; cbn [step_gen].
  - unfold Inv; cbn [nreaders writing ww acts b]. rewrite !cnt_app.
    unfold cnt at 2 4 6. destruct w; cbn; repeat split; try lia; auto.
  - unfold Inv; cbn [nreaders writing ww acts b]. rewrite !cnt_app.
    unfold cnt at 2 4 6. destruct w; cbn; repeat split; try lia; auto.
  - destruct (nth_error (acts s) a) as [x|] eqn:G; [|fin].
    destruct (geta _ _ _ G) as [Hl Hn]. destruct x as [w p c].
    destruct p as [|ch| | |g| | |g|]; destruct w; cbn [apc aw]; try (fin; fail);
      try (destruct g; try (fin; fail));
      unfold grantW, grantR, after_nogrant; cbn [acanc];
      destruct (Nat.eqb_spec (nreaders s) 0), (Nat.eqb_spec (ww s) 0), (writing s) eqn:EW; cbn [andb negb];
      try destruct (getch (b s)) as [b' ch'];
      try destruct c;
      setx s a;
      match goal with |- Inv {| acts := set_nth _ _ ?nx |} => facts s a nx Hl Hn end; cbn [b2n] in HW; fin.
  - destruct (nth_error (acts s) a) as [x|] eqn:G; [|fin].
    destruct (geta _ _ _ G) as [Hl Hn]. destruct x as [w p c]. cbn [apc].
    destruct p; try (fin; fail). destruct (closed (b s) ch); [|fin].
    destruct w; setx s a; match goal with |- Inv {| acts := set_nth _ _ ?nx |} => facts s a nx Hl Hn end; fin.
  - destruct (nth_error (acts s) a) as [x|] eqn:G; [|fin].
    destruct (geta _ _ _ G) as [Hl Hn]. destruct x as [w p c]. cbn [apc aw].
    destruct w; destruct p as [| | | |g| | |g|]; try destruct g;
    match goal with |- Inv {| acts := set_nth _ _ ?nx |} => facts s a nx Hl Hn end; fin.
  - destruct (nth_error (acts s) a) as [x|] eqn:G; [|fin].
    destruct (geta _ _ _ G) as [Hl Hn]. destruct x as [w p c]. cbn [apc acanc].
    destruct p; try (fin; fail). destruct c; [|fin].
    destruct w; setx s a; match goal with |- Inv {| acts := set_nth _ _ ?nx |} => facts s a nx Hl Hn end; fin.
  - destruct (nth_error (acts s) a) as [x|] eqn:G; [|fin].
    destruct (geta _ _ _ G) as [Hl Hn]. destruct x as [w p c]. cbn [apc].
    destruct p as [| | | |g| | |g|]; try (fin; fail); destruct g; try (fin; fail);
    destruct w; setx s a; match goal with |- Inv {| acts := set_nth _ _ ?nx |} => facts s a nx Hl Hn end; fin.
Qed.

Lemma init_inv : Inv init.
Proof. unfold Inv, init; cbn. auto. Qed.



Theorem run_inv es : Inv (run es).
Proof. unfold run. apply fold_inv; [apply step_gen_inv | apply init_inv]. Qed.

Theorem run_pinned_inv es : Inv (run_pinned es).
Proof. unfold run_pinned. apply fold_inv; [apply step_gen_inv | apply init_inv]. Qed.

(* ---- C01: exclusion, at the API level ---- *)


Lemma api_le_internal_R l : cnt apiR l <= cnt holdsR l.
Proof. apply cnt_le. intros [w p c]. unfold apiR, holdsR; cbn. destruct w; cbn; [discriminate|]. destruct p as [| | | |[]| | |[]|]; auto. Qed.
Lemma api_le_internal_W l : cnt apiW l <= cnt holdsW l.
Proof. apply cnt_le. intros [w p c]. unfold apiW, holdsW; cbn. destruct w; cbn; [|discriminate]. destruct p as [| | | |[]| | |[]|]; auto. Qed.

Theorem exclusion es :
  let s := run es in
  cnt apiW (acts s) <= 1 /\ (cnt apiW (acts s) = 1 -> cnt apiR (acts s) = 0).
Proof.
  cbn. destruct (run_inv es) as (HR & HW & HWW & HX).
  pose proof (api_le_internal_R (acts (run es))). pose proof (api_le_internal_W (acts (run es))).
  destruct (writing (run es)) eqn:E; cbn [b2n] in HW; split; try lia.
  all: try (intros _; specialize (HX eq_refl); lia).
Qed.

(* ---- C01: a repeated release, a failed TryLock do not change who holds the lock ---- *)
Theorem release_idempotent s a x :
  nth_error (acts s) a = Some x -> apc x <> LHeld Granted -> apc x <> THeld Granted ->
  step s (Release a) = s.
Proof.
  intros G H1 H2. unfold step. cbn [step_gen]. rewrite G.
  destruct (apc x) as [| | | |[]| | |[]|]; try reflexivity; congruence.
Qed.

Theorem release_first_keeps_lock_state s a :
  let s' := step s (Release a) in
  b s' = b s /\ nreaders s' = nreaders s /\ writing s' = writing s /\ ww s' = ww s.
Proof.
  unfold step; cbn [step_gen]. destruct (nth_error (acts s) a) as [x|]; [|auto].
  destruct (apc x) as [| | | |[]| | |[]|]; cbn; auto.
Qed.

Theorem failed_trylock_inert s a x :
  nth_error (acts s) a = Some x -> apc x = TStart ->
  apc (nth a (acts (step s (Sect a))) dflt) = TFalse ->
  let s' := step s (Sect a) in
  b s' = b s /\ nreaders s' = nreaders s /\ writing s' = writing s /\ ww s' = ww s /\
  forall k, k <> a -> nth_error (acts s') k = nth_error (acts s) k.
Proof.
  intros G Hp. unfold step; cbn [step_gen]. rewrite G, Hp.
  destruct (geta _ _ _ G) as [Hl Hn].
  destruct (aw x); [destruct (grantW s) | destruct (grantR s)]; cbn [acts b nreaders writing ww];
    unfold seta; rewrite G; rewrite nth_set_nth_same by exact Hl; cbn [apc]; intros H; try discriminate;
    repeat split; intros; now apply nth_error_set_nth_other.
Qed.

(* ---- C02: no lost wake-up ---- *)
(* a caller blocked on an open channel is not grantable; channels handed out are allocated *)
Definition grantable (s : st) (x : actor) : bool := if aw x then grantW s else grantR s.
Definition Inv2 (s : st) : Prop :=
  bc_wf (b s) /\
  forall a x ch, nth_error (acts s) a = Some x -> apc x = LWait ch ->
    ch < nxt (b s) /\ (closed (b s) ch = true \/ grantable s x = false).



Lemma seta_lookup s a p k x' :
  nth_error (seta s a p) k = Some x' ->
  (k <> a /\ nth_error (acts s) k = Some x') \/
  (k = a /\ exists x, nth_error (acts s) a = Some x /\ x' = {| aw := aw x; apc := p; acanc := acanc x |}).
Proof.
  unfold seta. destruct (nth_error (acts s) a) as [x|] eqn:G.
  - destruct (Nat.eq_dec k a) as [->|Hne].
    + rewrite nth_error_set_nth_same by (eapply nth_error_nth_len; eauto). intros H; inversion H. right. split; [reflexivity|]. now exists x.
    + rewrite nth_error_set_nth_other by exact Hne. intros H. left. now split.
  - intros H. destruct (Nat.eq_dec k a) as [->|Hne]; [congruence | now left].
Qed.

Ltac inv2_unchanged_lock HI :=
  (* lock scalars and b unchanged; only one actor's pc changed to a non-LWait pc (or unchanged) *)
  destruct HI as [Hwf HI]; split; [exact Hwf|];
  intros k x' ch' Hk Hp; cbn [acts b nreaders writing ww] in *.

Lemma grantable_same s s' x : nreaders s' = nreaders s -> writing s' = writing s -> ww s' = ww s -> grantable s' x = grantable s x.
Proof. intros H1 H2 H3. unfold grantable, grantW, grantR. now rewrite H1, H2, H3. Qed.

(* generic step for Inv2: given how the new state relates to the old one *)
Lemma inv2_step s s' a :
  Inv2 s ->
  bc_wf (b s') ->
  nxt (b s) <= nxt (b s') ->
  (forall c, c < nxt (b s) -> closed (b s) c = true -> closed (b s') c = true) ->
  (* every actor other than a is unchanged *)
  (forall k x, k <> a -> nth_error (acts s') k = Some x -> nth_error (acts s) k = Some x) ->
  (* actor a: not blocked afterwards, or blocked on a channel that satisfies the invariant *)
  (forall x ch, nth_error (acts s') a = Some x -> apc x = LWait ch ->
     ch < nxt (b s') /\ (closed (b s') ch = true \/ grantable s' x = false)) ->
  (* other blocked actors: still closed, or still not grantable *)
  (forall k x ch, k <> a -> nth_error (acts s) k = Some x -> apc x = LWait ch -> ch < nxt (b s) ->
     closed (b s) ch = false -> grantable s x = false -> closed (b s') ch = true \/ grantable s' x = false) ->
  Inv2 s'.
Proof.
  intros [Hwf HI] Hwf' Hn Hc Hoth Ha Hg. split; [exact Hwf'|].
  intros k x ch Hk Hp. destruct (Nat.eq_dec k a) as [->|Hne]; [now apply (Ha x ch)|].
  pose proof (Hoth k x Hne Hk) as Hk0. destruct (HI k x ch Hk0 Hp) as [Hlt [Hcl|Hng]].
  - split; [lia|]. left. now apply Hc.
  - split; [lia|]. destruct (closed (b s) ch) eqn:Ecl; [left; now apply Hc|]. eapply Hg; eauto.
Qed.

Lemma seta_other s a p k x : k <> a -> nth_error (seta s a p) k = Some x -> nth_error (acts s) k = Some x.
Proof. intros Hne H. destruct (seta_lookup _ _ _ _ _ H) as [[_ H1]|[H1 _]]; [exact H1 | congruence]. Qed.

Lemma seta_self s a p x' : nth_error (seta s a p) a = Some x' -> apc x' = p.
Proof. intros H. destruct (seta_lookup _ _ _ _ _ H) as [[H1 _]|[_ [x [_ ->]]]]; [congruence | reflexivity]. Qed.

Lemma seta_self_aw s a p x x' : nth_error (acts s) a = Some x -> nth_error (seta s a p) a = Some x' -> aw x' = aw x /\ acanc x' = acanc x.
Proof. intros G H. destruct (seta_lookup _ _ _ _ _ H) as [[H1 _]|[_ [y [Gy ->]]]]; [congruence|]. rewrite G in Gy; inversion Gy; subst. auto. Qed.

Lemma step_inv2 s e : Inv s -> Inv2 s -> Inv2 (step s e).
Proof.
  intros HInv HI. pose proof HI as [Hwf HI']. unfold step.
  destruct e as [w|w|a|a|a|a|a]; cbn [step_gen].
  - (* CallLock *) split; [exact Hwf|]. intros k x ch Hk Hp. cbn [acts b] in *.
    apply nth_error_app_inv in Hk as [Hk| ->]; [|discriminate].
    destruct (HI' k x ch Hk Hp) as [H1 H2]. split; [exact H1|]. exact H2.
  - split; [exact Hwf|]. intros k x ch Hk Hp. cbn [acts b] in *.
    apply nth_error_app_inv in Hk as [Hk| ->]; [|discriminate].
    destruct (HI' k x ch Hk Hp) as [H1 H2]. split; [exact H1|]. exact H2.
  - (* Sect *)
    destruct (nth_error (acts s) a) as [x|] eqn:G; [|exact HI].
    destruct x as [w p c]. cbn [apc aw].
    destruct HInv as (HR & HW & HWW & HX).
    destruct p as [|ch| | |g| | |g|]; destruct w; try exact HI; try (destruct g; try exact HI).
    (* each remaining case: apply inv2_step *)
    all: unfold after_nogrant; cbn [acanc].
    all: try match goal with
             | |- context [if grantW ?s0 then _ else _] => destruct (grantW s0) eqn:EG
             | |- context [if grantR ?s0 then _ else _] => destruct (grantR s0) eqn:EG
             end.
    all: try match goal with
             | |- context [getch (b ?s0)] =>
               pose proof (getch_open (b s0) Hwf) as Hopen; pose proof (getch_closed_same (b s0)) as Hsame;
               pose proof (getch_nxt_mono (b s0)) as Hmono; pose proof (getch_wf (b s0) Hwf) as Hwf2;
               destruct (getch (b s0)) as [b' ch'] eqn:EGC; cbn [fst] in *; destruct Hopen as [Hlt [Hop Hcur]]
             end.
    all: apply (inv2_step s _ a HI); cbn [acts b nreaders writing ww];
      [ try exact Hwf; try exact Hwf2; try apply bcast_wf
      | try lia; try (cbn; lia)
      | intros c0 Hc0 Hcl; try exact Hcl; try (rewrite Hsame; auto; fail); try (apply bcast_closes; cbn; lia)
      | intros k x Hne Hk; eapply seta_other; eauto
      | intros x ch0 Hk Hp; pose proof (seta_self _ _ _ _ Hk) as Hpc; rewrite Hpc in Hp; try discriminate
      | intros k x ch0 Hne Hk Hp Hlt0 Hcl Hng ].
    (* actor a blocked afterwards (LWait ch') : open channel, not grantable *)
    all: try (destruct c; [discriminate|]; inversion Hp; subst ch0; split; [exact Hlt|]; right;
              destruct (seta_self_aw _ _ _ _ _ G Hk) as [Haw _]; cbn [aw] in Haw;
              unfold grantable; rewrite Haw; unfold grantW, grantR in *; cbn [nreaders writing ww];
              try exact EG;
              destruct (Nat.eqb_spec (nreaders s) 0), (writing s); cbn in *; try reflexivity; try discriminate; fail).
    (* other blocked actors after a step that does not broadcast *)
    all: try (right; unfold grantable, grantW, grantR in *; cbn [nreaders writing ww];
              destruct (aw x); destruct (Nat.eqb_spec (nreaders s) 0), (writing s), (Nat.eqb_spec (ww s) 0); cbn in *;
              try reflexivity; try discriminate; try lia;
              try (destruct (Nat.eqb_spec (S (ww s)) 0); [lia | reflexivity]);
              try (destruct (Nat.eqb_spec (pred (ww s)) 0); reflexivity); fail).
    (* steps that broadcast: every earlier channel is closed *)
    all: try (left; apply bcast_closes; cbn; lia).
    (* writer granted from LWoken: ww decremented but writing set *)
    all: try (right; unfold grantable, grantW, grantR in *; cbn [nreaders writing ww]; destruct (aw x); cbn;
              try reflexivity; rewrite andb_false_r; reflexivity).
  - (* Wake *)
    destruct (nth_error (acts s) a) as [x|] eqn:G; [|exact HI].
    destruct (apc x) eqn:Ep; try exact HI. destruct (closed (b s) ch); [|exact HI].
    apply (inv2_step s _ a HI); cbn [acts b nreaders writing ww]; auto.
    + intros k y Hne Hk; eapply seta_other; eauto.
    + intros y ch0 Hk Hp. pose proof (seta_self _ _ _ _ Hk) as Hpc. rewrite Hpc in Hp. discriminate.
  - (* CancelCtx *)
    destruct (nth_error (acts s) a) as [x|] eqn:G; [|exact HI].
    apply (inv2_step s _ a HI); cbn [acts b nreaders writing ww]; auto.
    + intros k y Hne Hk. now rewrite nth_error_set_nth_other in Hk by exact Hne.
    + intros y ch0 Hk Hp. rewrite nth_error_set_nth_same in Hk by (eapply nth_error_nth_len; eauto).
      inversion Hk; subst y. cbn [apc] in Hp. destruct (HI' a x ch0 G Hp) as [H1 H2]. split; [exact H1|].
      destruct H2 as [H2|H2]; [now left | right]. unfold grantable in *. cbn [aw]. exact H2.
  - (* CancelWake *)
    destruct (nth_error (acts s) a) as [x|] eqn:G; [|exact HI].
    destruct (apc x) eqn:Ep; try exact HI. destruct (acanc x); [|exact HI].
    apply (inv2_step s _ a HI); cbn [acts b nreaders writing ww]; auto.
    + intros k y Hne Hk; eapply seta_other; eauto.
    + intros y ch0 Hk Hp. pose proof (seta_self _ _ _ _ Hk) as Hpc. rewrite Hpc in Hp. discriminate.
  - (* Release *)
    destruct (nth_error (acts s) a) as [x|] eqn:G; [|exact HI].
    destruct (apc x) as [| | | |[]| | |[]|] eqn:Ep; try exact HI.
    all: apply (inv2_step s _ a HI); cbn [acts b nreaders writing ww]; auto;
      [ intros k y Hne Hk; eapply seta_other; eauto
      | intros y ch0 Hk Hp; pose proof (seta_self _ _ _ _ Hk) as Hpc; rewrite Hpc in Hp; discriminate ].
Qed.

Lemma init_inv2 : Inv2 init.
Proof. split; [exact I|]. intros a x ch H. destruct a; discriminate. Qed.

Theorem run_inv2 es : Inv2 (run es).
Proof.
  unfold run.
  assert (H : forall es s, Inv s /\ Inv2 s -> Inv (fold_left step es s) /\ Inv2 (fold_left step es s)).
  { clear. induction es as [|e es IH]; intros s [H1 H2]; cbn; [auto|]. apply IH. split; [now apply step_gen_inv | now apply step_inv2]. }
  apply H. split; [apply init_inv | apply init_inv2].
Qed.

(* ---- C02: at quiescence nobody who could be granted is blocked ---- *)
Lemma quiescent_actor s a x : quiescent s = true -> nth_error (acts s) a = Some x ->
  at_gate x = false /\ (forall ch, apc x = LWait ch -> closed (b s) ch = false /\ acanc x = false).
Proof.
  unfold quiescent. rewrite forallb_forall. intros H G. specialize (H x (nth_error_In _ _ G)).
  apply andb_true_iff in H as [H1 H2]. split; [now destruct (at_gate x)|].
  intros ch Hp. rewrite Hp in H2. apply andb_true_iff in H2 as [H2 H3].
  split; [now destruct (closed (b s) ch) | now destruct (acanc x)].
Qed.

Theorem quiescent_no_grantable_waiter es a x ch :
  let s := run es in
  quiescent s = true -> nth_error (acts s) a = Some x -> apc x = LWait ch -> grantable s x = false.
Proof.
  cbn. intros Hq G Hp. destruct (run_inv2 es) as [_ HI].
  destruct (HI a x ch G Hp) as [_ [Hc|Hg]]; [|exact Hg].
  destruct (quiescent_actor _ _ _ Hq G) as [_ H]. destruct (H ch Hp) as [H1 _]. congruence.
Qed.

(* read in terms of callers: a blocked reader at quiescence coexists with a write holder (at the
   API: release not yet called) or a blocked writer; a blocked writer with some holder *)
Theorem quiescent_blocked_reader_has_reason es a x ch :
  let s := run es in
  quiescent s = true -> nth_error (acts s) a = Some x -> apc x = LWait ch -> aw x = false ->
  exists k y, nth_error (acts s) k = Some y /\ aw y = true /\ (apiW y = true \/ blocked y = true).
Proof.
  cbn. intros Hq G Hp Hw. pose proof (quiescent_no_grantable_waiter es a x ch Hq G Hp) as Hg.
  unfold grantable in Hg. rewrite Hw in Hg. unfold grantR in Hg.
  destruct (run_inv es) as (HR & HW & HWW & HX).
  destruct (writing (run es)) eqn:EW; cbn [negb andb b2n] in *.
  - destruct (cnt_pos_exists holdsW (acts (run es)) ltac:(lia)) as [k [y [Hk Hy]]].
    exists k, y. split; [exact Hk|]. destruct (quiescent_actor _ _ _ Hq Hk) as [Hng _].
    unfold holdsW in Hy. apply andb_true_iff in Hy as [Hy1 Hy2]. split; [exact Hy1|]. left.
    unfold apiW, at_gate in *. rewrite Hy1. cbn [andb].
    destruct (apc y) as [| | | |[]| | |[]|]; try discriminate; reflexivity.
  - destruct (Nat.eqb_spec (ww (run es)) 0) as [E|E]; [discriminate|].
    destruct (cnt_pos_exists waitsW (acts (run es)) ltac:(lia)) as [k [y [Hk Hy]]].
    exists k, y. split; [exact Hk|]. destruct (quiescent_actor _ _ _ Hq Hk) as [Hng _].
    unfold waitsW in Hy. apply andb_true_iff in Hy as [Hy1 Hy2]. split; [exact Hy1|]. right.
    unfold blocked, at_gate in *. destruct (apc y); try discriminate; reflexivity.
Qed.

Theorem quiescent_blocked_writer_has_reason es a x ch :
  let s := run es in
  quiescent s = true -> nth_error (acts s) a = Some x -> apc x = LWait ch -> aw x = true ->
  exists k y, nth_error (acts s) k = Some y /\ (apiW y = true \/ apiR y = true).
Proof.
  cbn. intros Hq G Hp Hw. pose proof (quiescent_no_grantable_waiter es a x ch Hq G Hp) as Hg.
  unfold grantable in Hg. rewrite Hw in Hg. unfold grantW in Hg.
  destruct (run_inv es) as (HR & HW & HWW & HX).
  destruct (Nat.eqb_spec (nreaders (run es)) 0) as [E|E]; cbn [andb] in Hg.
  - destruct (writing (run es)) eqn:EW; [|discriminate]. cbn [b2n] in HW.
    destruct (cnt_pos_exists holdsW (acts (run es)) ltac:(lia)) as [k [y [Hk Hy]]].
    exists k, y. split; [exact Hk|]. destruct (quiescent_actor _ _ _ Hq Hk) as [Hng _]. left.
    unfold holdsW in Hy. apply andb_true_iff in Hy as [Hy1 Hy2].
    unfold apiW, at_gate in *. rewrite Hy1. cbn [andb].
    destruct (apc y) as [| | | |[]| | |[]|]; try discriminate; reflexivity.
  - destruct (cnt_pos_exists holdsR (acts (run es)) ltac:(lia)) as [k [y [Hk Hy]]].
    exists k, y. split; [exact Hk|]. destruct (quiescent_actor _ _ _ Hq Hk) as [Hng _]. right.
    unfold holdsR in Hy. apply andb_true_iff in Hy as [Hy1 Hy2].
    unfold apiR, at_gate in *. rewrite Hy1. cbn [andb].
    destruct (apc y) as [| | | |[]| | |[]|]; try discriminate; reflexivity.
Qed.

(* a cancelled caller is never left blocked at quiescence (it returned Canceled or holds the lock) *)
Theorem quiescent_cancelled_not_blocked es a x :
  let s := run es in
  quiescent s = true -> nth_error (acts s) a = Some x -> acanc x = true -> blocked x = false.
Proof.
  cbn. intros Hq G Hc. destruct (quiescent_actor _ _ _ Hq G) as [_ H]. unfold blocked.
  destruct (apc x) eqn:Ep; try reflexivity. destruct (H ch eq_refl) as [_ H2]. congruence.
Qed.

(* no residue: the lock's counters are functions of the calls that hold or wait; a call that
   returned Canceled or false contributes to none of them *)
Theorem no_residue es :
  let s := run es in
  nreaders s = cnt holdsR (acts s) /\ b2n (writing s) = cnt holdsW (acts s) /\ ww s = cnt waitsW (acts s) /\
  (forall x, apc x = LCanceled \/ apc x = TFalse -> holdsR x = false /\ holdsW x = false /\ waitsW x = false).
Proof.
  cbn. destruct (run_inv es) as (HR & HW & HWW & HX). repeat split; auto;
  destruct H as [H|H]; unfold holdsR, holdsW, waitsW; rewrite H; now rewrite ?andb_false_r.
Qed.

(* ---- C02: writer preference: a read grant happens only when no writer is registered waiting ---- *)
Theorem read_grant_needs_no_waiting_writer es a x :
  let s := run es in
  nth_error (acts s) a = Some x -> aw x = false -> holdsR x = false ->
  holdsR (nth a (acts (step s (Sect a))) dflt) = true ->
  cnt waitsW (acts s) = 0.
Proof.
  cbn. intros G Hw Hh. destruct (run_inv es) as (HR & HW & HWW & HX). rewrite <- HWW.
  destruct (geta _ _ _ G) as [Hl Hn].
  unfold step; cbn [step_gen]. rewrite G. destruct x as [w p c]. cbn [aw apc] in *. subst w.
  unfold holdsR in Hh. cbn [aw apc negb andb] in Hh.
  destruct p as [| | | |g| | |g|]; try destruct g; try discriminate;
    try (rewrite Hn; unfold holdsR; cbn; discriminate);
    unfold grantR; destruct (writing (run es)); cbn [negb andb];
    try destruct (Nat.eqb_spec (ww (run es)) 0); try (intros _; assumption);
    try destruct (getch (b (run es))); cbn [acts]; unfold seta; rewrite G;
    rewrite nth_set_nth_same by exact Hl; unfold holdsR, after_nogrant; cbn; try destruct c; cbn; discriminate.
Qed.

(* ---- D1: the pinned give-up (no broadcast) loses a wake-up ---- *)
Definition d1_witness : list ev :=
  [CallLock false; Sect 0; CallLock true; Sect 1; CallLock false; Sect 2; CancelCtx 1; CancelWake 1; Sect 1].

Theorem pinned_refuted :
  let s := run_pinned d1_witness in
  quiescent s = true /\ exists x ch, nth_error (acts s) 2 = Some x /\ apc x = LWait ch /\ grantable s x = true.
Proof. cbn. split; [vm_compute; reflexivity|]. eexists. eexists. vm_compute. repeat split. Qed.

(* on the repaired model the same schedule wakes the reader *)
Example fixed_wakes_reader :
  let s := run d1_witness in quiescent s = false /\ exists x ch, nth_error (acts s) 2 = Some x /\ apc x = LWait ch /\ closed (b s) ch = true.
Proof. cbn. split; [vm_compute; reflexivity|]. eexists. eexists. vm_compute. repeat split. Qed.
