(* csync.Mutex at gate granularity (C01, C02).  Same conventions as RWModel.v.  Differences in the
   code: no writer registration; a waiter that gives up calls release() with status 0, which
   returns without entering a section, so cancellation returns Canceled at once.  No proofs here. *)
From Util Require Import Common.Base Common.ListLemmas.
From Util Require Import CSync.RWModel.   (* grant *)

Inductive mpc :=
| MStart | MWait (ch : nat) | MWoken | MHeld (g : grant) | MCanceled
| MTStart | MTHeld (g : grant) | MTFalse.

Record mactor := { mp : mpc; mc : bool }.
Record mst := { mb : bc; locked : bool; macts : list mactor }.

Inductive mev := MCallLock | MCallTry | MSect (a : nat) | MWake (a : nat) | MCancelCtx (a : nat) | MCancelWake (a : nat) | MRelease (a : nat).

Definition minit : mst := {| mb := bc0; locked := false; macts := [] |}.

Definition mseta (s : mst) (a : nat) (p : mpc) : list mactor :=
  match nth_error (macts s) a with
  | Some x => set_nth (macts s) a {| mp := p; mc := mc x |}
  | None => macts s
  end.

Definition mstep (s : mst) (e : mev) : mst :=
  match e with
  | MCallLock => {| mb := mb s; locked := locked s; macts := macts s ++ [{| mp := MStart; mc := false |}] |}
  | MCallTry => {| mb := mb s; locked := locked s; macts := macts s ++ [{| mp := MTStart; mc := false |}] |}
  | MSect a =>
    match nth_error (macts s) a with
    | None => s
    | Some x =>
      match mp x with
      | MStart | MWoken =>
        if locked s
        then let '(b', ch) := getch (mb s) in
             (* not granted: the select sees ctx.Done if cancelled -> release() with status 0 -> Canceled *)
             {| mb := b'; locked := true; macts := mseta s a (if mc x then MCanceled else MWait ch) |}
        else {| mb := mb s; locked := true; macts := mseta s a (MHeld Granted) |}
      | MTStart =>
        if locked s then {| mb := mb s; locked := true; macts := mseta s a MTFalse |}
        else {| mb := mb s; locked := true; macts := mseta s a (MTHeld Granted) |}
      | MHeld RelCalled => {| mb := bcast (mb s); locked := false; macts := mseta s a (MHeld Released) |}
      | MTHeld RelCalled => {| mb := bcast (mb s); locked := false; macts := mseta s a (MTHeld Released) |}
      | _ => s
      end
    end
  | MWake a =>
    match nth_error (macts s) a with
    | Some x => match mp x with
                | MWait ch => if closed (mb s) ch then {| mb := mb s; locked := locked s; macts := mseta s a MWoken |} else s
                | _ => s
                end
    | None => s
    end
  | MCancelCtx a =>
    match nth_error (macts s) a with
    | Some x => {| mb := mb s; locked := locked s; macts := set_nth (macts s) a {| mp := mp x; mc := true |} |}
    | None => s
    end
  | MCancelWake a =>
    match nth_error (macts s) a with
    | Some x => match mp x with
                | MWait _ => if mc x then {| mb := mb s; locked := locked s; macts := mseta s a MCanceled |} else s
                | _ => s
                end
    | None => s
    end
  | MRelease a =>
    match nth_error (macts s) a with
    | Some x => match mp x with
                | MHeld Granted => {| mb := mb s; locked := locked s; macts := mseta s a (MHeld RelCalled) |}
                | MTHeld Granted => {| mb := mb s; locked := locked s; macts := mseta s a (MTHeld RelCalled) |}
                | _ => s
                end
    | None => s
    end
  end.

Definition mrun (es : list mev) : mst := fold_left mstep es minit.

Definition mh (p : mpc) : bool := match p with MHeld g | MTHeld g => unreleased g | _ => false end.
Definition mholds (x : mactor) : bool := mh (mp x).
Definition mapi (x : mactor) : bool := match mp x with MHeld Granted | MTHeld Granted => true | _ => false end.
Definition mat_gate (x : mactor) : bool :=
  match mp x with MStart | MWoken | MTStart | MHeld RelCalled | MTHeld RelCalled => true | _ => false end.
Definition mblocked (x : mactor) : bool := match mp x with MWait _ => true | _ => false end.
Definition mquiescent (s : mst) : bool :=
  forallb (fun x => negb (mat_gate x) &&
                    match mp x with MWait ch => negb (closed (mb s) ch) && negb (mc x) | _ => true end) (macts s).
