(* Proofs about the Mutex model. *)
From Util Require Import Common.Base Common.ListLemmas CSync.RWModel CSync.MModel.

Definition mdflt : mactor := {| mp := MTFalse; mc := false |}.

Definition MInv (s : mst) : Prop :=
  b2n (locked s) = cnt mholds (macts s) /\
  bc_wf (mb s) /\
  forall a x ch, nth_error (macts s) a = Some x -> mp x = MWait ch ->
    ch < nxt (mb s) /\ (closed (mb s) ch = true \/ locked s = true).

Lemma mgeta s a x : nth_error (macts s) a = Some x -> a < length (macts s) /\ nth a (macts s) mdflt = x.
Proof. intros H. split; [eapply nth_error_nth_len; eauto | now apply nth_error_nth]. Qed.

Lemma mseta_lookup s a p k x' :
  nth_error (mseta s a p) k = Some x' ->
  (k <> a /\ nth_error (macts s) k = Some x') \/
  (k = a /\ exists x, nth_error (macts s) a = Some x /\ x' = {| mp := p; mc := mc x |}).
Proof.
  unfold mseta. destruct (nth_error (macts s) a) as [x|] eqn:G.
  - destruct (Nat.eq_dec k a) as [->|Hne].
    + rewrite nth_error_set_nth_same by (eapply nth_error_nth_len; eauto). intros H; inversion H. right. split; [reflexivity|]. now exists x.
    + rewrite nth_error_set_nth_other by exact Hne. intros H. left. now split.
  - intros H. destruct (Nat.eq_dec k a) as [->|Hne]; [congruence | now left].
Qed.

Lemma mseta_cnt s a p x : nth_error (macts s) a = Some x ->
  cnt mholds (mseta s a p) + b2n (mh (mp x)) = cnt mholds (macts s) + b2n (mh p).
Proof.
  intros G. destruct (mgeta _ _ _ G) as [Hl Hn]. unfold mseta. rewrite G.
  pose proof (cnt_set_nth mholds (macts s) a {| mp := p; mc := mc x |} mdflt Hl) as H. now rewrite Hn in H.
Qed.

(* the waiter part of the invariant after a step that changes only actor a *)
Lemma minv_waiters s b' l' acts' a :
  MInv s ->
  nxt (mb s) <= nxt b' ->
  (forall c, c < nxt (mb s) -> closed (mb s) c = true -> closed b' c = true) ->
  (forall k x, k <> a -> nth_error acts' k = Some x -> nth_error (macts s) k = Some x) ->
  (forall x ch, nth_error acts' a = Some x -> mp x = MWait ch -> ch < nxt b' /\ (closed b' ch = true \/ l' = true)) ->
  (forall c, c < nxt (mb s) -> closed (mb s) c = false -> locked s = true -> closed b' c = true \/ l' = true) ->
  forall k x ch, nth_error acts' k = Some x -> mp x = MWait ch -> ch < nxt b' /\ (closed b' ch = true \/ l' = true).
Proof.
  intros (_ & Hwf & HI) Hn Hc Hoth Ha Hl k x ch Hk Hp.
  destruct (Nat.eq_dec k a) as [->|Hne]; [now apply (Ha x ch)|].
  destruct (HI k x ch (Hoth k x Hne Hk) Hp) as [Hlt [Hcl|Hlk]].
  - split; [lia|]. left. now apply Hc.
  - split; [lia|]. destruct (closed (mb s) ch) eqn:Ecl; [left; now apply Hc | now apply Hl].
Qed.

Ltac m_other := intros k y Hne Hk; destruct (mseta_lookup _ _ _ _ _ Hk) as [[_ H1]|[H1 _]]; [exact H1 | congruence].
Ltac m_self_notwait := intros y ch0 Hk Hp; destruct (mseta_lookup _ _ _ _ _ Hk) as [[H1 _]|[_ [z [Gz ->]]]]; [congruence|]; cbn [mp] in Hp; discriminate.

Lemma mstep_inv s e : MInv s -> MInv (mstep s e).
Proof.
  intros HI. pose proof HI as (HL & Hwf & HW). destruct e as [| |a|a|a|a|a]; cbn [mstep].
  - (* call *) split; [|split; [exact Hwf|]]; cbn [locked macts mb].
    + rewrite cnt_app. unfold cnt at 2. cbn. lia.
    + intros k x ch Hk Hp. apply nth_error_app_inv in Hk as [Hk| ->]; [eauto | discriminate].
  - split; [|split; [exact Hwf|]]; cbn [locked macts mb].
    + rewrite cnt_app. unfold cnt at 2. cbn. lia.
    + intros k x ch Hk Hp. apply nth_error_app_inv in Hk as [Hk| ->]; [eauto | discriminate].
  - (* section *)
    destruct (nth_error (macts s) a) as [x|] eqn:G; [|exact HI].
    destruct x as [p c]. cbn [mp mc].
    pose proof (mseta_cnt s a) as HC; specialize (fun p => HC p _ G); cbn [mp mc] in HC.
    destruct p as [|ch| |g| | |g|]; try exact HI; try (destruct g; try exact HI).
    all: cbn [mh mp unreleased b2n] in HC.
    all: try match goal with |- context [if locked ?s0 then _ else _] => destruct (locked s0) eqn:EL end.
    all: try match goal with
             | |- context [getch (mb ?s0)] =>
               pose proof (getch_open (mb s0) Hwf) as Hopen; pose proof (getch_closed_same (mb s0)) as Hsame;
               pose proof (getch_nxt_mono (mb s0)) as Hmono; pose proof (getch_wf (mb s0) Hwf) as Hwf2;
               destruct (getch (mb s0)) as [b' ch'] eqn:EGC; cbn [fst] in *; destruct Hopen as [Hlt [Hop Hcur]]
             end.
    all: split; [|split]; cbn [locked macts mb];
      [ try destruct c; match goal with |- _ = cnt mholds (mseta _ _ ?p) => specialize (HC p) end;
        cbn [mh b2n mp unreleased] in *; try lia; destruct (locked s); cbn [b2n] in *; lia
      | try exact Hwf; try exact Hwf2; try apply bcast_wf
      | ].
    all: eapply (minv_waiters s _ _ _ a HI); cbn [mb];
      [ try lia; cbn; lia
      | intros c0 Hc0 Hcl; try exact Hcl; try (rewrite Hsame; auto; fail); try (apply bcast_closes; cbn; lia)
      | m_other
      | intros y ch0 Hk Hp; destruct (mseta_lookup _ _ _ _ _ Hk) as [[H1 _]|[_ [z [Gz ->]]]]; [congruence|]; cbn [mp] in Hp;
        try discriminate; try (destruct c; [discriminate|]; inversion Hp; subst ch0; split; [exact Hlt | now right])
      | intros c0 Hc0 Hcl Hlk; try (right; reflexivity); try (left; apply bcast_closes; cbn; lia); try congruence ].
  - (* wake *)
    destruct (nth_error (macts s) a) as [x|] eqn:G; [|exact HI].
    destruct (mp x) eqn:Ep; try exact HI. destruct (closed (mb s) ch); [|exact HI].
    pose proof (mseta_cnt s a MWoken _ G) as HC. rewrite Ep in HC. cbn [mh b2n] in HC.
    split; [|split; [exact Hwf|]]; cbn [locked macts mb]; [lia|].
    eapply (minv_waiters s _ _ _ a HI); cbn [mb]; auto; [m_other | m_self_notwait].
  - (* cancel ctx *)
    destruct (nth_error (macts s) a) as [x|] eqn:G; [|exact HI].
    destruct (mgeta _ _ _ G) as [Hl Hn].
    pose proof (cnt_set_nth mholds (macts s) a {| mp := mp x; mc := true |} mdflt Hl) as HC. rewrite Hn in HC.
    unfold mholds in HC at 2 4. cbn [mp] in HC.
    split; [|split; [exact Hwf|]]; cbn [locked macts mb]; [lia|].
    eapply (minv_waiters s _ _ _ a HI); cbn [mb]; auto.
    + intros k y Hne Hk. now rewrite nth_error_set_nth_other in Hk by exact Hne.
    + intros y ch0 Hk Hp. rewrite nth_error_set_nth_same in Hk by exact Hl. inversion Hk; subst y. cbn [mp] in Hp. eauto.
  - (* cancel wake *)
    destruct (nth_error (macts s) a) as [x|] eqn:G; [|exact HI].
    destruct (mp x) eqn:Ep; try exact HI. destruct (mc x); [|exact HI].
    pose proof (mseta_cnt s a MCanceled _ G) as HC. rewrite Ep in HC. cbn [mh b2n] in HC.
    split; [|split; [exact Hwf|]]; cbn [locked macts mb]; [lia|].
    eapply (minv_waiters s _ _ _ a HI); cbn [mb]; auto; [m_other | m_self_notwait].
  - (* release *)
    destruct (nth_error (macts s) a) as [x|] eqn:G; [|exact HI].
    destruct (mp x) as [| | |[]| | |[]|] eqn:Ep; try exact HI.
    all: match goal with |- MInv {| macts := mseta _ _ ?p |} => pose proof (mseta_cnt s a p _ G) as HC end;
      rewrite Ep in HC; cbn [mh b2n unreleased] in HC;
      (split; [|split; [exact Hwf|]]); cbn [locked macts mb]; [lia|];
      eapply (minv_waiters s _ _ _ a HI); cbn [mb]; auto; [m_other | m_self_notwait].
Qed.

Lemma minit_inv : MInv minit.
Proof. split; [reflexivity | split; [exact I|]]. intros a x ch H. destruct a; discriminate. Qed.

Theorem mrun_inv es : MInv (mrun es).
Proof. unfold mrun. apply fold_inv; [apply mstep_inv | apply minit_inv]. Qed.

(* ---- C01 ---- *)
Lemma mapi_le l : cnt mapi l <= cnt mholds l.
Proof. apply cnt_le. intros [p c]. unfold mapi, mholds, mh; cbn. destruct p as [| | |[]| | |[]|]; auto. Qed.

Theorem mutex_exclusion es : cnt mapi (macts (mrun es)) <= 1.
Proof. destruct (mrun_inv es) as (HL & _). pose proof (mapi_le (macts (mrun es))). destruct (locked (mrun es)); cbn [b2n] in HL; lia. Qed.

Theorem mutex_release_idempotent s a x :
  nth_error (macts s) a = Some x -> mp x <> MHeld Granted -> mp x <> MTHeld Granted -> mstep s (MRelease a) = s.
Proof. intros G H1 H2. cbn [mstep]. rewrite G. destruct (mp x) as [| | |[]| | |[]|]; try reflexivity; congruence. Qed.

Theorem mutex_failed_trylock_inert s a x :
  nth_error (macts s) a = Some x -> mp x = MTStart -> locked s = true ->
  let s' := mstep s (MSect a) in
  mb s' = mb s /\ locked s' = locked s /\ mp (nth a (macts s') mdflt) = MTFalse /\
  forall k, k <> a -> nth_error (macts s') k = nth_error (macts s) k.
Proof.
  intros G Hp HL. cbn [mstep]. rewrite G, Hp, HL. cbn [mb locked macts]. destruct (mgeta _ _ _ G) as [Hl Hn].
  unfold mseta. rewrite G. rewrite nth_set_nth_same by exact Hl. repeat split; auto.
  intros k Hk. now apply nth_error_set_nth_other.
Qed.

(* a Lock that returns Canceled never touched the lock state other than allocating wait channels *)
Theorem mutex_cancel_inert s a x :
  nth_error (macts s) a = Some x ->
  let s' := mstep s (MCancelWake a) in mb s' = mb s /\ locked s' = locked s.
Proof. intros G. cbn [mstep]. rewrite G. destruct (mp x); auto. destruct (mc x); auto. Qed.

(* ---- C02 ---- *)
Lemma mquiescent_actor s a x : mquiescent s = true -> nth_error (macts s) a = Some x ->
  mat_gate x = false /\ (forall ch, mp x = MWait ch -> closed (mb s) ch = false /\ mc x = false).
Proof.
  unfold mquiescent. rewrite forallb_forall. intros H G. specialize (H x (nth_error_In _ _ G)).
  apply andb_true_iff in H as [H1 H2]. split; [now destruct (mat_gate x)|].
  intros ch Hp. rewrite Hp in H2. apply andb_true_iff in H2 as [H2 H3].
  split; [now destruct (closed (mb s) ch) | now destruct (mc x)].
Qed.

(* at quiescence a blocked caller coexists with a holder at the API *)
Theorem mutex_quiescent_blocked_has_holder es a x ch :
  let s := mrun es in
  mquiescent s = true -> nth_error (macts s) a = Some x -> mp x = MWait ch ->
  exists k y, nth_error (macts s) k = Some y /\ mapi y = true.
Proof.
  cbn. intros Hq G Hp. destruct (mrun_inv es) as (HL & Hwf & HW).
  destruct (HW a x ch G Hp) as [_ [Hc|Hlk]].
  - destruct (mquiescent_actor _ _ _ Hq G) as [_ H]. destruct (H ch Hp). congruence.
  - rewrite Hlk in HL. cbn [b2n] in HL.
    destruct (cnt_pos_exists mholds (macts (mrun es)) ltac:(lia)) as [k [y [Hk Hy]]].
    exists k, y. split; [exact Hk|]. destruct (mquiescent_actor _ _ _ Hq Hk) as [Hng _].
    unfold mholds, mh, mapi, mat_gate in *. destruct (mp y) as [| | |[]| | |[]|]; try discriminate; reflexivity.
Qed.

Theorem mutex_quiescent_cancelled_not_blocked es a x :
  let s := mrun es in
  mquiescent s = true -> nth_error (macts s) a = Some x -> mc x = true -> mblocked x = false.
Proof.
  cbn. intros Hq G Hc. destruct (mquiescent_actor _ _ _ Hq G) as [_ H]. unfold mblocked.
  destruct (mp x) eqn:Ep; try reflexivity. destruct (H ch eq_refl) as [_ H2]. congruence.
Qed.

(* no residue: the locked flag is exactly "some call holds"; a Canceled / false call does not *)
Theorem mutex_no_residue es :
  let s := mrun es in
  b2n (locked s) = cnt mholds (macts s) /\ (forall x, mp x = MCanceled \/ mp x = MTFalse -> mholds x = false).
Proof. cbn. destruct (mrun_inv es) as (HL & _). split; [exact HL|]. intros x [H|H]; unfold mholds, mh; now rewrite H. Qed.
