(* C02 — csync locks: grantable waiters are granted, cancelled waiters leave no trace.
   Liveness is stated as quiescence safety (DESIGN.md section 3.2): in every reachable state in
   which no internal step is enabled, no blocked caller could be granted. *)
From Util Require Import Common.Base Common.ListLemmas CSync.RWModel CSync.RWProofs CSync.MModel CSync.MProofs CSync.MTerm.

(* the invariant behind it: a caller blocked on a still-open channel is not grantable *)
Theorem c02_rwmutex_no_lost_wakeup : forall es,
  let s := run es in
  forall a x ch, nth_error (acts s) a = Some x -> apc x = LWait ch ->
    ch < nxt (b s) /\ (closed (b s) ch = true \/ grantable s x = false).
Proof. intros es. exact (proj2 (run_inv2 es)). Qed.
Print Assumptions c02_rwmutex_no_lost_wakeup.

Theorem c02_rwmutex_quiescent_no_grantable_waiter : forall es a x ch,
  let s := run es in
  quiescent s = true -> nth_error (acts s) a = Some x -> apc x = LWait ch -> grantable s x = false.
Proof. exact quiescent_no_grantable_waiter. Qed.
Print Assumptions c02_rwmutex_quiescent_no_grantable_waiter.

(* a reader blocked at quiescence coexists with a write holder or a blocked writer *)
Theorem c02_rwmutex_blocked_reader_has_reason : forall es a x ch,
  let s := run es in
  quiescent s = true -> nth_error (acts s) a = Some x -> apc x = LWait ch -> aw x = false ->
  exists k y, nth_error (acts s) k = Some y /\ aw y = true /\ (apiW y = true \/ blocked y = true).
Proof. exact quiescent_blocked_reader_has_reason. Qed.
Print Assumptions c02_rwmutex_blocked_reader_has_reason.

(* a writer blocked at quiescence coexists with a holder *)
Theorem c02_rwmutex_blocked_writer_has_reason : forall es a x ch,
  let s := run es in
  quiescent s = true -> nth_error (acts s) a = Some x -> apc x = LWait ch -> aw x = true ->
  exists k y, nth_error (acts s) k = Some y /\ (apiW y = true \/ apiR y = true).
Proof. exact quiescent_blocked_writer_has_reason. Qed.
Print Assumptions c02_rwmutex_blocked_writer_has_reason.

(* a caller whose context was cancelled is not left blocked *)
Theorem c02_rwmutex_cancelled_not_blocked : forall es a x,
  let s := run es in
  quiescent s = true -> nth_error (acts s) a = Some x -> acanc x = true -> blocked x = false.
Proof. exact quiescent_cancelled_not_blocked. Qed.
Print Assumptions c02_rwmutex_cancelled_not_blocked.

(* cancelled and failed calls leave no residue in the lock's counters *)
Theorem c02_rwmutex_no_residue : forall es,
  let s := run es in
  nreaders s = cnt holdsR (acts s) /\ b2n (writing s) = cnt holdsW (acts s) /\ ww s = cnt waitsW (acts s) /\
  (forall x, apc x = LCanceled \/ apc x = TFalse -> holdsR x = false /\ holdsW x = false /\ waitsW x = false).
Proof. exact no_residue. Qed.
Print Assumptions c02_rwmutex_no_residue.

(* writer preference: whenever a section grants a read lock, no writer is registered waiting *)
Theorem c02_rwmutex_writer_preference : forall es a x,
  let s := run es in
  nth_error (acts s) a = Some x -> aw x = false -> holdsR x = false ->
  holdsR (nth a (acts (step s (Sect a))) dflt) = true ->
  cnt waitsW (acts s) = 0.
Proof. exact read_grant_needs_no_waiting_writer. Qed.
Print Assumptions c02_rwmutex_writer_preference.

(* historical: the pinned give-up section (defect D1, repaired by a fix: commit) loses a wake-up *)
Theorem c02_rwmutex_pinned_refuted :
  let s := run_pinned d1_witness in
  quiescent s = true /\ exists x ch, nth_error (acts s) 2 = Some x /\ apc x = LWait ch /\ grantable s x = true.
Proof. exact pinned_refuted. Qed.

(* non-vacuity: a quiescent state with a blocked reader and a blocked writer behind a read holder *)
Example c02_example_quiescent_blocked :
  let s := run [CallLock false; Sect 0; CallLock true; Sect 1; CallLock false; Sect 2] in
  quiescent s = true /\ cnt blocked (acts s) = 2 /\ cnt apiR (acts s) = 1.
Proof. vm_compute. repeat split; reflexivity. Qed.

(* ---------------- Mutex ---------------- *)
Theorem c02_mutex_no_lost_wakeup : forall es,
  let s := mrun es in
  forall a x ch, nth_error (macts s) a = Some x -> mp x = MWait ch ->
    ch < nxt (mb s) /\ (closed (mb s) ch = true \/ locked s = true).
Proof. intros es. exact (proj2 (proj2 (mrun_inv es))). Qed.
Print Assumptions c02_mutex_no_lost_wakeup.

Theorem c02_mutex_quiescent_blocked_has_holder : forall es a x ch,
  let s := mrun es in
  mquiescent s = true -> nth_error (macts s) a = Some x -> mp x = MWait ch ->
  exists k y, nth_error (macts s) k = Some y /\ mapi y = true.
Proof. exact mutex_quiescent_blocked_has_holder. Qed.
Print Assumptions c02_mutex_quiescent_blocked_has_holder.

Theorem c02_mutex_cancelled_not_blocked : forall es a x,
  let s := mrun es in
  mquiescent s = true -> nth_error (macts s) a = Some x -> mc x = true -> mblocked x = false.
Proof. exact mutex_quiescent_cancelled_not_blocked. Qed.
Print Assumptions c02_mutex_cancelled_not_blocked.

Theorem c02_mutex_no_residue : forall es,
  let s := mrun es in
  b2n (locked s) = cnt mholds (macts s) /\ (forall x, mp x = MCanceled \/ mp x = MTFalse -> mholds x = false).
Proof. exact mutex_no_residue. Qed.
Print Assumptions c02_mutex_no_residue.

(* "without needing any further unrelated acquire or release": internal steps terminate.  Every internal event
   (a critical section of a caller at a gate, a wake-up, a give-up) that changes the state strictly decreases an
   explicit measure, so from every reachable state every run of effective internal events is at most [mmeasure s]
   long; and a state in which no internal event changes anything is quiescent, where the clauses above apply. *)
Theorem c02_mutex_internal_step_decreases : forall es e,
  let s := mrun es in
  internal e = true -> mstep s e <> s -> mmeasure (mstep s e) < mmeasure s.
Proof. intros es e s. apply internal_step_decreases. exact (mrun_inv es). Qed.
Print Assumptions c02_mutex_internal_step_decreases.

Theorem c02_mutex_internal_steps_terminate : forall es is,
  effective_run (mrun es) is -> length is <= mmeasure (mrun es).
Proof. intros es is. apply internal_steps_terminate. exact (mrun_inv es). Qed.
Print Assumptions c02_mutex_internal_steps_terminate.

Theorem c02_mutex_stuck_is_quiescent : forall s,
  (forall a, mstep s (MSect a) = s /\ mstep s (MWake a) = s /\ mstep s (MCancelWake a) = s) -> mquiescent s = true.
Proof. exact stuck_is_quiescent. Qed.
Print Assumptions c02_mutex_stuck_is_quiescent.

Example c02_example_mutex_measure :
  let s := mrun [MCallLock; MSect 0; MCallLock; MSect 1; MCallLock; MSect 2; MRelease 0] in
  mmeasure s = 8 /\ mmeasure (mstep s (MSect 0)) = 4 /\ effective_run s [MSect 0; MWake 1; MWake 2; MSect 2; MSect 1].
Proof. vm_compute. repeat split; discriminate. Qed.
