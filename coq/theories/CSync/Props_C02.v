(* C02 — csync locks: grantable waiters are granted, cancelled waiters leave no trace.
   Liveness is stated as quiescence safety (DESIGN.md section 3.2): in every reachable state in
   which no internal step is enabled, no blocked caller could be granted. *)
From Util Require Import Common.Base Common.ListLemmas CSync.RWModel CSync.RWProofs CSync.MModel CSync.MProofs CSync.MTerm CSync.RWTerm.
From Util Require Import CSync.RWSpec CSync.MSpec CSync.MonCore CSync.RWProofsMon CSync.MProofsMon.

(* the invariant behind it: a caller blocked on a still-open channel is not grantable *)
Theorem c02_rwmutex_no_lost_wakeup : forall es,
  let s := run es in
  forall a x ch, nth_error (acts s) a = Some x -> apc x = LWait ch ->
    ch < nxt (b s) /\ (closed (b s) ch = true \/ grantable s x = false).
Proof. intros es. exact (proj2 (run_inv2 es)). Qed.
Print Assumptions c02_rwmutex_no_lost_wakeup.

Theorem c02_rwmutex_quiescent_no_grantable_waiter : forall es a x ch,
  let s := run es in
  quiescent s = true -> nth_error (acts s) a = Some x -> apc x = LWait ch -> grantable s x = false.
Proof. exact quiescent_no_grantable_waiter. Qed.
Print Assumptions c02_rwmutex_quiescent_no_grantable_waiter.

(* a reader blocked at quiescence coexists with a write holder or a blocked writer *)
Theorem c02_rwmutex_blocked_reader_has_reason : forall es a x ch,
  let s := run es in
  quiescent s = true -> nth_error (acts s) a = Some x -> apc x = LWait ch -> aw x = false ->
  exists k y, nth_error (acts s) k = Some y /\ aw y = true /\ (apiW y = true \/ blocked y = true).
Proof. exact quiescent_blocked_reader_has_reason. Qed.
Print Assumptions c02_rwmutex_blocked_reader_has_reason.

(* a writer blocked at quiescence coexists with a holder *)
Theorem c02_rwmutex_blocked_writer_has_reason : forall es a x ch,
  let s := run es in
  quiescent s = true -> nth_error (acts s) a = Some x -> apc x = LWait ch -> aw x = true ->
  exists k y, nth_error (acts s) k = Some y /\ (apiW y = true \/ apiR y = true).
Proof. exact quiescent_blocked_writer_has_reason. Qed.
Print Assumptions c02_rwmutex_blocked_writer_has_reason.

(* a caller whose context was cancelled is not left blocked *)
Theorem c02_rwmutex_cancelled_not_blocked : forall es a x,
  let s := run es in
  quiescent s = true -> nth_error (acts s) a = Some x -> acanc x = true -> blocked x = false.
Proof. exact quiescent_cancelled_not_blocked. Qed.
Print Assumptions c02_rwmutex_cancelled_not_blocked.

(* cancelled and failed calls leave no residue in the lock's counters *)
Theorem c02_rwmutex_no_residue : forall es,
  let s := run es in
  nreaders s = cnt holdsR (acts s) /\ b2n (writing s) = cnt holdsW (acts s) /\ ww s = cnt waitsW (acts s) /\
  (forall x, apc x = LCanceled \/ apc x = TFalse -> holdsR x = false /\ holdsW x = false /\ waitsW x = false).
Proof. exact no_residue. Qed.
Print Assumptions c02_rwmutex_no_residue.

(* writer preference: whenever a section grants a read lock, no writer is registered waiting *)
Theorem c02_rwmutex_writer_preference : forall es a x,
  let s := run es in
  nth_error (acts s) a = Some x -> aw x = false -> holdsR x = false ->
  holdsR (nth a (acts (step s (Sect a))) dflt) = true ->
  cnt waitsW (acts s) = 0.
Proof. exact read_grant_needs_no_waiting_writer. Qed.
Print Assumptions c02_rwmutex_writer_preference.

(* historical: the pinned give-up section (defect D1, repaired by a fix: commit) loses a wake-up *)
Theorem c02_rwmutex_pinned_refuted :
  let s := run_pinned d1_witness in
  quiescent s = true /\ exists x ch, nth_error (acts s) 2 = Some x /\ apc x = LWait ch /\ grantable s x = true.
Proof. exact pinned_refuted. Qed.

(* non-vacuity: a quiescent state with a blocked reader and a blocked writer behind a read holder *)
Example c02_example_quiescent_blocked :
  let s := run [CallLock false; Sect 0; CallLock true; Sect 1; CallLock false; Sect 2] in
  quiescent s = true /\ cnt blocked (acts s) = 2 /\ cnt apiR (acts s) = 1.
Proof. vm_compute. repeat split; reflexivity. Qed.

(* ---------------- Mutex ---------------- *)
Theorem c02_mutex_no_lost_wakeup : forall es,
  let s := mrun es in
  forall a x ch, nth_error (macts s) a = Some x -> mp x = MWait ch ->
    ch < nxt (mb s) /\ (closed (mb s) ch = true \/ locked s = true).
Proof. intros es. exact (proj2 (proj2 (mrun_inv es))). Qed.
Print Assumptions c02_mutex_no_lost_wakeup.

Theorem c02_mutex_quiescent_blocked_has_holder : forall es a x ch,
  let s := mrun es in
  mquiescent s = true -> nth_error (macts s) a = Some x -> mp x = MWait ch ->
  exists k y, nth_error (macts s) k = Some y /\ mapi y = true.
Proof. exact mutex_quiescent_blocked_has_holder. Qed.
Print Assumptions c02_mutex_quiescent_blocked_has_holder.

Theorem c02_mutex_cancelled_not_blocked : forall es a x,
  let s := mrun es in
  mquiescent s = true -> nth_error (macts s) a = Some x -> mc x = true -> mblocked x = false.
Proof. exact mutex_quiescent_cancelled_not_blocked. Qed.
Print Assumptions c02_mutex_cancelled_not_blocked.

Theorem c02_mutex_no_residue : forall es,
  let s := mrun es in
  b2n (locked s) = cnt mholds (macts s) /\ (forall x, mp x = MCanceled \/ mp x = MTFalse -> mholds x = false).
Proof. exact mutex_no_residue. Qed.
Print Assumptions c02_mutex_no_residue.

(* "without needing any further unrelated acquire or release": internal steps terminate.  Every internal event
   (a critical section of a caller at a gate, a wake-up, a give-up) that changes the state strictly decreases an
   explicit measure, so from every reachable state every run of effective internal events is at most [mmeasure s]
   long; and a state in which no internal event changes anything is quiescent, where the clauses above apply. *)
Theorem c02_mutex_internal_step_decreases : forall es e,
  let s := mrun es in
  internal e = true -> mstep s e <> s -> mmeasure (mstep s e) < mmeasure s.
Proof. intros es e s. apply internal_step_decreases. exact (mrun_inv es). Qed.
Print Assumptions c02_mutex_internal_step_decreases.

Theorem c02_mutex_internal_steps_terminate : forall es is,
  effective_run (mrun es) is -> length is <= mmeasure (mrun es).
Proof. intros es is. apply internal_steps_terminate. exact (mrun_inv es). Qed.
Print Assumptions c02_mutex_internal_steps_terminate.

Theorem c02_mutex_stuck_is_quiescent : forall s,
  (forall a, mstep s (MSect a) = s /\ mstep s (MWake a) = s /\ mstep s (MCancelWake a) = s) -> mquiescent s = true.
Proof. exact stuck_is_quiescent. Qed.
Print Assumptions c02_mutex_stuck_is_quiescent.

Example c02_example_mutex_measure :
  let s := mrun [MCallLock; MSect 0; MCallLock; MSect 1; MCallLock; MSect 2; MRelease 0] in
  mmeasure s = 8 /\ mmeasure (mstep s (MSect 0)) = 4 /\ effective_run s [MSect 0; MWake 1; MWake 2; MSect 2; MSect 1].
Proof. vm_compute. repeat split; discriminate. Qed.

(* ---------------- RWMutex: internal steps terminate ----------------
   Same statement as for the Mutex.  [rwmeasure s] = (number of calls that can still run a broadcasting section: release()
   entered, or a cancelled writer that has not returned) * (2 * calls + 2) + sum of per-call weights; every internal event
   (a critical section of a caller at a gate, a wake-up, a give-up) that changes the state strictly decreases it. *)
Theorem c02_rwmutex_internal_step_decreases : forall es e,
  let s := run es in
  rw_internal e = true -> step s e <> s -> rwmeasure (step s e) < rwmeasure s.
Proof. intros es e s. apply rw_internal_step_decreases. exact (run_inv2 es). Qed.
Print Assumptions c02_rwmutex_internal_step_decreases.

Theorem c02_rwmutex_internal_steps_terminate : forall es is,
  rw_effective_run (run es) is -> length is <= rwmeasure (run es).
Proof. intros es is. apply rw_internal_steps_terminate; [exact (run_inv es) | exact (run_inv2 es)]. Qed.
Print Assumptions c02_rwmutex_internal_steps_terminate.

Theorem c02_rwmutex_stuck_is_quiescent : forall s,
  (forall a, step s (Sect a) = s /\ step s (Wake a) = s /\ step s (CancelWake a) = s) -> quiescent s = true.
Proof. exact rw_stuck_is_quiescent. Qed.
Print Assumptions c02_rwmutex_stuck_is_quiescent.

(* non-vacuity: a read holder, a blocked writer and a blocked reader; the holder enters release(): the unlocking section
   broadcasts, both waiters wake, the writer is granted, the reader blocks again *)
Example c02_example_rwmutex_measure :
  let s := run [CallLock false; Sect 0; CallLock true; Sect 1; CallLock false; Sect 2; Release 0] in
  rwmeasure s = 8 /\ rwmeasure (step s (Sect 0)) = 4 /\ rw_effective_run s [Sect 0; Wake 1; Wake 2; Sect 2; Sect 1].
Proof. vm_compute. repeat split; discriminate. Qed.

(* ---------------- the monitors accept the models ----------------
   The quiescence / cancellation / writer-preference clauses (2,1)-(2,4) of the monitors are evaluated by the same function
   as the exclusion clauses of C01; the theorem (proved in RWProofsMon.v / MProofsMon.v, see Props_C01.v) covers all of
   them: for every event list the checkers' monitors report nothing on the model's own observations. *)
Theorem c02_rwmutex_model_satisfies_monitors : forall evs,
  monitor (lmon mon (@length mact)) 0 ([], lockers0) [] evs
          (run_obs (lstep hstep (fun h => length (hmap h))) (hinit, lockers0) evs) = [].
Proof. exact model_satisfies_monitors. Qed.
Print Assumptions c02_rwmutex_model_satisfies_monitors.

Theorem c02_rwmutex_model_run_check_clean : forall cfg evs,
  length (run_obs (lstep hstep (fun h => length (hmap h))) (hinit, lockers0) evs) = length evs ->
  run_check_rwmutex cfg evs (run_obs (lstep hstep (fun h => length (hmap h))) (hinit, lockers0) evs) = [].
Proof. intros cfg evs Hl. exact (model_run_check_clean evs Hl cfg). Qed.
Print Assumptions c02_rwmutex_model_run_check_clean.

Theorem c02_mutex_model_satisfies_monitors : forall evs,
  monitor (lmon mon_mutex (@length mact)) 0 ([], lockers0) [] evs
          (run_obs (lstep mhstep (fun h => length (mhmap h))) (mhinit, lockers0) evs) = [].
Proof. exact mutex_model_satisfies_monitors. Qed.
Print Assumptions c02_mutex_model_satisfies_monitors.

Theorem c02_mutex_model_run_check_clean : forall cfg evs,
  length (run_obs (lstep mhstep (fun h => length (mhmap h))) (mhinit, lockers0) evs) = length evs ->
  run_check_mutex cfg evs (run_obs (lstep mhstep (fun h => length (mhmap h))) (mhinit, lockers0) evs) = [].
Proof. intros cfg evs Hl. exact (mutex_model_run_check_clean evs Hl cfg). Qed.
Print Assumptions c02_mutex_model_run_check_clean.

(* non-vacuity: the D1 schedule (a waiting writer gives up behind a read holder while a reader waits behind it) is accepted
   by the model completely, the reader ends up granted, and the checker is silent on the model's observations *)
Example c02_example_model_history :
  let evs := [[1; 0]; [3; 0]; [1; 1]; [3; 1]; [1; 0]; [3; 2]; [4; 1]; [3; 1]; [3; 2]]%N in
  let obss := run_obs (lstep hstep (fun h => length (hmap h))) (hinit, lockers0) evs in
  length obss = length evs /\ last obss [] = [3; 4; 3]%N /\ run_check_rwmutex [] evs obss = [].
Proof. vm_compute. repeat split; reflexivity. Qed.
