(* RWMutex: codec between harness histories and model events, the eager ("settled") schedule
   the harness realises, observation vector, and the monitors of C01/C02 on observed traces. *)
From Util Require Import Common.Base Common.ListLemmas CSync.RWModel.

(* harness actors: one per Lock/TryLock call, and one per call of a release function *)
Inductive hact := HCall (m : nat) | HRel (t : nat) (first : bool) | HPanic.
Record hst := { ms : st; hmap : list hact }.
Definition hinit : hst := {| ms := init; hmap := [] |}.

(* all blocked callers whose channel is closed wake up (the harness lets them run to their gate) *)
Definition settle (s : st) : st := fold_left (fun s a => step s (Wake a)) (seq 0 (length (acts s))) s.

Definition code_pc (p : pc) : N :=
  match p with
  | LStart | LWoken | LGiveUp | TStart => 1
  | LWait _ => 2
  | LHeld _ | THeld _ => 3
  | LCanceled => 4
  | TFalse => 5
  end%N.

Definition code (s : st) (h : hact) : N :=
  match h with
  | HCall m => match nth_error (acts s) m with Some x => code_pc (apc x) | None => 0%N end
  | HRel t first =>
    if first then
      match nth_error (acts s) t with
      | Some x => match apc x with LHeld RelCalled | THeld RelCalled => 1%N | _ => 6%N end
      | None => 0%N
      end
    else 6%N
  | HPanic => 9%N
  end.

Definition obs (h : hst) : list N := map (code (ms h)) (hmap h).

Definition is_call_gate (p : pc) : bool := match p with LStart | LWoken | LGiveUp | TStart => true | _ => false end.
Definition is_lock_pc (p : pc) : bool := match p with LStart | LWait _ | LWoken | LGiveUp | LHeld _ | LCanceled => true | _ => false end.

Definition hstep (h : hst) (e : list N) : option (hst * list N) :=
  let s := ms h in
  let ret h' := Some (h', obs h') in
  match e with
  | [1; w] => ret {| ms := step s (CallLock (N.eqb w 1)); hmap := hmap h ++ [HCall (length (acts s))] |}
  | [2; w] => ret {| ms := step s (CallTry (N.eqb w 1)); hmap := hmap h ++ [HCall (length (acts s))] |}
  | [3; i] =>
    match nth_error (hmap h) (N.to_nat i) with
    | Some (HCall m) =>
      match nth_error (acts s) m with
      | Some x => if is_call_gate (apc x) then ret {| ms := settle (step s (Sect m)); hmap := hmap h |} else None
      | None => None
      end
    | Some (HRel t true) =>
      match nth_error (acts s) t with
      | Some x => match apc x with
                  | LHeld RelCalled | THeld RelCalled => ret {| ms := settle (step s (Sect t)); hmap := hmap h |}
                  | _ => None
                  end
      | None => None
      end
    | _ => None
    end
  | [4; i] =>
    match nth_error (hmap h) (N.to_nat i) with
    | Some (HCall m) =>
      match nth_error (acts s) m with
      | Some x => if is_lock_pc (apc x)
                  then ret {| ms := step (step s (CancelCtx m)) (CancelWake m); hmap := hmap h |}
                  else None
      | None => None
      end
    | _ => None
    end
  | [5; i] =>
    match nth_error (hmap h) (N.to_nat i) with
    | Some (HCall m) =>
      match nth_error (acts s) m with
      | Some x => match apc x with
                  | LHeld g | THeld g =>
                    ret {| ms := step s (Release m);
                           hmap := hmap h ++ [HRel m (match g with Granted => true | _ => false end)] |}
                  | _ => None
                  end
      | None => None
      end
    | _ => None
    end
  | [8] => ret {| ms := s; hmap := hmap h ++ [HPanic] |}      (* Locker.Unlock of an unlocked locker: panics *)
  | _ => None
  end%N.

(* ---------------- monitors (on the implementation's observations only) ---------------- *)
Record mact := { mk : N;          (* 0 Lock(read) 1 Lock(write) 2 TryLock(read) 3 TryLock(write) 4 release call *)
                 mrel : bool;     (* a release of this grant has been entered *)
                 mcanc : bool;    (* its context was cancelled *)
                 mreg : bool;     (* write Lock: observed blocked and not yet returned *)
                 mfirst : bool;   (* its first section has run *)
                 mgranted : bool; (* observed returned-ok already *)
                 mblk : list nat  (* read Lock: writers registered when its first section ran, still registered *)
               }.
Definition mnew (k : N) : mact := {| mk := k; mrel := false; mcanc := false; mreg := false; mfirst := false; mgranted := false; mblk := [] |}.

Definition upd {A} (l : list A) (i : nat) (f : A -> A) : list A :=
  match nth_error l i with Some x => set_nth l i (f x) | None => l end.

Definition is_w (m : mact) : bool := N.eqb (mk m) 1 || N.eqb (mk m) 3.
Definition is_r (m : mact) : bool := N.eqb (mk m) 0 || N.eqb (mk m) 2.

Definition count_b (l : list bool) : nat := length (filter (fun x => x) l).

Definition mon (ml : list mact) (e o : list N) : list mact * list (nat * nat) :=
  (* 1. apply the event *)
  let regs_before := map fst (filter (fun p => mreg (snd p)) (combine (seq 0 (length ml)) ml)) in
  let ml1 :=
    match e with
    | [1; w] => ml ++ [mnew (if N.eqb w 1 then 1 else 0)]
    | [2; w] => ml ++ [mnew (if N.eqb w 1 then 3 else 2)]
    | [3; i] => upd ml (N.to_nat i) (fun m =>
                  if mfirst m then m
                  else {| mk := mk m; mrel := mrel m; mcanc := mcanc m; mreg := mreg m; mfirst := true; mgranted := mgranted m;
                          mblk := if N.eqb (mk m) 0 || N.eqb (mk m) 2 then regs_before else [] |})
    | [4; i] => upd ml (N.to_nat i) (fun m => {| mk := mk m; mrel := mrel m; mcanc := true; mreg := mreg m; mfirst := mfirst m; mgranted := mgranted m; mblk := mblk m |})
    | [5; i] => upd ml (N.to_nat i) (fun m => {| mk := mk m; mrel := true; mcanc := mcanc m; mreg := mreg m; mfirst := mfirst m; mgranted := mgranted m; mblk := mblk m |}) ++ [mnew 4]
    | [8] => ml ++ [mnew 4]
    | _ => ml
    end%N in
  let pairs := combine ml1 o in
  (* 2. registration of waiting writers from the observed codes *)
  let ml2 := map (fun p : mact * N => let (m, c) := p in
                  {| mk := mk m; mrel := mrel m; mcanc := mcanc m;
                     mreg := if N.eqb (mk m) 1 then (if N.eqb c 2 then true else if N.eqb c 3 || N.eqb c 4 then false else mreg m) else false;
                     mfirst := mfirst m; mgranted := mgranted m; mblk := mblk m |}) pairs in
  let still := fun j => match nth_error ml2 j with Some m => mreg m | None => false end in
  let ml3 := map (fun m => {| mk := mk m; mrel := mrel m; mcanc := mcanc m; mreg := mreg m; mfirst := mfirst m; mgranted := mgranted m;
                              mblk := filter still (mblk m) |}) ml2 in
  let pairs3 := combine ml3 o in
  let holdsW := count_b (map (fun p : mact * N => let (m, c) := p in is_w m && N.eqb c 3 && negb (mrel m)) pairs3) in
  let holdsR := count_b (map (fun p : mact * N => let (m, c) := p in is_r m && N.eqb c 3 && negb (mrel m)) pairs3) in
  let quiet := negb (existsb (N.eqb 1) o) in
  let blockedR := existsb (fun p : mact * N => let (m, c) := p in N.eqb (mk m) 0 && N.eqb c 2) pairs3 in
  let blockedW := existsb (fun p : mact * N => let (m, c) := p in N.eqb (mk m) 1 && N.eqb c 2) pairs3 in
  let canc_blocked := existsb (fun p : mact * N => let (m, c) := p in mcanc m && N.eqb c 2) pairs3 in
  (* a read Lock newly observed granted while one of its blockers is still registered *)
  let pref_bad := existsb (fun p : mact * N => let (m, c) := p in
                     (N.eqb (mk m) 0 || N.eqb (mk m) 2) && N.eqb c 3 && negb (mgranted m) && negb (match mblk m with [] => true | _ => false end)) pairs3 in
  let ml4 := map (fun p : mact * N => let (m, c) := p in
                  {| mk := mk m; mrel := mrel m; mcanc := mcanc m; mreg := mreg m; mfirst := mfirst m;
                     mgranted := mgranted m || N.eqb c 3; mblk := mblk m |}) pairs3 in
  let fails :=
    (if Nat.ltb 1 holdsW then [(1, 1)] else []) ++
    (if Nat.ltb 0 holdsW && Nat.ltb 0 holdsR then [(1, 2)] else []) ++
    (if quiet && blockedR && negb (Nat.ltb 0 holdsW || blockedW) then [(2, 1)] else []) ++
    (if quiet && blockedW && Nat.eqb (holdsW + holdsR) 0 then [(2, 2)] else []) ++
    (if quiet && canc_blocked then [(2, 3)] else []) ++
    (if pref_bad then [(2, 4)] else [])
  in (ml4, fails).

(* ---------------- the sync.Locker wrappers (Locker(), RLocker()) ----------------
   Locker.Lock   = Lock(context.Background(), write) and, once granted, push the release function on the locker's stack;
   Locker.Unlock = pop the most recent release function and call it; panic if there is none.
   At the level of histories:  [6 w] Locker.Lock on the write (w = 1) / read (w = 0) locker, a Lock call whose context is
   never cancelled and whose release function only the locker holds;  [7 w] Locker.Unlock.  Both are translated to the
   events above; the stacks are kept from what is OBSERVED (an entry is pushed when its call is seen granted), by the
   same function on the model side and on the monitor side. *)
Record lockers := { lown : list (nat * bool); lall : list nat; lstk_r : list nat; lstk_w : list nat }.
Definition lockers0 : lockers := {| lown := []; lall := []; lstk_r := []; lstk_w := [] |}.

Definition push_granted (l : lockers) (o : list N) : lockers :=
  fold_left (fun (l : lockers) (iw : nat * bool) =>
               let '(i, w) := iw in
               if N.eqb (nth i o 0%N) 3
               then {| lown := filter (fun jw : nat * bool => negb (Nat.eqb (fst jw) i)) (lown l); lall := lall l;
                       lstk_r := if w then lstk_r l else i :: lstk_r l; lstk_w := if w then i :: lstk_w l else lstk_w l |}
               else l) (lown l) l.

(* translate one history event; returns the inner event and the lockers after it (before the push rule) *)
Definition ltranslate (l : lockers) (n : nat) (e : list N) : option (list N * lockers) :=
  match e with
  | [6; w] => Some ([1; w], {| lown := lown l ++ [(n, N.eqb w 1)]; lall := lall l ++ [n]; lstk_r := lstk_r l; lstk_w := lstk_w l |})
  | [7; w] =>
    if N.eqb w 1 then
      match lstk_w l with
      | i :: r => Some ([5; N.of_nat i], {| lown := lown l; lall := lall l; lstk_r := lstk_r l; lstk_w := r |})
      | [] => Some ([8], l)
      end
    else
      match lstk_r l with
      | i :: r => Some ([5; N.of_nat i], {| lown := lown l; lall := lall l; lstk_r := r; lstk_w := lstk_w l |})
      | [] => Some ([8], l)
      end
  | [4; i] | [5; i] => if existsb (Nat.eqb (N.to_nat i)) (lall l) then None else Some (e, l)
  | [8] => None
  | _ => Some (e, l)
  end%N.

Definition lstep {H} (inner : H -> list N -> option (H * list N)) (nent : H -> nat)
           (hl : H * lockers) (e : list N) : option ((H * lockers) * list N) :=
  let '(h, l) := hl in
  match ltranslate l (nent h) e with
  | Some (e', l') =>
    match inner h e' with
    | Some (h', o) => Some ((h', push_granted l' o), o)
    | None => None
    end
  | None => None
  end.

Definition lmon {M} (inner : M -> list N -> list N -> M * list (nat * nat)) (nent : M -> nat)
           (ml : M * lockers) (e o : list N) : (M * lockers) * list (nat * nat) :=
  let '(m, l) := ml in
  match ltranslate l (nent m) e with
  | Some (e', l') =>
    let '(m', f) := inner m e' o in
    (* clause (1,3): Locker.Unlock panics exactly when the locker holds nothing *)
    let f' := match e, e' with
              | [7%N; _], [8%N] => if N.eqb (last o 0%N) 9%N then [] else [(1%nat, 3%nat)]
              | [7%N; _], _ => if N.eqb (last o 0%N) 9%N then [(1%nat, 3%nat)] else []
              | _, _ => []
              end in
    (* clause (2,5): a Lock call that returns an error returns context.Canceled (status 7 = it returned another error) *)
    let f'' := if existsb (N.eqb 7%N) o then [(2%nat, 5%nat)] else [] in
    ((m', push_granted l' o), f ++ f' ++ f'')
  | None => (ml, [])
  end.

Definition run_check_rwmutex (cfg : list N) (evs obss : list (list N)) : list issue :=
  run_check (lstep hstep (fun h => length (hmap h))) (lmon mon (@length mact)) (hinit, lockers0) ([], lockers0) evs obss.
