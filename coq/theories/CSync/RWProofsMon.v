(* RWMutex: the monitors of RWSpec.v (through the sync.Locker layer, exactly what run_check_rwmutex evaluates) report nothing
   on the model's own observations, for every event list.  Monitor half: MonCore.v; this file supplies the descriptors of
   the RWMutex model and shows that they satisfy the clauses, from the invariants of RWProofs.v. *)
From Util Require Import Common.Base Common.ListLemmas CSync.RWModel CSync.RWProofs CSync.RWSpec CSync.MonCore.

(* ------------------------------------------------------------------ *)
(* harness actors that are calls *)
Fixpoint calls (hm : list hact) : list nat :=
  match hm with
  | [] => []
  | HCall k :: r => k :: calls r
  | _ :: r => calls r
  end.

Lemma calls_app a c : calls (a ++ c) = calls a ++ calls c.
Proof. induction a as [|h t IH]; [reflexivity|]. destruct h; cbn [calls app]; now rewrite IH. Qed.

Lemma In_calls hm k : In k (calls hm) <-> In (HCall k) hm.
Proof.
  induction hm as [|h t IH]; [tauto|]. destruct h as [m| |]; cbn [calls In]; rewrite IH; split; intros H.
  - destruct H as [->|H]; auto.
  - destruct H as [H|H]; [inversion H; auto | auto].
  - auto.
  - destruct H as [H|H]; [discriminate | auto].
  - auto.
  - destruct H as [H|H]; [discriminate | auto].
Qed.

Lemma calls_inj hm : NoDup (calls hm) -> forall i j k, nth_error hm i = Some (HCall k) -> nth_error hm j = Some (HCall k) -> i = j.
Proof.
  induction hm as [|h t IH]; intros Hnd i j k Hi Hj; [destruct i; discriminate|].
  assert (Hnd' : NoDup (calls t)) by (destruct h; cbn [calls] in Hnd; [now inversion Hnd | exact Hnd | exact Hnd]).
  destruct i as [|i], j as [|j]; cbn [nth_error] in *; [reflexivity | | | f_equal; eapply IH; eauto].
  - inversion Hi; subst h. cbn [calls] in Hnd. inversion Hnd as [|? ? Hnin _]. exfalso. apply Hnin.
    apply In_calls. eapply nth_error_In; eauto.
  - inversion Hj; subst h. cbn [calls] in Hnd. inversion Hnd as [|? ? Hnin _]. exfalso. apply Hnin.
    apply In_calls. eapply nth_error_In; eauto.
Qed.

(* counting over the harness actors = counting over the model's calls *)
Lemma count_seq {A} (P : A -> bool) (l : list A) :
  count_b (map (fun k => match nth_error l k with Some x => P x | None => false end) (seq 0 (length l))) = cnt P l.
Proof.
  induction l as [|h t IH]; [reflexivity|]. cbn [length seq map nth_error].
  rewrite <- seq_shift, map_map. cbn [nth_error]. rewrite cnt_cons. unfold count_b in *. cbn [filter].
  destruct (P h); cbn [length b2n]; rewrite IH; reflexivity.
Qed.

Lemma count_calls (G : hact -> bool) (F : nat -> bool) hm :
  (forall k, G (HCall k) = F k) -> (forall t f, G (HRel t f) = false) -> G HPanic = false ->
  count_b (map G hm) = count_b (map F (calls hm)).
Proof.
  intros H1 H2 H3. induction hm as [|h t IH]; [reflexivity|]. unfold count_b in *.
  destruct h as [k|t0 f|]; cbn [calls map filter].
  - rewrite H1. destruct (F k); cbn [length]; now rewrite IH.
  - now rewrite H2.
  - now rewrite H3.
Qed.

(* ------------------------------------------------------------------ *)
(* descriptors of the RWMutex model *)
Definition is_held (p : pc) : bool := match p with LHeld _ | THeld _ => true | _ => false end.
Definition rel_entered (p : pc) : bool :=
  match p with LHeld Granted | THeld Granted => false | LHeld _ | THeld _ => true | _ => false end.
Definition waits (p : pc) : bool := match p with LWait _ | LWoken | LGiveUp => true | _ => false end.
Definition kind_of (x : actor) : N :=
  (if is_lock_pc (apc x) then (if aw x then 1 else 0) else (if aw x then 3 else 2))%N.

Definition ddflt : desc := {| dk := 4; dc := 0; drel := false; dcanc := false; dw := false |}.
Definition desc_x (x : actor) : desc :=
  {| dk := kind_of x; dc := code_pc (apc x); drel := rel_entered (apc x); dcanc := acanc x; dw := waitsW x |}.
Definition desc_of (s : st) (ha : hact) : desc :=
  match ha with
  | HCall k => match nth_error (acts s) k with Some x => desc_x x | None => ddflt end
  | _ => {| dk := 4; dc := code s ha; drel := false; dcanc := false; dw := false |}
  end.

Lemma desc_code s ha : dc (desc_of s ha) = code s ha.
Proof. destruct ha as [k|t f|]; cbn [desc_of]; [|reflexivity|reflexivity]. cbn [code]. destruct (nth_error (acts s) k); reflexivity. Qed.

Lemma obs_desc h : obs h = map dc (map (desc_of (ms h)) (hmap h)).
Proof. unfold obs. rewrite map_map. apply map_ext. intros ha. symmetry. apply desc_code. Qed.

Lemma code3_held p : code_pc p = 3%N <-> is_held p = true.
Proof. destruct p; cbn; split; intros H; try discriminate; reflexivity. Qed.

(* ------------------------------------------------------------------ *)
(* what one model step does to one actor *)

Definition atr (x x' : actor) : Prop :=
  aw x' = aw x /\ is_lock_pc (apc x') = is_lock_pc (apc x) /\
  (is_held (apc x) = true -> is_held (apc x') = true) /\
  (apc x = LCanceled -> apc x' = LCanceled) /\
  (waits (apc x) = true -> is_held (apc x') = true \/ apc x' = LCanceled \/ waits (apc x') = true).

Lemma atr_refl x : atr x x.
Proof. repeat split; auto. Qed.

Lemma atr_trans x y z : atr x y -> atr y z -> atr x z.
Proof.
  intros (A1 & A2 & A3 & A4 & A5) (B1 & B2 & B3 & B4 & B5). repeat split; try congruence; auto.
  intros Hw. destruct (A5 Hw) as [H|[H|H]]; auto.
Qed.

Lemma nth_error_len_some {A} (l : list A) k : k < length l -> exists x, nth_error l k = Some x.
Proof. intros H. destruct (nth_error l k) eqn:E; [eauto|]. apply nth_error_None in E. lia. Qed.

Lemma seta_get s a p k x : nth_error (acts s) k = Some x ->
  exists x', nth_error (seta s a p) k = Some x' /\ aw x' = aw x /\ acanc x' = acanc x /\
             ((k <> a /\ apc x' = apc x) \/ (k = a /\ apc x' = p)).
Proof.
  intros G. unfold seta. destruct (nth_error (acts s) a) as [y|] eqn:Ga.
  - destruct (Nat.eq_dec k a) as [->|Hne].
    + rewrite nth_error_set_nth_same by (eapply nth_error_nth_len; eauto). rewrite G in Ga. inversion Ga; subst y.
      eexists. split; [reflexivity|]. cbn [aw acanc apc]. auto.
    + rewrite nth_error_set_nth_other by exact Hne. exists x. repeat split; auto.
  - exists x. repeat split; auto. left. split; [|reflexivity]. intros ->. congruence.
Qed.

Lemma seta_len s a p : length (seta s a p) = length (acts s).
Proof. unfold seta. destruct (nth_error (acts s) a); [apply length_set_nth | reflexivity]. Qed.

(* a critical section *)
Definition sect_res (s s' : st) (x x' : actor) : Prop :=
  apc x' = apc x \/
  ((apc x = LStart \/ apc x = LWoken) /\
     ((apc x' = LHeld Granted /\ (aw x = false -> ww s' = 0)) \/ (exists ch, apc x' = LWait ch /\ acanc x = false) \/ apc x' = LGiveUp)) \/
  (apc x = LGiveUp /\ apc x' = LCanceled) \/
  (apc x = TStart /\ ((apc x' = THeld Granted /\ (aw x = false -> ww s' = 0)) \/ apc x' = TFalse)) \/
  (apc x = LHeld RelCalled /\ apc x' = LHeld Released) \/
  (apc x = THeld RelCalled /\ apc x' = THeld Released).

Ltac srch :=
  match goal with
  | |- _ \/ _ => first [left; srch | right; srch]
  | |- _ /\ _ => split; srch
  | |- exists _, _ => eexists; srch
  | |- _ -> _ => intros; srch
  | |- _ => first [reflexivity | discriminate | lia | assumption | congruence]
  end.

Lemma sect_actor s a k x : nth_error (acts s) k = Some x ->
  let s' := step s (Sect a) in
  exists x', nth_error (acts s') k = Some x' /\ aw x' = aw x /\ acanc x' = acanc x /\
             (k <> a -> apc x' = apc x) /\ sect_res s s' x x'.
Proof.
  intros G. cbn zeta. unfold step. cbn [step_gen].
  destruct (nth_error (acts s) a) as [y|] eqn:Ga.
  2:{ exists x. repeat split; auto. now left. }
  assert (Hy : k = a -> y = x) by (intros ->; congruence).
  destruct y as [w p c]. unfold grantW, grantR, after_nogrant. cbn [apc aw acanc].
  destruct p as [|ch| | |g| | |g|]; destruct w; try destruct g;
    try (exists x; repeat split; auto; now left);
    try destruct (Nat.eqb (nreaders s) 0); try destruct (writing s); try destruct (Nat.eqb_spec (ww s) 0); cbn [andb negb];
    try destruct (getch (b s)) as [b' ch']; try destruct c; cbn [acts ww];
    match goal with |- context [seta s a ?p] => destruct (seta_get s a p k x G) as (x' & Gx' & E1 & E2 & [[Hne E3]|[-> E3]]) end;
    exists x'; (split; [exact Gx'|]); (split; [exact E1|]); (split; [exact E2|]); (split; [tauto|]);
    try (left; exact E3); specialize (Hy eq_refl); subst x; unfold sect_res; cbn [apc aw acanc ww] in *; rewrite E3; srch.
Qed.

Lemma sect_len s a : length (acts (step s (Sect a))) = length (acts s).
Proof.
  unfold step. cbn [step_gen]. destruct (nth_error (acts s) a) as [y|]; [|reflexivity].
  destruct (apc y) as [|ch| | |g| | |g|]; destruct (aw y); try destruct g; try reflexivity;
    try destruct (grantW s); try destruct (grantR s); try destruct (getch (b s)); cbn [acts]; apply seta_len.
Qed.

(* a wake-up *)
Lemma wake_actor s a k x : nth_error (acts s) k = Some x ->
  let s' := step s (Wake a) in
  exists x', nth_error (acts s') k = Some x' /\ aw x' = aw x /\ acanc x' = acanc x /\
             (apc x' = apc x \/ (exists ch, apc x = LWait ch /\ apc x' = LWoken)) /\
             (k = a -> forall ch, apc x' = LWait ch -> closed (b s) ch = false).
Proof.
  intros G. cbn zeta. unfold step. cbn [step_gen].
  destruct (nth_error (acts s) a) as [y|] eqn:Ga.
  2:{ exists x. repeat split; auto. intros ->. congruence. }
  assert (Hy : k = a -> y = x) by (intros ->; congruence).
  assert (Hsame : forall ch, apc y <> LWait ch \/ closed (b s) ch = false ->
            exists x', nth_error (acts s) k = Some x' /\ aw x' = aw x /\ acanc x' = acanc x /\
              (apc x' = apc x \/ (exists ch, apc x = LWait ch /\ apc x' = LWoken)) /\
              (k = a -> forall ch0, apc x' = LWait ch0 -> ch0 = ch -> closed (b s) ch0 = false)).
  { intros ch Hc. exists x. repeat split; auto. intros Hk ch0 Hp ->. specialize (Hy Hk). subst y. destruct Hc; [congruence | assumption]. }
  destruct (apc y) as [|ch| | |g| | |g|] eqn:Ep;
    try (exists x; repeat split; auto; intros Hk ch0 Hp; specialize (Hy Hk); subst y; congruence).
  destruct (closed (b s) ch) eqn:Ec.
  - cbn [acts]. destruct (seta_get s a LWoken k x G) as (x' & Gx' & E1 & E2 & [[Hne E3]|[-> E3]]); exists x'; repeat split; auto.
    + intros Hk. contradiction.
    + right. specialize (Hy eq_refl). subst y. eauto.
    + intros _ ch0 Hp. congruence.
  - exists x. repeat split; auto. intros Hk ch0 Hp. specialize (Hy Hk). subst y. rewrite Ep in Hp. inversion Hp; subst ch0. exact Ec.
Qed.

Lemma wake_scalars s a : let s' := step s (Wake a) in
  b s' = b s /\ nreaders s' = nreaders s /\ writing s' = writing s /\ ww s' = ww s /\ length (acts s') = length (acts s).
Proof.
  cbn zeta. unfold step. cbn [step_gen]. destruct (nth_error (acts s) a) as [y|]; [|auto 6].
  destruct (apc y); auto 6. destruct (closed (b s) ch); auto 6. cbn [b nreaders writing ww acts]. rewrite seta_len. auto 6.
Qed.

Lemma wakes_fold l : forall s, let s' := fold_left (fun s a => step s (Wake a)) l s in
  b s' = b s /\ nreaders s' = nreaders s /\ writing s' = writing s /\ ww s' = ww s /\ length (acts s') = length (acts s) /\
  forall k x, nth_error (acts s) k = Some x ->
    exists x', nth_error (acts s') k = Some x' /\ aw x' = aw x /\ acanc x' = acanc x /\
               (apc x' = apc x \/ (exists ch, apc x = LWait ch /\ apc x' = LWoken)) /\
               (In k l -> forall ch, apc x' = LWait ch -> closed (b s) ch = false).
Proof.
  induction l as [|a l IH]; intros s; cbn [fold_left].
  - repeat split; auto. intros k x G. exists x. repeat split; auto. intros [].
  - destruct (wake_scalars s a) as (S1 & S2 & S3 & S4 & S5).
    destruct (IH (step s (Wake a))) as (T1 & T2 & T3 & T4 & T5 & TA).
    repeat split; try congruence.
    intros k x G. destruct (wake_actor s a k x G) as (x1 & G1 & A1 & A2 & A3 & A4).
    destruct (TA k x1 G1) as (x' & G' & B1 & B2 & B3 & B4). exists x'.
    split; [exact G'|]. split; [congruence|]. split; [congruence|]. split.
    + destruct B3 as [B3|(ch & B3 & B3')]; destruct A3 as [A3|(ch1 & A3 & A3')].
      * left; congruence.
      * right. exists ch1. split; congruence.
      * right. exists ch. split; congruence.
      * congruence.
    + intros [<-|Hin] ch Hp.
      * destruct B3 as [B3|(ch0 & _ & B3')]; [|congruence]. apply A4; [reflexivity | congruence].
      * rewrite <- S1. now apply B4.
Qed.

Lemma settle_facts s : let s' := settle s in
  b s' = b s /\ nreaders s' = nreaders s /\ writing s' = writing s /\ ww s' = ww s /\ length (acts s') = length (acts s) /\
  forall k x, nth_error (acts s) k = Some x ->
    exists x', nth_error (acts s') k = Some x' /\ aw x' = aw x /\ acanc x' = acanc x /\
               (apc x' = apc x \/ (exists ch, apc x = LWait ch /\ apc x' = LWoken)) /\
               (forall ch, apc x' = LWait ch -> closed (b s') ch = false).
Proof.
  cbn zeta. unfold settle. destruct (wakes_fold (seq 0 (length (acts s))) s) as (T1 & T2 & T3 & T4 & T5 & TA).
  repeat split; auto. intros k x G. destruct (TA k x G) as (x' & G' & B1 & B2 & B3 & B4). exists x'. repeat split; auto.
  intros ch Hp. rewrite T1. apply B4; [|exact Hp]. apply in_seq. apply nth_error_nth_len in G. lia.
Qed.

Lemma settle_run s : settle s = fold_left step (map Wake (seq 0 (length (acts s)))) s.
Proof.
  unfold settle. generalize (seq 0 (length (acts s))) as l. generalize s as s0.
  intros s0 l. revert s0. induction l as [|a l IH]; intros s0; cbn [fold_left map]; [reflexivity | apply IH].
Qed.

(* a context cancellation *)
Lemma cancelctx_actor s a k x : nth_error (acts s) k = Some x ->
  let s' := step s (CancelCtx a) in
  exists x', nth_error (acts s') k = Some x' /\ aw x' = aw x /\ apc x' = apc x /\
             (k = a -> acanc x' = true) /\ (k <> a -> acanc x' = acanc x).
Proof.
  intros G. cbn zeta. unfold step. cbn [step_gen].
  destruct (nth_error (acts s) a) as [y|] eqn:Ga.
  2:{ exists x. repeat split; auto. intros ->. congruence. }
  cbn [acts]. destruct (Nat.eq_dec k a) as [->|Hne].
  - rewrite nth_error_set_nth_same by (eapply nth_error_nth_len; eauto). rewrite G in Ga. inversion Ga; subst y.
    eexists. split; [reflexivity|]. cbn [aw apc acanc]. repeat split; auto; try (intros Hc; congruence).
  - rewrite nth_error_set_nth_other by exact Hne. exists x. repeat split; auto; try (intros Hc; congruence).
Qed.

Lemma cancelctx_scalars s a : let s' := step s (CancelCtx a) in
  b s' = b s /\ nreaders s' = nreaders s /\ writing s' = writing s /\ ww s' = ww s /\ length (acts s') = length (acts s).
Proof.
  cbn zeta. unfold step. cbn [step_gen]. destruct (nth_error (acts s) a) as [y|]; [|auto 6].
  cbn [b nreaders writing ww acts]. rewrite length_set_nth. auto 6.
Qed.

Lemma cancelwake_actor s a k x : nth_error (acts s) k = Some x ->
  let s' := step s (CancelWake a) in
  exists x', nth_error (acts s') k = Some x' /\ aw x' = aw x /\ acanc x' = acanc x /\
             (apc x' = apc x \/ (exists ch, apc x = LWait ch /\ apc x' = LGiveUp)) /\
             (k = a -> acanc x = true -> forall ch, apc x' <> LWait ch).
Proof.
  intros G. cbn zeta. unfold step. cbn [step_gen].
  destruct (nth_error (acts s) a) as [y|] eqn:Ga.
  2:{ exists x. repeat split; auto. intros ->. congruence. }
  assert (Hy : k = a -> y = x) by (intros ->; congruence).
  destruct (apc y) as [|ch| | |g| | |g|] eqn:Ep;
    try (exists x; repeat split; auto; intros Hk Hc ch0 Hp; specialize (Hy Hk); subst y; congruence).
  destruct (acanc y) eqn:Ec.
  - cbn [acts]. destruct (seta_get s a LGiveUp k x G) as (x' & Gx' & E1 & E2 & [[Hne E3]|[-> E3]]); exists x'; repeat split; auto;
      try (intros Hk; contradiction); try (right; specialize (Hy eq_refl); subst y; eauto; fail); try (intros _ _ ch0 Hp; congruence).
  - exists x. repeat split; auto. intros Hk Hc. specialize (Hy Hk). subst y. congruence.
Qed.

Lemma cancelwake_scalars s a : let s' := step s (CancelWake a) in
  b s' = b s /\ nreaders s' = nreaders s /\ writing s' = writing s /\ ww s' = ww s /\ length (acts s') = length (acts s).
Proof.
  cbn zeta. unfold step. cbn [step_gen]. destruct (nth_error (acts s) a) as [y|]; [|auto 6].
  destruct (apc y); auto 6. destruct (acanc y); auto 6. cbn [b nreaders writing ww acts]. rewrite seta_len. auto 6.
Qed.

(* entering release() *)
Lemma release_actor s a k x : nth_error (acts s) k = Some x ->
  let s' := step s (Release a) in
  exists x', nth_error (acts s') k = Some x' /\ aw x' = aw x /\ acanc x' = acanc x /\
             (apc x' = apc x \/ (k = a /\ ((apc x = LHeld Granted /\ apc x' = LHeld RelCalled) \/ (apc x = THeld Granted /\ apc x' = THeld RelCalled)))) /\
             (k = a -> is_held (apc x) = true -> rel_entered (apc x') = true).
Proof.
  intros G. cbn zeta. unfold step. cbn [step_gen].
  destruct (nth_error (acts s) a) as [y|] eqn:Ga.
  2:{ exists x. repeat split; auto. intros ->. congruence. }
  assert (Hy : k = a -> y = x) by (intros ->; congruence).
  destruct (apc y) as [|ch| | |g| | |g|] eqn:Ep; try destruct g;
    try (exists x; repeat split; auto; intros Hk Hh; specialize (Hy Hk); subst y; rewrite Ep in *; try discriminate; reflexivity).
  - cbn [acts]. destruct (seta_get s a (LHeld RelCalled) k x G) as (x' & Gx' & E1 & E2 & [[Hne E3]|[-> E3]]); exists x'; repeat split; auto;
      try (intros Hk; contradiction); try (right; specialize (Hy eq_refl); subst y; auto; fail); try (intros _ _; now rewrite E3).
  - cbn [acts]. destruct (seta_get s a (THeld RelCalled) k x G) as (x' & Gx' & E1 & E2 & [[Hne E3]|[-> E3]]); exists x'; repeat split; auto;
      try (intros Hk; contradiction); try (right; specialize (Hy eq_refl); subst y; auto; fail); try (intros _ _; now rewrite E3).
Qed.

Lemma release_scalars s a : let s' := step s (Release a) in
  b s' = b s /\ nreaders s' = nreaders s /\ writing s' = writing s /\ ww s' = ww s /\ length (acts s') = length (acts s).
Proof.
  cbn zeta. unfold step. cbn [step_gen]. destruct (nth_error (acts s) a) as [y|]; [|auto 6].
  destruct (apc y) as [| | | |[]| | |[]|]; auto 6; cbn [b nreaders writing ww acts]; rewrite seta_len; auto 6.
Qed.

(* ------------------------------------------------------------------ *)
(* the accepted harness events *)
Inductive hcase (h : hst) : list N -> hst -> Prop :=
| HC_lock w : hcase h [1; w]%N {| ms := step (ms h) (CallLock (N.eqb w 1)); hmap := hmap h ++ [HCall (length (acts (ms h)))] |}
| HC_try w : hcase h [2; w]%N {| ms := step (ms h) (CallTry (N.eqb w 1)); hmap := hmap h ++ [HCall (length (acts (ms h)))] |}
| HC_sect i m x :
    nth_error (hmap h) (N.to_nat i) = Some (HCall m) \/ nth_error (hmap h) (N.to_nat i) = Some (HRel m true) ->
    nth_error (acts (ms h)) m = Some x ->
    hcase h [3; i]%N {| ms := settle (step (ms h) (Sect m)); hmap := hmap h |}
| HC_cancel i m x :
    nth_error (hmap h) (N.to_nat i) = Some (HCall m) -> nth_error (acts (ms h)) m = Some x ->
    hcase h [4; i]%N {| ms := step (step (ms h) (CancelCtx m)) (CancelWake m); hmap := hmap h |}
| HC_rel i m x g :
    nth_error (hmap h) (N.to_nat i) = Some (HCall m) -> nth_error (acts (ms h)) m = Some x ->
    apc x = LHeld g \/ apc x = THeld g ->
    hcase h [5; i]%N {| ms := step (ms h) (Release m); hmap := hmap h ++ [HRel m (match g with Granted => true | _ => false end)] |}
| HC_panic : hcase h [8]%N {| ms := ms h; hmap := hmap h ++ [HPanic] |}.

Opaque step settle.
Lemma hstep_cases h e h' o : hstep h e = Some (h', o) -> hcase h e h' /\ o = obs h'.
Proof.
  unfold hstep. intros H.
  repeat (match type of H with context [match ?t with _ => _ end] => destruct t eqn:?; try discriminate H end).
  all: injection H as Hs Ho; subst o; subst h'; split; [|reflexivity].
  all: try (econstructor; eauto; fail).
  all: match goal with
       | Hp : apc ?a = LHeld ?g |- _ => eapply (HC_rel h _ _ a g); eauto
       | Hp : apc ?a = THeld ?g |- _ => eapply (HC_rel h _ _ a g); eauto
       end.
Qed.
Transparent step settle.

(* ------------------------------------------------------------------ *)
(* invariant of the harness-level state *)
Definition waiters_ok (s : st) : Prop :=
  forall a x ch, nth_error (acts s) a = Some x -> apc x = LWait ch -> closed (b s) ch = false /\ acanc x = false.

Definition relcalled (p : pc) : bool := match p with LHeld RelCalled | THeld RelCalled => true | _ => false end.

Definition HI (h : hst) : Prop :=
  (exists es, ms h = run es) /\
  calls (hmap h) = seq 0 (length (acts (ms h))) /\
  (forall t x, nth_error (acts (ms h)) t = Some x -> relcalled (apc x) = true -> In (HRel t true) (hmap h)) /\
  waiters_ok (ms h).

Definition tgt (o : option nat) (k : nat) : bool := match o with Some k0 => Nat.eqb k k0 | None => false end.

(* everything later proofs need to know about one actor across one accepted harness event *)
Definition afacts (s' : st) (relm cancm : option nat) (k : nat) (x x' : actor) : Prop :=
  atr x x' /\
  rel_entered (apc x') = rel_entered (apc x) || tgt relm k /\
  acanc x' = acanc x || tgt cancm k /\
  (is_held (apc x) = false -> is_held (apc x') = true -> aw x = false -> ww s' = 0) /\
  (relcalled (apc x') = true -> relcalled (apc x) = true \/ (tgt relm k = true /\ rel_entered (apc x) = false)) /\
  (forall ch, apc x' = LWait ch -> closed (b s') ch = false /\ acanc x' = false).

Definition all_afacts (s s' : st) (relm cancm : option nat) : Prop :=
  forall k x, nth_error (acts s) k = Some x -> exists x', nth_error (acts s') k = Some x' /\ afacts s' relm cancm k x x'.

Lemma afacts_same s k x : waiters_ok s -> nth_error (acts s) k = Some x -> afacts s None None k x x.
Proof.
  intros Hw G. unfold afacts. cbn [tgt]. rewrite !orb_false_r.
  split; [apply atr_refl|]. repeat split; auto; try congruence; eapply Hw; eauto.
Qed.

(* Lock / TryLock called *)
Lemma call_afacts s ev nw : waiters_ok s ->
  acts (step s ev) = acts s ++ [nw] -> b (step s ev) = b s ->
  all_afacts s (step s ev) None None.
Proof.
  intros Hw Ha Hb k x G. exists x. split.
  - rewrite Ha, nth_error_app1; [exact G | eapply nth_error_nth_len; eauto].
  - destruct (afacts_same s k x Hw G) as (A1 & A2 & A3 & A4 & A5 & A6). unfold afacts. repeat split; auto; try apply A1.
    + intros. exfalso. congruence.
    + rewrite Hb. eapply Hw; eauto.
    + eapply Hw; eauto.
Qed.

(* pure facts about the program counters *)
Definition sect_pc (p p1 : pc) : Prop :=
  p1 = p \/
  ((p = LStart \/ p = LWoken) /\ (p1 = LHeld Granted \/ (exists ch, p1 = LWait ch) \/ p1 = LGiveUp)) \/
  (p = LGiveUp /\ p1 = LCanceled) \/
  (p = TStart /\ (p1 = THeld Granted \/ p1 = TFalse)) \/
  (p = LHeld RelCalled /\ p1 = LHeld Released) \/
  (p = THeld RelCalled /\ p1 = THeld Released).
Definition wake_pc (p1 p' : pc) : Prop := p' = p1 \/ (exists ch, p1 = LWait ch /\ p' = LWoken).
Definition giveup_pc (p1 p' : pc) : Prop := p' = p1 \/ (exists ch, p1 = LWait ch /\ p' = LGiveUp).
Definition release_pc (p p' : pc) : Prop :=
  p' = p \/ (p = LHeld Granted /\ p' = LHeld RelCalled) \/ (p = THeld Granted /\ p' = THeld RelCalled).

Definition ptr (p p' : pc) : Prop :=
  is_lock_pc p' = is_lock_pc p /\
  (is_held p = true -> is_held p' = true) /\
  (p = LCanceled -> p' = LCanceled) /\
  (waits p = true -> is_held p' = true \/ p' = LCanceled \/ waits p' = true).

Lemma sect_wake_pcs p p1 p' : sect_pc p p1 -> wake_pc p1 p' ->
  ptr p p' /\ rel_entered p' = rel_entered p /\
  (is_held p = false -> is_held p' = true -> is_held p1 = true) /\
  (relcalled p' = true -> relcalled p = true) /\
  (forall ch, p' = LWait ch -> p1 = LWait ch).
Proof.
  unfold sect_pc, wake_pc, ptr. intros HS HW.
  destruct HS as [HS|[([HS|HS] & [HS1|[(ch & HS1)|HS1]])|[(HS & HS1)|[(HS & [HS1|HS1])|[(HS & HS1)|(HS & HS1)]]]]]; subst;
    destruct HW as [HW|(ch0 & HW & HW')]; subst; try discriminate;
    cbn [is_lock_pc is_held waits rel_entered relcalled]; repeat split; intros; try discriminate; try congruence; auto.
Qed.

Lemma giveup_pcs p p' : giveup_pc p p' ->
  ptr p p' /\ rel_entered p' = rel_entered p /\ is_held p' = is_held p /\ relcalled p' = relcalled p /\
  (forall ch, p' = LWait ch -> p = LWait ch).
Proof.
  unfold giveup_pc, ptr. intros [HW|(ch0 & HW & HW')]; subst;
    cbn [is_lock_pc is_held waits rel_entered relcalled]; repeat split; intros; try discriminate; try congruence; auto.
Qed.

Lemma release_pcs p p' : release_pc p p' ->
  ptr p p' /\ is_held p' = is_held p /\ (rel_entered p = true -> rel_entered p' = true) /\
  (p' = p \/ (rel_entered p = false /\ rel_entered p' = true)) /\
  (forall ch, p' = LWait ch -> p = LWait ch).
Proof.
  unfold release_pc, ptr. intros [HW|[(HW & HW')|(HW & HW')]]; subst;
    cbn [is_lock_pc is_held waits rel_entered relcalled]; repeat split; intros; try discriminate; try congruence; auto.
Qed.

Lemma sect_res_pc s s' x x' : sect_res s s' x x' ->
  sect_pc (apc x) (apc x') /\
  (is_held (apc x) = false -> is_held (apc x') = true -> aw x = false -> ww s' = 0) /\
  (forall ch, apc x' = LWait ch -> apc x = LWait ch \/ acanc x = false).
Proof.
  unfold sect_res, sect_pc. destruct x as [w p c], x' as [w' p' c']. cbn [apc aw acanc].
  intros [HS|[([HS|HS] & [(HS1 & HS2)|[(ch & HS1 & HS2)|HS1]])|[(HS & HS1)|[(HS & [(HS1 & HS2)|HS1])|[(HS & HS1)|(HS & HS1)]]]]]; subst;
    (split; [eauto 8|]); cbn [is_held]; split; intros; try discriminate; try congruence; auto.
Qed.

(* a critical section followed by the wake-ups *)
Lemma sect_afacts s m : waiters_ok s -> all_afacts s (settle (step s (Sect m))) None None.
Proof.
  intros Hw k x G.
  destruct (sect_actor s m k x G) as (x1 & G1 & A1 & A2 & A3 & A4).
  destruct (settle_facts (step s (Sect m))) as (T1 & T2 & T3 & T4 & T5 & TA).
  destruct (TA k x1 G1) as (x' & G' & B1 & B2 & B3 & B4). exists x'. split; [exact G'|].
  apply sect_res_pc in A4 as (A4 & A5 & A6).
  destruct (sect_wake_pcs _ _ _ A4 B3) as ((P1 & P2 & P3 & P4) & P5 & P6 & P7 & P8).
  unfold afacts. cbn [tgt]. rewrite !orb_false_r. rewrite T4.
  split; [|split; [exact P5|split; [congruence|split; [|split]]]].
  - unfold atr. split; [congruence|]. auto.
  - intros Hn Hh Hr. apply A5; auto.
  - auto.
  - intros ch Hp. split; [now apply B4|]. rewrite B2, A2.
    destruct (A6 ch (P8 ch Hp)) as [Hx|Hx]; [|exact Hx]. eapply Hw; eauto.
Qed.

Lemma sect_settle_scalars s m : length (acts (settle (step s (Sect m)))) = length (acts s) /\ b (settle (step s (Sect m))) = b (step s (Sect m)).
Proof. destruct (settle_facts (step s (Sect m))) as (T1 & T2 & T3 & T4 & T5 & TA). split; [rewrite T5; apply sect_len | exact T1]. Qed.

(* a cancellation *)
Lemma cancel_afacts s m : waiters_ok s -> all_afacts s (step (step s (CancelCtx m)) (CancelWake m)) None (Some m).
Proof.
  intros Hw k x G.
  destruct (cancelctx_actor s m k x G) as (x1 & G1 & A1 & A2 & A3 & A4).
  destruct (cancelctx_scalars s m) as (S1 & _ & _ & _ & _).
  destruct (cancelwake_actor (step s (CancelCtx m)) m k x1 G1) as (x' & G' & B1 & B2 & B3 & B4).
  destruct (cancelwake_scalars (step s (CancelCtx m)) m) as (T1 & _ & _ & _ & _).
  exists x'. split; [exact G'|]. rewrite A2 in B3.
  destruct (giveup_pcs _ _ B3) as ((P1 & P2 & P3 & P4) & P5 & P6 & P7 & P8).
  unfold afacts. cbn [tgt]. rewrite !orb_false_r.
  split; [|split; [exact P5|split; [|split; [|split]]]].
  - unfold atr. split; [congruence|]. auto.
  - rewrite B2. destruct (Nat.eqb_spec k m) as [E|E]; [rewrite (A3 E); now rewrite orb_true_r | rewrite (A4 E); now rewrite orb_false_r].
  - intros Hn Hh. exfalso. congruence.
  - intros Hr. left. congruence.
  - intros ch Hp. rewrite T1, S1. pose proof (P8 ch Hp) as Hp0.
    destruct (Nat.eq_dec k m) as [E|E].
    + exfalso. apply (B4 E (A3 E) ch). exact Hp.
    + rewrite B2, (A4 E). eapply Hw; eauto.
Qed.

(* entering release() *)
Lemma release_afacts s m x0 : waiters_ok s -> nth_error (acts s) m = Some x0 -> is_held (apc x0) = true ->
  all_afacts s (step s (Release m)) (Some m) None.
Proof.
  intros Hw G0 Hh0 k x G.
  destruct (release_actor s m k x G) as (x' & G' & A1 & A2 & A3 & A4).
  destruct (release_scalars s m) as (S1 & _ & _ & _ & _).
  exists x'. split; [exact G'|].
  assert (A3' : release_pc (apc x) (apc x')) by (unfold release_pc; tauto).
  destruct (release_pcs _ _ A3') as ((P1 & P2 & P3 & P4) & P5 & P6 & P7 & P8).
  unfold afacts. cbn [tgt]. rewrite !orb_false_r.
  split; [|split; [|split; [exact A2|split; [|split]]]].
  - unfold atr. split; [exact A1|]. auto.
  - destruct (Nat.eqb_spec k m) as [E|E].
    + subst k. assert (x = x0) by congruence. subst x0. rewrite (A4 eq_refl Hh0). now rewrite orb_true_r.
    + rewrite orb_false_r. destruct A3 as [A3|(Ek & _)]; [now rewrite A3 | contradiction].
  - intros Hn Hh. exfalso. congruence.
  - intros Hr. destruct A3 as [A3|(Ek & A3)]; [left; congruence|]. right. subst k. rewrite Nat.eqb_refl. split; [reflexivity|].
    destruct A3 as [(A3 & _)|(A3 & _)]; now rewrite A3.
  - intros ch Hp. rewrite S1, A2. eapply Hw; eauto.
Qed.

(* ------------------------------------------------------------------ *)
(* the invariant is kept by every accepted event *)
Lemma afacts_waiters s s' R C : length (acts s') = length (acts s) -> all_afacts s s' R C -> waiters_ok s'.
Proof.
  intros Hl HA a x' ch G' Hp.
  destruct (nth_error_len_some (acts s) a) as (x & G); [rewrite <- Hl; eapply nth_error_nth_len; eauto|].
  destruct (HA a x G) as (x'' & G'' & (_ & _ & _ & _ & _ & H6)). assert (x'' = x') by congruence. subst x''. auto.
Qed.

Lemma run_snoc es e : run (es ++ [e]) = step (run es) e.
Proof. unfold run. now rewrite fold_left_app. Qed.

Lemma run_app es es' : run (es ++ es') = fold_left step es' (run es).
Proof. unfold run. now rewrite fold_left_app. Qed.

Lemma hcase_len h e h' : hcase h e h' -> length (acts (ms h)) <= length (acts (ms h')).
Proof.
  intros Hc. destruct Hc; cbn [ms].
  - unfold step; cbn [step_gen acts]. rewrite app_length. cbn [length]. lia.
  - unfold step; cbn [step_gen acts]. rewrite app_length. cbn [length]. lia.
  - destruct (sect_settle_scalars (ms h) m) as [-> _]. lia.
  - destruct (cancelwake_scalars (step (ms h) (CancelCtx m)) m) as (_ & _ & _ & _ & ->).
    destruct (cancelctx_scalars (ms h) m) as (_ & _ & _ & _ & ->). lia.
  - destruct (release_scalars (ms h) m) as (_ & _ & _ & _ & ->). lia.
  - lia.
Qed.

Lemma hcase_HI h e h' : HI h -> hcase h e h' -> HI h'.
Proof.
  intros ((es & Es) & Hcalls & Hrel & Hw) Hc. destruct Hc as [w|w|i m x Hi Gx|i m x Hi Gx|i m x g Hi Gx Hg|]; unfold HI; cbn [ms hmap].
  - (* Lock *)
    assert (Ea : acts (step (ms h) (CallLock (N.eqb w 1))) = acts (ms h) ++ [{| aw := N.eqb w 1; apc := LStart; acanc := false |}]) by reflexivity.
    split; [exists (es ++ [CallLock (N.eqb w 1)]); now rewrite run_snoc, Es|].
    split; [rewrite calls_app, Hcalls, Ea, app_length; cbn [calls length]; now rewrite Nat.add_1_r, seq_S|].
    split.
    + intros t y G Hr. rewrite Ea in G. apply nth_error_app_inv in G as [G| ->]; [|discriminate]. apply in_or_app. left. eauto.
    + intros a y ch G Hp. rewrite Ea in G. apply nth_error_app_inv in G as [G| ->]; [|discriminate]. eapply Hw; eauto.
  - (* TryLock *)
    assert (Ea : acts (step (ms h) (CallTry (N.eqb w 1))) = acts (ms h) ++ [{| aw := N.eqb w 1; apc := TStart; acanc := false |}]) by reflexivity.
    split; [exists (es ++ [CallTry (N.eqb w 1)]); now rewrite run_snoc, Es|].
    split; [rewrite calls_app, Hcalls, Ea, app_length; cbn [calls length]; now rewrite Nat.add_1_r, seq_S|].
    split.
    + intros t y G Hr. rewrite Ea in G. apply nth_error_app_inv in G as [G| ->]; [|discriminate]. apply in_or_app. left. eauto.
    + intros a y ch G Hp. rewrite Ea in G. apply nth_error_app_inv in G as [G| ->]; [|discriminate]. eapply Hw; eauto.
  - (* section *)
    pose proof (sect_afacts (ms h) m Hw) as HA. destruct (sect_settle_scalars (ms h) m) as [Hl _].
    split; [exists (es ++ Sect m :: map Wake (seq 0 (length (acts (step (ms h) (Sect m)))))); rewrite run_app, <- Es; cbn [fold_left]; apply settle_run|].
    split; [now rewrite Hl|]. split; [|eapply afacts_waiters; eauto].
    intros t y' G' Hr.
    destruct (nth_error_len_some (acts (ms h)) t) as (y & G); [rewrite <- Hl; eapply nth_error_nth_len; eauto|].
    destruct (HA t y G) as (y'' & G'' & (_ & _ & _ & _ & H5 & _)). assert (y'' = y') by congruence. subst y''.
    destruct (H5 Hr) as [H|[H _]]; [eauto | discriminate].
  - (* cancellation *)
    pose proof (cancel_afacts (ms h) m Hw) as HA.
    assert (Hl : length (acts (step (step (ms h) (CancelCtx m)) (CancelWake m))) = length (acts (ms h))).
    { destruct (cancelwake_scalars (step (ms h) (CancelCtx m)) m) as (_ & _ & _ & _ & ->).
      now destruct (cancelctx_scalars (ms h) m) as (_ & _ & _ & _ & ->). }
    split; [exists (es ++ [CancelCtx m; CancelWake m]); now rewrite run_app, <- Es|].
    split; [now rewrite Hl|]. split; [|eapply afacts_waiters; eauto].
    intros t y' G' Hr.
    destruct (nth_error_len_some (acts (ms h)) t) as (y & G); [rewrite <- Hl; eapply nth_error_nth_len; eauto|].
    destruct (HA t y G) as (y'' & G'' & (_ & _ & _ & _ & H5 & _)). assert (y'' = y') by congruence. subst y''.
    destruct (H5 Hr) as [H|[H _]]; [eauto | discriminate].
  - (* release *)
    assert (Hh : is_held (apc x) = true) by (destruct Hg as [-> | ->]; reflexivity).
    pose proof (release_afacts (ms h) m x Hw Gx Hh) as HA.
    destruct (release_scalars (ms h) m) as (_ & _ & _ & _ & Hl).
    split; [exists (es ++ [Release m]); now rewrite run_snoc, Es|].
    split; [rewrite calls_app, Hl; cbn [calls]; now rewrite app_nil_r|]. split; [|eapply afacts_waiters; eauto].
    intros t y' G' Hr. apply in_or_app.
    destruct (nth_error_len_some (acts (ms h)) t) as (y & G); [rewrite <- Hl; eapply nth_error_nth_len; eauto|].
    destruct (HA t y G) as (y'' & G'' & (_ & _ & _ & _ & H5 & _)). assert (y'' = y') by congruence. subst y''.
    destruct (H5 Hr) as [H|[Ht Hre]]; [left; eauto|]. right. cbn [tgt] in Ht. apply Nat.eqb_eq in Ht. subst t.
    assert (y = x) by congruence. subst y.
    destruct Hg as [Hg|Hg]; rewrite Hg in Hre; destruct g; try discriminate; now left.
  - (* Unlock of an unlocked locker *)
    split; [eauto|]. split; [rewrite calls_app; cbn [calls]; now rewrite app_nil_r|].
    split; [|exact Hw]. intros t y G Hr. apply in_or_app. left. eauto.
Qed.

(* ------------------------------------------------------------------ *)
(* descriptors before / after an accepted event *)
Lemma waitsW_eq x : waitsW x = aw x && waits (apc x).
Proof. reflexivity. Qed.

Lemma kind1 x : kind_of x = 1%N -> aw x = true /\ is_lock_pc (apc x) = true.
Proof. unfold kind_of. destruct (is_lock_pc (apc x)), (aw x); intros H; try discriminate; auto. Qed.
Lemma kind0 x : kind_of x = 0%N -> aw x = false /\ is_lock_pc (apc x) = true.
Proof. unfold kind_of. destruct (is_lock_pc (apc x)), (aw x); intros H; try discriminate; auto. Qed.
Lemma kind_reader x : (N.eqb (kind_of x) 0 || N.eqb (kind_of x) 2)%bool = true -> aw x = false.
Proof. unfold kind_of. destruct (is_lock_pc (apc x)), (aw x); intros H; try discriminate; auto. Qed.

Lemma code2_wait p : code_pc p = 2%N -> exists ch, p = LWait ch.
Proof. destruct p; cbn; intros H; try discriminate. eauto. Qed.
Lemma code4_canc p : code_pc p = 4%N -> p = LCanceled.
Proof. destruct p; cbn; intros H; try discriminate. reflexivity. Qed.

Lemma code_nocall s ha : (forall k, ha <> HCall k) -> code s ha <> 3%N /\ code s ha <> 2%N.
Proof.
  destruct ha as [k|t f|]; intros Hn; [exfalso; eapply Hn; eauto| |cbn; split; discriminate].
  cbn [code]. destruct f; [|split; discriminate]. destruct (nth_error (acts s) t) as [x|]; [|split; discriminate].
  destruct (apc x) as [| | | |[]| | |[]|]; split; discriminate.
Qed.

Definition tgt_h (o : option nat) (ha : hact) : bool := match ha with HCall k => tgt o k | _ => false end.

Lemma q1_existing s s' relm cancm (nw : Prop) m m' ha :
  all_afacts s s' relm cancm -> (ww s' = 0 -> nw) ->
  (forall k, ha = HCall k -> k < length (acts s)) ->
  Rd m (desc_of s ha) ->
  mk m' = mk m -> mreg m' = mreg m -> mgranted m' = mgranted m ->
  mrel m' = mrel m || tgt_h relm ha -> mcanc m' = mcanc m || tgt_h cancm ha ->
  Q1 nw m' (desc_of s' ha).
Proof.
  intros HA Hnw Hlt (R1 & R2 & R3 & R4 & R5) E1 E2 E3 E4 E5.
  destruct ha as [k|t f|].
  - destruct (nth_error_len_some (acts s) k (Hlt k eq_refl)) as (x & G).
    destruct (HA k x G) as (x' & G' & ((T1 & T2 & T3 & T4 & T5) & F2 & F3 & F4 & _)).
    cbn [desc_of tgt_h] in *. rewrite G in *. rewrite G'. cbn [desc_x dk dc drel dcanc dw] in *.
    assert (Ek : kind_of x' = kind_of x) by (unfold kind_of; now rewrite T1, T2).
    unfold Q1. cbn [desc_x dk dc drel dcanc dw].
    split; [congruence|]. split; [congruence|]. split; [congruence|].
    split; [|split; [|split]].
    + intros Hreg Hk H3 H4. rewrite E2 in Hreg. specialize (R4 Hreg). rewrite waitsW_eq in *.
      apply andb_true_iff in R4 as [Haw Hwt]. rewrite T1, Haw. cbn [andb].
      destruct (T5 Hwt) as [H|[H|H]]; [|rewrite H in H4; now elim H4 | exact H].
      apply code3_held in H. contradiction.
    + intros Hk H2. destruct (kind1 _ Hk) as [Haw _]. destruct (code2_wait _ H2) as (ch & Hp).
      rewrite waitsW_eq, Haw, Hp. reflexivity.
    + intros Hg. rewrite E3, R5 in Hg. apply N.eqb_eq in Hg. apply code3_held. apply T3. now apply code3_held.
    + intros Hg Hk H3. apply Hnw. rewrite E3, R5 in Hg. apply N.eqb_neq in Hg. apply F4.
      * destruct (is_held (apc x)) eqn:Eh; [|reflexivity]. apply code3_held in Eh. contradiction.
      * now apply code3_held.
      * pose proof (kind_reader _ Hk) as Haw. congruence.
  - cbn [desc_of tgt_h] in *. rewrite !orb_false_r in *. unfold Q1. cbn [dk dc drel dcanc dw] in *.
    destruct (code_nocall s (HRel t f)) as [N3 _]; [intros k; discriminate|].
    repeat split; try congruence; intros; try discriminate.
    rewrite E3, R5 in H. apply N.eqb_eq in H. contradiction.
  - cbn [desc_of tgt_h] in *. rewrite !orb_false_r in *. unfold Q1. cbn [dk dc drel dcanc dw] in *.
    repeat split; try congruence; intros; try discriminate.
    rewrite E3, R5 in H. discriminate H.
Qed.

Lemma Forall2_nth_intro {A B} (P : A -> B -> Prop) l1 : forall l2, length l1 = length l2 ->
  (forall j a b0, nth_error l1 j = Some a -> nth_error l2 j = Some b0 -> P a b0) -> Forall2 P l1 l2.
Proof.
  induction l1 as [|a l1 IH]; intros [|b0 l2] Hl HP; try discriminate; constructor.
  - apply (HP 0); reflexivity.
  - apply IH; [cbn [length] in Hl; lia|]. intros j a' b' H1 H2. apply (HP (S j)); assumption.
Qed.

Lemma nth_error_upd {A} (l : list A) i f j :
  nth_error (upd l i f) j = if Nat.eqb j i then option_map f (nth_error l j) else nth_error l j.
Proof.
  unfold upd. destruct (Nat.eqb_spec j i) as [->|Hne].
  - destruct (nth_error l i) as [x|] eqn:G; cbn [option_map]; [|exact G].
    apply nth_error_set_nth_same. eapply nth_error_nth_len; eauto.
  - destruct (nth_error l i) as [x|]; [|reflexivity]. now apply nth_error_set_nth_other.
Qed.

Lemma upd_len {A} (l : list A) i f : length (upd l i f) = length l.
Proof. unfold upd. destruct (nth_error l i); [apply length_set_nth | reflexivity]. Qed.

Lemma q1_list s s' relm cancm hm ml ml' (nw : Prop) :
  all_afacts s s' relm cancm -> (ww s' = 0 -> nw) ->
  (forall k, In (HCall k) hm -> k < length (acts s)) ->
  Forall2 Rd ml (map (desc_of s) hm) ->
  length ml' = length ml ->
  (forall j m m' ha, nth_error ml j = Some m -> nth_error ml' j = Some m' -> nth_error hm j = Some ha ->
     mk m' = mk m /\ mreg m' = mreg m /\ mgranted m' = mgranted m /\
     mrel m' = mrel m || tgt_h relm ha /\ mcanc m' = mcanc m || tgt_h cancm ha) ->
  Forall2 (Q1 nw) ml' (map (desc_of s') hm).
Proof.
  intros HA Hnw Hlt HF Hl Hupd. pose proof (Forall2_len _ _ _ HF) as Hl2. rewrite map_length in Hl2.
  apply Forall2_nth_intro; [rewrite map_length; congruence|].
  intros j m' d' G1 G2. rewrite nth_error_map in G2.
  destruct (nth_error hm j) as [ha|] eqn:Gh; [|discriminate]. cbn [option_map] in G2. inversion G2; subst d'.
  destruct (nth_error_len_some ml j) as (m & Gm); [rewrite <- Hl; eapply nth_error_nth_len; eauto|].
  destruct (Forall2_nth_l _ _ _ HF j m Gm) as (d & Gd & HR). rewrite nth_error_map, Gh in Gd. cbn [option_map] in Gd. inversion Gd; subst d.
  destruct (Hupd j m m' ha Gm G1 Gh) as (E1 & E2 & E3 & E4 & E5).
  eapply q1_existing; eauto. intros k ->. apply Hlt. eapply nth_error_In; eauto.
Qed.

(* ------------------------------------------------------------------ *)
(* the clauses hold on the descriptors of every state that satisfies the invariant *)
Lemma hW_api x : h_holdsW (desc_x x) = apiW x.
Proof. destruct x as [w p c]. destruct w; destruct p as [| | | |[]| | |[]|]; reflexivity. Qed.
Lemma hR_api x : h_holdsR (desc_x x) = apiR x.
Proof. destruct x as [w p c]. destruct w; destruct p as [| | | |[]| | |[]|]; reflexivity. Qed.

Lemma dcount_calls (hf : desc -> bool) (P : actor -> bool) s hm :
  (forall x, hf (desc_x x) = P x) -> (forall d, dk d = 4%N -> hf d = false) ->
  calls hm = seq 0 (length (acts s)) ->
  count_b (map hf (map (desc_of s) hm)) = cnt P (acts s).
Proof.
  intros H1 H2 Hc. rewrite map_map.
  rewrite (count_calls (fun ha => hf (desc_of s ha)) (fun k => match nth_error (acts s) k with Some x => P x | None => false end)).
  - rewrite Hc. apply count_seq.
  - intros k. cbn [desc_of]. destruct (nth_error (acts s) k); [apply H1 | now apply H2].
  - intros t f. now apply H2.
  - now apply H2.
Qed.

Lemma hi_call h k x : HI h -> nth_error (acts (ms h)) k = Some x -> In (HCall k) (hmap h).
Proof.
  intros (_ & Hc & _) G. apply In_calls. rewrite Hc. apply in_seq. apply nth_error_nth_len in G. lia.
Qed.

Lemma hi_call_lt h k : HI h -> In (HCall k) (hmap h) -> k < length (acts (ms h)).
Proof. intros (_ & Hc & _) Hin. apply In_calls in Hin. rewrite Hc in Hin. apply in_seq in Hin. lia. Qed.

Lemma existsb_false_all {A} (f : A -> bool) l : (forall a, In a l -> f a = false) -> existsb f l = false.
Proof. intros H. induction l as [|h t IH]; [reflexivity|]. cbn [existsb]. rewrite (H h (or_introl eq_refl)). apply IH. intros a Ha. apply H. now right. Qed.

Lemma hi_quiescent h : HI h -> dquiet (map (desc_of (ms h)) (hmap h)) = true -> quiescent (ms h) = true.
Proof.
  intros HH Hq. pose proof HH as (_ & _ & Hrel & Hw). unfold dquiet in Hq. apply negb_true_iff in Hq.
  assert (Hno : forall ha, In ha (hmap h) -> code (ms h) ha <> 1%N).
  { intros ha Hin E. rewrite <- not_true_iff_false in Hq. apply Hq. apply existsb_exists. exists 1%N. split; [|reflexivity].
    rewrite <- E, <- desc_code. apply in_map. now apply in_map. }
  unfold quiescent. apply forallb_forall. intros x Hin. destruct (In_nth_error _ _ Hin) as (k & G).
  pose proof (Hno _ (hi_call h k x HH G)) as Hc. cbn [code] in Hc. rewrite G in Hc.
  assert (Hr : relcalled (apc x) = false).
  { destruct (relcalled (apc x)) eqn:Er; [|reflexivity]. exfalso. pose proof (Hno _ (Hrel k x G Er)) as Hc2. cbn [code] in Hc2. rewrite G in Hc2.
    destruct (apc x) as [| | | |[]| | |[]|]; try discriminate; now apply Hc2. }
  unfold at_gate. destruct (apc x) as [|ch| | |[]| | |[]|] eqn:Ep; cbn [code_pc relcalled negb andb] in *; try reflexivity; try (exfalso; now apply Hc); try discriminate.
  destruct (Hw k x ch G Ep) as [-> ->]. reflexivity.
Qed.

Lemma hi_clauses h : HI h -> clauses_ok (map (desc_of (ms h)) (hmap h)).
Proof.
  intros HH. pose proof HH as ((es & Es) & Hcalls & Hrel & Hw).
  set (ds := map (desc_of (ms h)) (hmap h)).
  assert (EW : dholdsW ds = cnt apiW (acts (ms h))).
  { unfold dholdsW, ds. apply dcount_calls; [apply hW_api | | exact Hcalls]. intros d Hd. unfold h_holdsW, d_isw. now rewrite Hd. }
  assert (ER : dholdsR ds = cnt apiR (acts (ms h))).
  { unfold dholdsR, ds. apply dcount_calls; [apply hR_api | | exact Hcalls]. intros d Hd. unfold h_holdsR, d_isr. now rewrite Hd. }
  destruct (exclusion es) as [X1 X2]. cbn zeta in X1, X2. rewrite <- Es in X1, X2.
  (* a blocked caller seen by the monitor is a blocked caller of the model *)
  assert (Hblk : forall kd, (kd = 0%N \/ kd = 1%N) -> existsb (fun d => N.eqb (dk d) kd && N.eqb (dc d) 2) ds = true ->
            exists k x ch, nth_error (acts (ms h)) k = Some x /\ apc x = LWait ch /\ kind_of x = kd).
  { intros kd Hkd He. apply existsb_exists in He as (d & Hin & Hd). unfold ds in Hin. apply in_map_iff in Hin as (ha & <- & Hin).
    apply andb_true_iff in Hd as [Hk Hc]. apply N.eqb_eq in Hk. apply N.eqb_eq in Hc.
    destruct ha as [k|t f|]; cbn [desc_of dk] in Hk; [|destruct Hkd; subst kd; discriminate|destruct Hkd; subst kd; discriminate].
    cbn [desc_of] in Hc. destruct (nth_error (acts (ms h)) k) as [x|] eqn:G; [|cbn in Hk; destruct Hkd; subst kd; discriminate].
    cbn [desc_x dk dc] in *. destruct (code2_wait _ Hc) as (ch & Hp). eauto 6. }
  assert (HbW : forall k y, nth_error (acts (ms h)) k = Some y -> aw y = true -> blocked y = true -> existsb h_blockedW ds = true).
  { intros k y G Haw Hb. apply existsb_exists. exists (desc_of (ms h) (HCall k)). split; [apply in_map; eapply hi_call; eauto|].
    cbn [desc_of]. rewrite G. unfold h_blockedW, blocked in *. cbn [desc_x dk dc]. unfold kind_of. rewrite Haw.
    destruct (apc y); try discriminate. reflexivity. }
  unfold clauses_ok. fold ds. rewrite EW, ER.
  split; [exact X1|]. split; [intros Hp; apply X2; lia|]. split; [|split].
  - intros Hq Hb. apply (hi_quiescent h HH) in Hq.
    destruct (Hblk 0%N (or_introl eq_refl) Hb) as (k & x & ch & G & Hp & Hk). destruct (kind0 _ Hk) as [Haw _].
    rewrite Es in Hq, G.
    destruct (quiescent_blocked_reader_has_reason es k x ch Hq G Hp Haw) as (k' & y & G' & Hawy & [Hy|Hy]); rewrite <- Es in G'.
    + left. eapply nth_error_cnt_pos; eauto.
    + right. eapply HbW; eauto.
  - intros Hq Hb. apply (hi_quiescent h HH) in Hq.
    destruct (Hblk 1%N (or_intror eq_refl) Hb) as (k & x & ch & G & Hp & Hk). destruct (kind1 _ Hk) as [Haw _].
    rewrite Es in Hq, G.
    destruct (quiescent_blocked_writer_has_reason es k x ch Hq G Hp Haw) as (k' & y & G' & [Hy|Hy]); rewrite <- Es in G'.
    + pose proof (nth_error_cnt_pos apiW _ _ _ G' Hy). lia.
    + pose proof (nth_error_cnt_pos apiR _ _ _ G' Hy). lia.
  - apply existsb_false_all. intros d Hin. unfold ds in Hin. apply in_map_iff in Hin as (ha & <- & Hin).
    unfold h_canc. destruct ha as [k|t f|]; cbn [desc_of dcanc]; try reflexivity.
    destruct (nth_error (acts (ms h)) k) as [x|] eqn:G; [|reflexivity]. cbn [desc_x dcanc dc].
    destruct (N.eqb_spec (code_pc (apc x)) 2) as [E|E]; [|apply andb_false_r].
    destruct (code2_wait _ E) as (ch & Hp). destruct (Hw k x ch G Hp) as [_ ->]. reflexivity.
Qed.

(* ------------------------------------------------------------------ *)
(* one step of the monitor against one accepted event *)
Definition R (ml : list mact) (h : hst) : Prop := HI h /\ Forall2 Rd ml (map (desc_of (ms h)) (hmap h)).

Lemma nowait_of_ww h : HI h -> ww (ms h) = 0 -> nowait (map (desc_of (ms h)) (hmap h)).
Proof.
  intros ((es & Es) & _) H0 d Hin. apply in_map_iff in Hin as (ha & <- & _).
  destruct ha as [k|t f|]; cbn [desc_of dw]; try reflexivity.
  destruct (nth_error (acts (ms h)) k) as [x|] eqn:G; [|reflexivity]. cbn [desc_x dw].
  destruct (run_inv es) as (_ & _ & HWW & _). rewrite <- Es, H0 in HWW. symmetry in HWW.
  rewrite cnt_zero_forall in HWW. apply HWW. eapply nth_error_In; eauto.
Qed.

Lemma q1_list_upd s s' relm cancm hm ml i f (nw : Prop) :
  all_afacts s s' relm cancm -> (ww s' = 0 -> nw) ->
  (forall k, In (HCall k) hm -> k < length (acts s)) ->
  Forall2 Rd ml (map (desc_of s) hm) ->
  (forall m, mk (f m) = mk m /\ mreg (f m) = mreg m /\ mgranted (f m) = mgranted m) ->
  (forall j ha m, nth_error hm j = Some ha -> nth_error ml j = Some m ->
     mrel (if Nat.eqb j i then f m else m) = mrel m || tgt_h relm ha /\
     mcanc (if Nat.eqb j i then f m else m) = mcanc m || tgt_h cancm ha) ->
  Forall2 (Q1 nw) (upd ml i f) (map (desc_of s') hm).
Proof.
  intros HA Hnw Hlt HF Hf Hrc. eapply q1_list; eauto; [apply upd_len|].
  intros j m m' ha Gm Gm' Gh. rewrite nth_error_upd, Gm in Gm'. destruct (Hrc j ha m Gh Gm) as [Hr Hc].
  destruct (Nat.eqb j i); cbn [option_map] in Gm'; inversion Gm'; subst m'.
  - destruct (Hf m) as (F1 & F2 & F3). auto.
  - auto.
Qed.

Lemma q1_list_id s s' hm ml (nw : Prop) :
  all_afacts s s' None None -> (ww s' = 0 -> nw) ->
  (forall k, In (HCall k) hm -> k < length (acts s)) ->
  Forall2 Rd ml (map (desc_of s) hm) ->
  Forall2 (Q1 nw) ml (map (desc_of s') hm).
Proof.
  intros HA Hnw Hlt HF. eapply q1_list; eauto.
  intros j m m' ha Gm Gm' Gh. assert (m' = m) by congruence. subst m'.
  destruct ha; cbn [tgt_h tgt]; rewrite !orb_false_r; auto.
Qed.

Lemma q1_new (nw : Prop) k d :
  dk d = k -> dc d <> 2%N -> dc d <> 3%N -> drel d = false -> dcanc d = false -> Q1 nw (mnew k) d.
Proof.
  intros E1 E2 E3 E4 E5. unfold Q1, mnew. cbn [mk mrel mcanc mreg mgranted].
  repeat split; auto; intros; try discriminate; contradiction.
Qed.

Lemma tgt_other hm (m0 i j : nat) ha : NoDup (calls hm) ->
  nth_error hm i = Some (HCall m0) -> nth_error hm j = Some ha ->
  tgt_h (Some m0) ha = Nat.eqb j i.
Proof.
  intros Hnd Gi Gj. destruct (Nat.eqb_spec j i) as [->|Hne].
  - assert (ha = HCall m0) by congruence. subst ha. cbn [tgt_h tgt]. apply Nat.eqb_refl.
  - destruct ha as [k|t f|]; cbn [tgt_h tgt]; try reflexivity.
    destruct (Nat.eqb_spec k m0) as [->|]; [|reflexivity]. exfalso. apply Hne. eapply calls_inj; eauto.
Qed.

Lemma mon_ev_lock ml w : mon_ev ml [1; w]%N = ml ++ [mnew (if N.eqb w 1 then 1 else 0)%N].
Proof. reflexivity. Qed.
Lemma mon_ev_try ml w : mon_ev ml [2; w]%N = ml ++ [mnew (if N.eqb w 1 then 3 else 2)%N].
Proof. reflexivity. Qed.
Lemma mon_ev_sect ml i : exists regs, mon_ev ml [3; i]%N = upd ml (N.to_nat i) (m_first regs).
Proof. eexists. reflexivity. Qed.
Lemma mon_ev_cancel ml i : mon_ev ml [4; i]%N = upd ml (N.to_nat i) m_canc.
Proof. reflexivity. Qed.
Lemma mon_ev_rel ml i : mon_ev ml [5; i]%N = upd ml (N.to_nat i) m_rel ++ [mnew 4%N].
Proof. reflexivity. Qed.
Lemma mon_ev_panic ml : mon_ev ml [8]%N = ml ++ [mnew 4%N].
Proof. reflexivity. Qed.

Lemma m_first_fields regs m :
  mk (m_first regs m) = mk m /\ mreg (m_first regs m) = mreg m /\ mgranted (m_first regs m) = mgranted m /\
  mrel (m_first regs m) = mrel m /\ mcanc (m_first regs m) = mcanc m.
Proof. unfold m_first. destruct (mfirst m); cbn; auto. Qed.

Lemma hcase_q1 ml h e h' : R ml h -> hcase h e h' -> HI h' ->
  Forall2 (Q1 (nowait (map (desc_of (ms h')) (hmap h')))) (mon_ev ml e) (map (desc_of (ms h')) (hmap h')).
Proof.
  intros [HH HF] Hc HH'. pose proof HH as (_ & Hcalls & _ & Hw).
  generalize (nowait_of_ww h' HH'). generalize (nowait (map (desc_of (ms h')) (hmap h'))). intros nw Hnw. clear HH'.
  assert (Hlt : forall k, In (HCall k) (hmap h) -> k < length (acts (ms h))) by (intros k; apply hi_call_lt; exact HH).
  assert (Hnd : NoDup (calls (hmap h))) by (rewrite Hcalls; apply seq_NoDup).
  destruct Hc as [w|w|i m x Hi Gx|i m x Hi Gx|i m x g Hi Gx Hg|]; cbn [ms hmap] in *.
  - (* Lock *)
    rewrite mon_ev_lock, map_app. cbn [map]. apply Forall2_snoc.
    + eapply q1_list_id; eauto. eapply call_afacts; eauto; reflexivity.
    + apply q1_new; cbn [desc_of]; unfold step; cbn [step_gen acts];
        rewrite nth_error_app2, Nat.sub_diag by lia; cbn [nth_error desc_x dk dc drel dcanc]; try reflexivity; try discriminate.
  - (* TryLock *)
    rewrite mon_ev_try, map_app. cbn [map]. apply Forall2_snoc.
    + eapply q1_list_id; eauto. eapply call_afacts; eauto; reflexivity.
    + apply q1_new; cbn [desc_of]; unfold step; cbn [step_gen acts];
        rewrite nth_error_app2, Nat.sub_diag by lia; cbn [nth_error desc_x dk dc drel dcanc]; try reflexivity; try discriminate.
  - (* section *)
    destruct (mon_ev_sect ml i) as (regs & ->).
    eapply (q1_list_upd (ms h) _ None None); [apply sect_afacts; exact Hw | exact Hnw | exact Hlt | exact HF | intros m0; destruct (m_first_fields regs m0) as (F1 & F2 & F3 & _); auto|].
    intros j ha m0 _ _. destruct (m_first_fields regs m0) as (_ & _ & _ & F4 & F5).
    destruct ha; cbn [tgt_h tgt]; rewrite !orb_false_r; destruct (Nat.eqb j (N.to_nat i)); auto.
  - (* cancellation *)
    rewrite mon_ev_cancel.
    eapply (q1_list_upd (ms h) _ None (Some m)); [apply cancel_afacts; exact Hw | exact Hnw | exact Hlt | exact HF | intros m0; cbn; auto|].
    intros j ha m0 Gh _. rewrite (tgt_other _ _ _ _ _ Hnd Hi Gh).
    split; [destruct ha; cbn [tgt_h tgt]; rewrite orb_false_r; destruct (Nat.eqb j (N.to_nat i)); reflexivity|].
    destruct (Nat.eqb j (N.to_nat i)); cbn [m_canc mcanc]; [now rewrite orb_true_r | now rewrite orb_false_r].
  - (* release *)
    rewrite mon_ev_rel, map_app. cbn [map]. apply Forall2_snoc.
    + assert (Hh : is_held (apc x) = true) by (destruct Hg as [-> | ->]; reflexivity).
      eapply (q1_list_upd (ms h) _ (Some m) None); [eapply release_afacts; eauto | exact Hnw | exact Hlt | exact HF | intros m0; cbn; auto|].
      intros j ha m0 Gh _. rewrite (tgt_other _ _ _ _ _ Hnd Hi Gh).
      split; [|destruct ha; cbn [tgt_h tgt]; rewrite orb_false_r; destruct (Nat.eqb j (N.to_nat i)); reflexivity].
      destruct (Nat.eqb j (N.to_nat i)); cbn [m_rel mrel]; [now rewrite orb_true_r | now rewrite orb_false_r].
    + destruct (code_nocall (step (ms h) (Release m)) (HRel m (match g with Granted => true | _ => false end))) as [N3 N2]; [intros k; discriminate|].
      apply q1_new; cbn [desc_of dk dc drel dcanc]; auto.
  - (* Unlock of an unlocked locker *)
    rewrite mon_ev_panic, map_app. cbn [map]. apply Forall2_snoc.
    + eapply q1_list_id; eauto. intros k x G. exists x. split; [exact G | now apply afacts_same].
    + apply q1_new; cbn [desc_of dk dc drel dcanc code]; auto; discriminate.
Qed.

Lemma mon_step ml h e h' o : R ml h -> hstep h e = Some (h', o) -> exists ml', mon ml e o = (ml', []) /\ R ml' h'.
Proof.
  intros HR Hs. destruct (hstep_cases _ _ _ _ Hs) as [Hc ->].
  pose proof (hcase_HI _ _ _ (proj1 HR) Hc) as HH'.
  rewrite mon_split, obs_desc.
  destruct (mon_post_clean (mon_ev ml e) (map (desc_of (ms h')) (hmap h'))) as (ml' & Em & HF').
  - now apply (hcase_q1 ml h e h').
  - now apply hi_clauses.
  - exists ml'. split; [exact Em|]. split; assumption.
Qed.

Lemma HI_init : HI hinit.
Proof.
  split; [exists []; reflexivity|]. split; [reflexivity|].
  split; [intros t x G; destruct t; discriminate | intros a x ch G; destruct a; discriminate].
Qed.

Lemma R_init : R [] hinit.
Proof. split; [apply HI_init | constructor]. Qed.

Lemma R_len ml h : R ml h -> length ml = length (hmap h).
Proof. intros [_ HF]. apply Forall2_len in HF. now rewrite map_length in HF. Qed.

Lemma panic_obs h h' o : hstep h [8%N] = Some (h', o) -> last o 0%N = 9%N.
Proof.
  intros Hs. destruct (hstep_cases _ _ _ _ Hs) as [Hc ->]. inversion Hc; subst.
  unfold obs. cbn [hmap ms]. rewrite map_app. cbn [map]. now rewrite last_snoc.
Qed.

Lemma rel_obs h i h' o : hstep h [5%N; i] = Some (h', o) -> last o 0%N <> 9%N.
Proof.
  intros Hs. destruct (hstep_cases _ _ _ _ Hs) as [Hc ->]. inversion Hc; subst.
  unfold obs. cbn [hmap ms]. rewrite map_app. cbn [map]. rewrite last_snoc. cbn [code].
  match goal with |- (if ?c then _ else _) <> _ => destruct c end; [|discriminate].
  destruct (nth_error (acts (step (ms h) (Release m))) m) as [y|]; [|discriminate].
  destruct (apc y) as [| | | |[]| | |[]|]; discriminate.
Qed.

Lemma code_ne7 s h : N.eqb 7 (code s h) = false.
Proof.
  unfold code. destruct h as [m|t first|]; [| |reflexivity].
  - destruct (nth_error (acts s) m) as [x|]; [|reflexivity]. destruct (apc x); reflexivity.
  - destruct first; [|reflexivity]. destruct (nth_error (acts s) t) as [x|]; [|reflexivity].
    destruct (apc x) as [| | | |[]| | |[]|]; reflexivity.
Qed.

Lemma no7 h e h' o : hstep h e = Some (h', o) -> existsb (N.eqb 7%N) o = false.
Proof.
  intros Hs. destruct (hstep_cases _ _ _ _ Hs) as [_ ->]. unfold obs.
  induction (hmap h') as [|x l IH]; [reflexivity|]. cbn [map existsb]. now rewrite code_ne7, IH.
Qed.

(* ------------------------------------------------------------------ *)
(* THE THEOREMS, about exactly what run_check_rwmutex uses: lstep hstep / lmon mon with the lockers state *)

Definition rw_step := lstep hstep (fun h => length (hmap h)).
Definition rw_mon := lmon mon (@length mact).

Theorem model_satisfies_monitors evs :
  monitor rw_mon 0 ([], lockers0) [] evs (run_obs rw_step (hinit, lockers0) evs) = [].
Proof.
  apply (layer_clean hst (list mact) hstep mon (fun h => length (hmap h)) (@length mact) R R_len mon_step panic_obs rel_obs no7).
  split; [apply R_init | reflexivity].
Qed.

(* the inner layer alone (events 1..5, 8; no Locker events) *)
Theorem model_satisfies_monitors_core evs : monitor mon 0 [] [] evs (run_obs hstep hinit evs) = [].
Proof.
  assert (H : forall evs h ml i rep, R ml h -> monitor mon i ml rep evs (run_obs hstep h evs) = []).
  { clear. induction evs as [|e evs IH]; intros h ml i rep HR; [reflexivity|].
    cbn [run_obs]. destruct (hstep h e) as [[h' o]|] eqn:E; [|reflexivity].
    destruct (mon_step _ _ _ _ _ HR E) as (ml' & Em & HR'). cbn [monitor]. rewrite Em. cbn [filter map app]. now apply IH. }
  apply H. apply R_init.
Qed.

Theorem model_run_check_clean evs :
  length (run_obs rw_step (hinit, lockers0) evs) = length evs ->
  forall cfg, run_check_rwmutex cfg evs (run_obs rw_step (hinit, lockers0) evs) = [].
Proof.
  intros Hl cfg. unfold run_check_rwmutex, run_check. pose proof (model_satisfies_monitors evs) as HM.
  unfold rw_step, rw_mon in *.
  rewrite (replay_own hst hstep (fun h => length (hmap h)) evs (hinit, lockers0) 0 Hl), HM. reflexivity.
Qed.
