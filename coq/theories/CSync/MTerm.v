(* Mutex: internal steps terminate (C02's "without needing any further unrelated acquire or release": from every
   state every sequence of effective internal steps - critical sections of callers that are at a gate, wake-ups,
   give-ups - is finite, bounded by an explicit measure; it ends in a quiescent state, where C02's quiescence
   clauses apply). *)
From Util Require Import Common.Base Common.ListLemmas CSync.RWModel CSync.MModel CSync.MProofs.

Definition relpend (x : mactor) : bool :=
  match mp x with MHeld RelCalled | MTHeld RelCalled => true | _ => false end.

Definition mw (b : bc) (x : mactor) : nat :=
  match mp x with
  | MStart | MWoken | MTStart => 1
  | MWait ch => (if closed b ch then 2 else 0) + (if mc x then 1 else 0)
  | _ => 0
  end.

Definition wsum (b : bc) (l : list mactor) : nat := fold_right (fun x acc => mw b x + acc) 0 l.

Definition mmeasure (s : mst) : nat :=
  cnt relpend (macts s) * (2 * length (macts s) + 2) + wsum (mb s) (macts s).

Definition internal (e : mev) : bool := match e with MSect _ | MWake _ | MCancelWake _ => true | _ => false end.

Lemma wsum_set_nth b l a v d : a < length l ->
  wsum b (set_nth l a v) + mw b (nth a l d) = wsum b l + mw b v.
Proof.
  revert a. induction l as [|h t IH]; intros a Ha; simpl in *; [lia|].
  destruct a; simpl; [lia|]. specialize (IH a ltac:(lia)). lia.
Qed.

(* changing the Broadcast can raise each weight by at most 2 *)
Lemma wsum_any_bc b b' l : wsum b' l <= wsum b l + 2 * length l.
Proof.
  induction l as [|h t IH]; simpl; [lia|].
  assert (mw b' h <= mw b h + 2).
  { unfold mw. destruct (mp h); try lia. destruct (closed b' ch), (closed b ch); lia. }
  lia.
Qed.

(* taking the wait channel does not change the weight of a waiter whose channel was allocated before *)
Lemma wsum_getch b l :
  bc_wf b -> (forall x ch, In x l -> mp x = MWait ch -> ch < nxt b) -> wsum (fst (getch b)) l = wsum b l.
Proof.
  intros Hwf H. induction l as [|h t IH]; simpl; [reflexivity|].
  rewrite IH by (intros x ch Hin; apply H; now right). f_equal.
  unfold mw. destruct (mp h) eqn:E; try reflexivity.
  rewrite getch_closed_same; [reflexivity | exact Hwf | eapply H; [now left | exact E]].
Qed.

Lemma In_set_nth {A} (l : list A) a v x : In x (set_nth l a v) -> x = v \/ In x l.
Proof.
  revert a. induction l as [|h t IH]; intros a Hin; simpl in *; [contradiction|].
  destruct a; simpl in Hin.
  - destruct Hin as [<-|Hin]; [now left | right; now right].
  - destruct Hin as [<-|Hin]; [right; now left|]. destruct (IH a Hin); [now left | right; now right].
Qed.

Theorem internal_step_decreases s e :
  MInv s -> internal e = true -> mstep s e <> s -> mmeasure (mstep s e) < mmeasure s.
Proof.
  intros (HL & Hwf & HW) Hi Hne. destruct e as [| |a|a|a|a|a]; try discriminate; cbn [mstep] in *.
  - (* a critical section *)
    destruct (nth_error (macts s) a) as [x|] eqn:G; [|congruence].
    destruct (mgeta _ _ _ G) as [Hl Hn].
    assert (Hwaiters : forall y ch, In y (macts s) -> mp y = MWait ch -> ch < nxt (mb s)).
    { intros y ch Hin Hp. destruct (In_nth_error _ _ Hin) as [k Hk]. exact (proj1 (HW k y ch Hk Hp)). }
    assert (Hset : forall p, mseta s a p = set_nth (macts s) a {| mp := p; mc := mc x |}) by (intros p; unfold mseta; now rewrite G).
    assert (Hcnt : forall p, cnt relpend (mseta s a p) + b2n (relpend x) = cnt relpend (macts s) + b2n (relpend {| mp := p; mc := mc x |})).
    { intros p. rewrite Hset. pose proof (cnt_set_nth relpend (macts s) a {| mp := p; mc := mc x |} mdflt Hl) as H. now rewrite Hn in H. }
    assert (Hws : forall bb p, wsum bb (mseta s a p) + mw bb x = wsum bb (macts s) + mw bb {| mp := p; mc := mc x |}).
    { intros bb p. rewrite Hset. pose proof (wsum_set_nth bb (macts s) a {| mp := p; mc := mc x |} mdflt Hl) as H. now rewrite Hn in H. }
    assert (Hlen : forall p, length (mseta s a p) = length (macts s)) by (intros p; rewrite Hset; apply length_set_nth).
    assert (Hrel : forall p, relpend {| mp := p; mc := mc x |} = match p with MHeld RelCalled | MTHeld RelCalled => true | _ => false end) by reflexivity.
    unfold mmeasure.
    (* the two not-granted outcomes of a Lock section *)
    assert (Hnogrant : (forall bb, mw bb x = 1) -> relpend x = false -> locked s = true ->
              forall b' ch, getch (mb s) = (b', ch) ->
              cnt relpend (mseta s a (if mc x then MCanceled else MWait ch)) * (2 * length (mseta s a (if mc x then MCanceled else MWait ch)) + 2)
                + wsum b' (mseta s a (if mc x then MCanceled else MWait ch))
              < cnt relpend (macts s) * (2 * length (macts s) + 2) + wsum (mb s) (macts s)).
    { intros Hw1 Hr0 El b' ch Eg.
      assert (Eb : fst (getch (mb s)) = b') by (now rewrite Eg).
      pose proof (getch_open (mb s) Hwf) as Ho. rewrite Eg in Ho. destruct Ho as [_ [Hopen _]].
      pose proof (wsum_getch (mb s) (macts s) Hwf Hwaiters) as WG. rewrite Eb in WG.
      pose proof (Hw1 b') as Hwx.
      rewrite Hlen.
      destruct (mc x) eqn:Emc.
      - cbv iota. pose proof (Hcnt MCanceled) as C1. pose proof (Hws b' MCanceled) as W1.
        rewrite WG, Hwx in W1. rewrite Hr0 in C1. try rewrite Emc in C1.
        assert (E0 : mw b' {| mp := MCanceled; mc := true |} = 0) by reflexivity. try rewrite Emc in W1. rewrite E0 in W1.
        assert (E1 : relpend {| mp := MCanceled; mc := true |} = false) by reflexivity. rewrite E1 in C1. cbn [b2n] in C1.
        assert (Hc : cnt relpend (mseta s a MCanceled) = cnt relpend (macts s)) by lia. rewrite Hc. lia.
      - cbv iota. pose proof (Hcnt (MWait ch)) as C1. pose proof (Hws b' (MWait ch)) as W1.
        rewrite WG, Hwx in W1. rewrite Hr0 in C1. try rewrite Emc in C1.
        assert (E0 : mw b' {| mp := MWait ch; mc := false |} = 0) by (unfold mw; cbn [mp mc]; now rewrite Hopen). try rewrite Emc in W1. rewrite E0 in W1.
        assert (E1 : relpend {| mp := MWait ch; mc := false |} = false) by reflexivity. rewrite E1 in C1. cbn [b2n] in C1.
        assert (Hc : cnt relpend (mseta s a (MWait ch)) = cnt relpend (macts s)) by lia. rewrite Hc. lia. }
    (* outcomes that do not touch the Broadcast *)
    assert (Hplain : forall p, (forall bb, mw bb x = 1) -> relpend x = false ->
              mw (mb s) {| mp := p; mc := mc x |} = 0 -> relpend {| mp := p; mc := mc x |} = false ->
              cnt relpend (mseta s a p) * (2 * length (mseta s a p) + 2) + wsum (mb s) (mseta s a p)
              < cnt relpend (macts s) * (2 * length (macts s) + 2) + wsum (mb s) (macts s)).
    { intros p Hw1 Hr0 Hw0 Hr1. pose proof (Hcnt p) as C1. pose proof (Hws (mb s) p) as W1.
      rewrite Hlen. rewrite Hr0, Hr1 in C1. rewrite (Hw1 (mb s)), Hw0 in W1. cbn [b2n] in C1.
      assert (Hc : cnt relpend (mseta s a p) = cnt relpend (macts s)) by lia. rewrite Hc. lia. }
    (* the release section *)
    assert (Hrelease : forall p, relpend x = true -> (forall bb, mw bb x = 0) -> relpend {| mp := p; mc := mc x |} = false ->
              (forall bb, mw bb {| mp := p; mc := mc x |} = 0) ->
              cnt relpend (mseta s a p) * (2 * length (mseta s a p) + 2) + wsum (bcast (mb s)) (mseta s a p)
              < cnt relpend (macts s) * (2 * length (macts s) + 2) + wsum (mb s) (macts s)).
    { intros p Hr1 Hw0 Hr0 Hwp. pose proof (Hcnt p) as C1. pose proof (Hws (bcast (mb s)) p) as W1.
      pose proof (wsum_any_bc (mb s) (bcast (mb s)) (macts s)) as B1.
      rewrite Hlen. rewrite Hr1, Hr0 in C1. rewrite Hwp in W1. cbn [b2n] in C1.
      pose proof (Hw0 (bcast (mb s))) as Hx0. rewrite Hx0 in W1.
      assert (Hc : cnt relpend (mseta s a p) + 1 = cnt relpend (macts s)) by lia. rewrite <- Hc. nia. }
    destruct (mp x) as [|ch| |g| | |g|] eqn:Ep; try congruence.
    + (* MStart *)
      assert (Hw1 : forall bb, mw bb x = 1) by (intros bb; unfold mw; now rewrite Ep).
      assert (Hr0 : relpend x = false) by (unfold relpend; now rewrite Ep).
      destruct (locked s) eqn:El.
      * destruct (getch (mb s)) as [b' ch] eqn:Eg. cbn [mb macts]. now apply (Hnogrant Hw1 Hr0 eq_refl b' ch).
      * cbn [mb macts]. now apply Hplain.
    + (* MWoken *)
      assert (Hw1 : forall bb, mw bb x = 1) by (intros bb; unfold mw; now rewrite Ep).
      assert (Hr0 : relpend x = false) by (unfold relpend; now rewrite Ep).
      destruct (locked s) eqn:El.
      * destruct (getch (mb s)) as [b' ch0] eqn:Eg. cbn [mb macts]. now apply (Hnogrant Hw1 Hr0 eq_refl b' ch0).
      * cbn [mb macts]. now apply Hplain.
    + (* MHeld g *)
      destruct g; try congruence. cbn [mb macts]. apply Hrelease; try reflexivity; [unfold relpend; now rewrite Ep | intros bb; unfold mw; now rewrite Ep].
    + (* MTStart *)
      assert (Hw1 : forall bb, mw bb x = 1) by (intros bb; unfold mw; now rewrite Ep).
      assert (Hr0 : relpend x = false) by (unfold relpend; now rewrite Ep).
      destruct (locked s) eqn:El; cbn [mb macts]; now apply Hplain.
    + (* MTHeld g *)
      destruct g; try congruence. cbn [mb macts]. apply Hrelease; try reflexivity; [unfold relpend; now rewrite Ep | intros bb; unfold mw; now rewrite Ep].
  - (* a wake-up *)
    destruct (nth_error (macts s) a) as [x|] eqn:G; [|congruence].
    destruct (mgeta _ _ _ G) as [Hl Hn].
    destruct (mp x) as [|ch| |g| | |g|] eqn:Ep; try congruence.
    destruct (closed (mb s) ch) eqn:Ec; [|congruence].
    unfold mmeasure. cbn [mb macts]. unfold mseta. rewrite G, length_set_nth.
    pose proof (cnt_set_nth relpend (macts s) a {| mp := MWoken; mc := mc x |} mdflt Hl) as C1.
    pose proof (wsum_set_nth (mb s) (macts s) a {| mp := MWoken; mc := mc x |} mdflt Hl) as W1.
    rewrite Hn in C1, W1.
    assert (Er : relpend x = false) by (unfold relpend; now rewrite Ep). rewrite Er in C1.
    assert (Er' : relpend {| mp := MWoken; mc := mc x |} = false) by reflexivity. rewrite Er' in C1. cbn [b2n] in C1.
    unfold mw in W1. cbn [mp mc] in W1. rewrite Ep, Ec in W1.
    assert (Hc : cnt relpend (set_nth (macts s) a {| mp := MWoken; mc := mc x |}) = cnt relpend (macts s)) by lia. rewrite Hc.
    destruct (mc x); lia.
  - (* a give-up *)
    destruct (nth_error (macts s) a) as [x|] eqn:G; [|congruence].
    destruct (mgeta _ _ _ G) as [Hl Hn].
    destruct (mp x) as [|ch| |g| | |g|] eqn:Ep; try congruence.
    destruct (mc x) eqn:Emc; [|congruence].
    unfold mmeasure. cbn [mb macts]. unfold mseta. rewrite G, length_set_nth.
    pose proof (cnt_set_nth relpend (macts s) a {| mp := MCanceled; mc := mc x |} mdflt Hl) as C1.
    pose proof (wsum_set_nth (mb s) (macts s) a {| mp := MCanceled; mc := mc x |} mdflt Hl) as W1.
    rewrite Hn in C1, W1.
    assert (Er : relpend x = false) by (unfold relpend; now rewrite Ep). rewrite Er in C1.
    assert (Er' : relpend {| mp := MCanceled; mc := mc x |} = false) by reflexivity. rewrite Er' in C1. cbn [b2n] in C1.
    unfold mw in W1. cbn [mp mc] in W1. rewrite Ep in W1.
    assert (Hm : (if mc x then 1 else 0) = 1) by (now rewrite Emc). rewrite Hm in W1.
    assert (Hc : cnt relpend (set_nth (macts s) a {| mp := MCanceled; mc := mc x |}) = cnt relpend (macts s)) by lia. rewrite Hc.
    destruct (closed (mb s) ch); lia.
Qed.

(* hence: a run of internal events in which every event changes the state is at most [mmeasure s] long *)
Fixpoint effective_run (s : mst) (es : list mev) : Prop :=
  match es with
  | [] => True
  | e :: r => internal e = true /\ mstep s e <> s /\ effective_run (mstep s e) r
  end.

Theorem internal_steps_terminate es : forall s, MInv s -> effective_run s es -> length es <= mmeasure s.
Proof.
  induction es as [|e r IH]; intros s HI Hr; [simpl; lia|].
  destruct Hr as [Hi [Hne Hr]].
  pose proof (internal_step_decreases s e HI Hi Hne) as Hd.
  specialize (IH (mstep s e) (mstep_inv s e HI) Hr). simpl. lia.
Qed.

(* when no internal event changes the state any more, the state is quiescent *)
Lemma stuck_is_quiescent s :
  (forall a, mstep s (MSect a) = s /\ mstep s (MWake a) = s /\ mstep s (MCancelWake a) = s) -> mquiescent s = true.
Proof.
  intros H. unfold mquiescent. apply forallb_forall. intros x Hin.
  destruct (In_nth_error _ _ Hin) as [a Ha]. destruct (H a) as [H1 [H2 H3]].
  assert (Hl : a < length (macts s)) by (eapply nth_error_nth_len; eauto).
  assert (Hself : forall p, mseta s a p = macts s -> {| mp := p; mc := mc x |} = x).
  { intros p E. unfold mseta in E. rewrite Ha in E.
    assert (nth_error (set_nth (macts s) a {| mp := p; mc := mc x |}) a = Some x) by (rewrite E; exact Ha).
    rewrite nth_error_set_nth_same in H0 by exact Hl. now inversion H0. }
  cbn [mstep] in H1, H2, H3. rewrite Ha in H1, H2, H3.
  destruct x as [p c]. cbn [mp mc] in *. unfold mat_gate. cbn [mp].
  destruct p as [|ch| |g| | |g|]; cbn [negb andb]; try reflexivity.
  - exfalso. destruct (locked s); [destruct (getch (mb s)) as [b' ch] eqn:Eg|].
    + pose proof (f_equal macts H1) as E. cbn [macts] in E.
      apply Hself in E. cbn [mc] in E. destruct c; inversion E.
    + pose proof (f_equal macts H1) as E. cbn [macts] in E. apply Hself in E. inversion E.
  - destruct (closed (mb s) ch) eqn:Ec.
    + exfalso. pose proof (f_equal macts H2) as E. cbn [macts] in E. apply Hself in E. inversion E.
    + cbn [negb andb]. destruct c; [|reflexivity]. exfalso.
      pose proof (f_equal macts H3) as E. cbn [macts] in E. apply Hself in E. inversion E.
  - exfalso. destruct (locked s); [destruct (getch (mb s)) as [b' ch] eqn:Eg|].
    + pose proof (f_equal macts H1) as E. cbn [macts] in E.
      apply Hself in E. cbn [mc] in E. destruct c; inversion E.
    + pose proof (f_equal macts H1) as E. cbn [macts] in E. apply Hself in E. inversion E.
  - destruct g; try reflexivity. exfalso.
    pose proof (f_equal macts H1) as E. cbn [macts] in E. apply Hself in E. inversion E.
  - exfalso. destruct (locked s).
    + pose proof (f_equal macts H1) as E. cbn [macts] in E. apply Hself in E. inversion E.
    + pose proof (f_equal macts H1) as E. cbn [macts] in E. apply Hself in E. inversion E.
  - destruct g; try reflexivity. exfalso.
    pose proof (f_equal macts H1) as E. cbn [macts] in E. apply Hself in E. inversion E.
Qed.
