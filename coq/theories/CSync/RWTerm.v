(* RWMutex: internal steps terminate (C02's "without needing any further unrelated acquire or release").  From every state
   that satisfies the invariants, every sequence of effective internal steps - critical sections of callers that are at a
   gate, wake-ups, give-ups - is finite, bounded by the explicit measure [rwmeasure]; when no internal step changes the
   state any more the state is quiescent, where C02's quiescence clauses apply.

   The measure: only two kinds of section broadcast (and so can make blocked callers runnable again): the unlocking section
   of a release() that has been entered, and the give-up section of a cancelled waiting WRITER.  Each call runs such a section
   at most once, and no internal step creates a new candidate (entering release() and cancelling a context are API events),
   so their number [rwpot] never grows and drops with every broadcast.  Between broadcasts every step strictly lowers the sum
   of the per-caller weights [rw_weight]; a broadcast raises that sum by at most 2 per caller. *)
From Util Require Import Common.Base Common.ListLemmas CSync.RWModel CSync.RWProofs.

Definition rw_relpend (x : actor) : bool :=
  match apc x with LHeld RelCalled | THeld RelCalled => true | _ => false end.

(* a writer that will, or may still, run the broadcasting give-up section *)
Definition rw_wgu (x : actor) : bool :=
  aw x && match apc x with LGiveUp => true | LStart | LWait _ | LWoken => acanc x | _ => false end.

Definition rw_weight (b : bc) (x : actor) : nat :=
  match apc x with
  | LStart | LWoken => if acanc x then 2 else 1
  | TStart | LGiveUp => 1
  | LWait ch => (if closed b ch then 2 else 0) + (if acanc x then 2 else 0)
  | _ => 0
  end.

Definition rwsum (b : bc) (l : list actor) : nat := fold_right (fun x acc => rw_weight b x + acc) 0 l.
Definition rwpot (l : list actor) : nat := cnt rw_relpend l + cnt rw_wgu l.
Definition rwmeas (b : bc) (l : list actor) : nat := rwpot l * (2 * length l + 2) + rwsum b l.
Definition rwmeasure (s : st) : nat := rwmeas (b s) (acts s).

Definition rw_internal (e : ev) : bool := match e with Sect _ | Wake _ | CancelWake _ => true | _ => false end.

Lemma rwsum_set_nth b l a v d : a < length l ->
  rwsum b (set_nth l a v) + rw_weight b (nth a l d) = rwsum b l + rw_weight b v.
Proof.
  revert a. induction l as [|h t IH]; intros a Ha; simpl in *; [lia|].
  destruct a; simpl; [lia|]. specialize (IH a ltac:(lia)). lia.
Qed.

(* changing the Broadcast can raise each weight by at most 2 *)
Lemma rwsum_any_bc b b' l : rwsum b' l <= rwsum b l + 2 * length l.
Proof.
  induction l as [|h t IH]; simpl; [lia|].
  assert (rw_weight b' h <= rw_weight b h + 2).
  { unfold rw_weight. destruct (apc h); try lia. destruct (closed b' ch), (closed b ch); lia. }
  lia.
Qed.

(* taking the wait channel does not change the weight of a waiter whose channel was allocated before *)
Lemma rwsum_getch b l :
  bc_wf b -> (forall x ch, In x l -> apc x = LWait ch -> ch < nxt b) -> rwsum (fst (getch b)) l = rwsum b l.
Proof.
  intros Hwf H. induction l as [|h t IH]; simpl; [reflexivity|].
  rewrite IH by (intros x ch Hin; apply H; now right). f_equal.
  unfold rw_weight. destruct (apc h) eqn:E; try reflexivity.
  rewrite getch_closed_same; [reflexivity | exact Hwf | eapply H; [now left | exact E]].
Qed.

(* a step that rewrites one caller and keeps every other weight: the measure drops when the caller's weight drops and
   it does not become a new broadcast candidate *)
Lemma local_decrease b b' l a x v :
  a < length l -> nth a l dflt = x ->
  b2n (rw_relpend v) + b2n (rw_wgu v) <= b2n (rw_relpend x) + b2n (rw_wgu x) ->
  rwsum b' l = rwsum b l -> rw_weight b' v < rw_weight b' x ->
  rwmeas b' (set_nth l a v) < rwmeas b l.
Proof.
  intros Hl Hn Hpot Hsum Hw. unfold rwmeas, rwpot. rewrite length_set_nth.
  pose proof (cnt_set_nth rw_relpend l a v dflt Hl) as C1. pose proof (cnt_set_nth rw_wgu l a v dflt Hl) as C2.
  pose proof (rwsum_set_nth b' l a v dflt Hl) as W1. rewrite Hn in C1, C2, W1.
  assert (HP : cnt rw_relpend (set_nth l a v) + cnt rw_wgu (set_nth l a v) <= cnt rw_relpend l + cnt rw_wgu l) by lia.
  assert (HW : rwsum b' (set_nth l a v) < rwsum b l) by lia.
  pose proof (Nat.mul_le_mono_r _ _ (2 * length l + 2) HP). lia.
Qed.

(* a broadcasting section: one candidate fewer pays for 2 per caller *)
Lemma bcast_decrease b b' l a x v :
  a < length l -> nth a l dflt = x ->
  b2n (rw_relpend v) + b2n (rw_wgu v) + 1 = b2n (rw_relpend x) + b2n (rw_wgu x) ->
  rw_weight b' v <= rw_weight b' x ->
  rwmeas b' (set_nth l a v) < rwmeas b l.
Proof.
  intros Hl Hn Hpot Hw. unfold rwmeas, rwpot. rewrite length_set_nth.
  pose proof (cnt_set_nth rw_relpend l a v dflt Hl) as C1. pose proof (cnt_set_nth rw_wgu l a v dflt Hl) as C2.
  pose proof (rwsum_set_nth b' l a v dflt Hl) as W1. rewrite Hn in C1, C2, W1.
  pose proof (rwsum_any_bc b b' l) as B1.
  assert (HP : cnt rw_relpend (set_nth l a v) + cnt rw_wgu (set_nth l a v) + 1 = cnt rw_relpend l + cnt rw_wgu l) by lia.
  rewrite <- HP. nia.
Qed.

Theorem rw_internal_step_decreases s e :
  Inv2 s -> rw_internal e = true -> step s e <> s -> rwmeasure (step s e) < rwmeasure s.
Proof.
  intros (Hwf & HW) Hi Hne. unfold rwmeasure.
  assert (Hwaiters : forall y ch, In y (acts s) -> apc y = LWait ch -> ch < nxt (b s)).
  { intros y ch Hin Hp. destruct (In_nth_error _ _ Hin) as [k Hk]. exact (proj1 (HW k y ch Hk Hp)). }
  destruct e as [| |a|a| |a|]; try discriminate; unfold step in *; cbn [step_gen] in *.
  - (* a critical section *)
    destruct (nth_error (acts s) a) as [x|] eqn:G; [|congruence].
    destruct (geta _ _ _ G) as [Hl Hn].
    assert (Hset : forall p, seta s a p = set_nth (acts s) a {| aw := aw x; apc := p; acanc := acanc x |}) by (intros p; unfold seta; now rewrite G).
    (* not granted: wait (or give up) on the channel taken in the same section *)
    assert (Hnogrant : (apc x = LStart \/ apc x = LWoken) ->
              forall b' ch, getch (b s) = (b', ch) ->
              rwmeas b' (seta s a (after_nogrant x ch)) < rwmeas (b s) (acts s)).
    { intros Hp b' ch Eg.
      assert (Eb : fst (getch (b s)) = b') by (now rewrite Eg).
      pose proof (getch_open (b s) Hwf) as Ho. rewrite Eg in Ho. destruct Ho as [_ [Hopen _]].
      pose proof (rwsum_getch (b s) (acts s) Hwf Hwaiters) as WG. rewrite Eb in WG.
      rewrite Hset. apply (local_decrease (b s) b' (acts s) a x); auto.
      - unfold rw_relpend, rw_wgu, after_nogrant. cbn [apc aw acanc]. destruct Hp as [-> | ->]; destruct (acanc x); cbn [b2n]; lia.
      - unfold rw_weight, after_nogrant. cbn [apc acanc]. destruct Hp as [-> | ->]; destruct (acanc x); cbn [apc]; rewrite ?Hopen; lia. }
    (* outcomes that do not touch the Broadcast *)
    assert (Hplain : forall p,
              b2n (rw_relpend {| aw := aw x; apc := p; acanc := acanc x |}) + b2n (rw_wgu {| aw := aw x; apc := p; acanc := acanc x |})
                <= b2n (rw_relpend x) + b2n (rw_wgu x) ->
              rw_weight (b s) {| aw := aw x; apc := p; acanc := acanc x |} < rw_weight (b s) x ->
              rwmeas (b s) (seta s a p) < rwmeas (b s) (acts s)).
    { intros p H1 H2. rewrite Hset. apply (local_decrease (b s) (b s) (acts s) a x); auto. }
    (* broadcasting sections *)
    assert (Hbc : forall p,
              b2n (rw_relpend {| aw := aw x; apc := p; acanc := acanc x |}) + b2n (rw_wgu {| aw := aw x; apc := p; acanc := acanc x |}) + 1
                = b2n (rw_relpend x) + b2n (rw_wgu x) ->
              rw_weight (bcast (b s)) {| aw := aw x; apc := p; acanc := acanc x |} <= rw_weight (bcast (b s)) x ->
              rwmeas (bcast (b s)) (seta s a p) < rwmeas (b s) (acts s)).
    { intros p H1 H2. rewrite Hset. apply (bcast_decrease (b s) (bcast (b s)) (acts s) a x); auto. }
    destruct x as [w p c]. cbn [apc aw acanc] in *.
    destruct p as [|ch| | |g| | |g|]; destruct w; try congruence; try (destruct g; try congruence);
      try match goal with |- context [if grantW ?s0 then _ else _] => destruct (grantW s0) end;
      try match goal with |- context [if grantR ?s0 then _ else _] => destruct (grantR s0) end;
      try (destruct (getch (b s)) as [b' ch'] eqn:Eg; cbn [b acts]; eapply Hnogrant; eauto; fail);
      cbn [b acts];
      try (apply Hplain; unfold rw_relpend, rw_wgu, rw_weight; cbn [apc aw acanc andb b2n]; destruct c; cbn [b2n]; lia);
      try (apply Hbc; unfold rw_relpend, rw_wgu, rw_weight; cbn [apc aw acanc andb b2n]; destruct c; cbn [b2n]; lia).
  - (* a wake-up *)
    destruct (nth_error (acts s) a) as [x|] eqn:G; [|congruence].
    destruct (geta _ _ _ G) as [Hl Hn].
    destruct (apc x) as [|ch| | |g| | |g|] eqn:Ep; try congruence.
    destruct (closed (b s) ch) eqn:Ec; [|congruence].
    cbn [b acts]. unfold seta. rewrite G.
    apply (local_decrease (b s) (b s) (acts s) a x); auto.
    + unfold rw_relpend, rw_wgu. cbn [apc aw acanc]. rewrite Ep. lia.
    + unfold rw_weight. cbn [apc acanc]. rewrite Ep, Ec. destruct (acanc x); lia.
  - (* a give-up *)
    destruct (nth_error (acts s) a) as [x|] eqn:G; [|congruence].
    destruct (geta _ _ _ G) as [Hl Hn].
    destruct (apc x) as [|ch| | |g| | |g|] eqn:Ep; try congruence.
    destruct (acanc x) eqn:Ec; [|congruence].
    cbn [b acts]. unfold seta. rewrite G.
    apply (local_decrease (b s) (b s) (acts s) a x); auto.
    + unfold rw_relpend, rw_wgu. cbn [apc aw acanc]. rewrite Ep, Ec. lia.
    + unfold rw_weight. cbn [apc acanc]. rewrite Ep, Ec. destruct (closed (b s) ch); lia.
Qed.

(* hence: a run of internal events in which every event changes the state is at most [rwmeasure s] long *)
Fixpoint rw_effective_run (s : st) (es : list ev) : Prop :=
  match es with
  | [] => True
  | e :: r => rw_internal e = true /\ step s e <> s /\ rw_effective_run (step s e) r
  end.

Theorem rw_internal_steps_terminate es : forall s, Inv s -> Inv2 s -> rw_effective_run s es -> length es <= rwmeasure s.
Proof.
  induction es as [|e r IH]; intros s HI HI2 Hr; [simpl; lia|].
  destruct Hr as [Hi [Hne Hr]].
  pose proof (rw_internal_step_decreases s e HI2 Hi Hne) as Hd.
  specialize (IH (step s e) (step_gen_inv true s e HI) (step_inv2 s e HI HI2) Hr). simpl. lia.
Qed.

(* when no internal event changes the state any more, the state is quiescent *)
Lemma rw_stuck_is_quiescent s :
  (forall a, step s (Sect a) = s /\ step s (Wake a) = s /\ step s (CancelWake a) = s) -> quiescent s = true.
Proof.
  intros H. unfold quiescent. apply forallb_forall. intros x Hin.
  destruct (In_nth_error _ _ Hin) as [a Ha]. destruct (H a) as [H1 [H2 H3]].
  assert (Hl : a < length (acts s)) by (eapply nth_error_nth_len; eauto).
  assert (Hself : forall p, seta s a p = acts s -> {| aw := aw x; apc := p; acanc := acanc x |} = x).
  { intros p E. unfold seta in E. rewrite Ha in E.
    assert (Hx : nth_error (set_nth (acts s) a {| aw := aw x; apc := p; acanc := acanc x |}) a = Some x) by (rewrite E; exact Ha).
    rewrite nth_error_set_nth_same in Hx by exact Hl. now inversion Hx. }
  unfold step in H1, H2, H3. cbn [step_gen] in H1, H2, H3. rewrite Ha in H1, H2, H3.
  destruct x as [w p c]. cbn [apc aw acanc] in *. unfold at_gate. cbn [apc].
  destruct p as [|ch| | |g| | |g|]; cbn [negb andb]; try reflexivity.
  - (* LStart *) exfalso. unfold after_nogrant in H1. cbn [acanc] in H1.
    destruct w; [destruct (grantW s) | destruct (grantR s)]; try destruct (getch (b s)) as [b' ch];
      pose proof (f_equal acts H1) as E; cbn [acts] in E; apply Hself in E; destruct c; inversion E.
  - (* LWait *) destruct (closed (b s) ch) eqn:Ec.
    + exfalso. pose proof (f_equal acts H2) as E. cbn [acts] in E. apply Hself in E. inversion E.
    + cbn [negb andb]. destruct c; [|reflexivity]. exfalso.
      pose proof (f_equal acts H3) as E. cbn [acts] in E. apply Hself in E. inversion E.
  - (* LWoken *) exfalso. unfold after_nogrant in H1. cbn [acanc] in H1.
    destruct w; [destruct (grantW s) | destruct (grantR s)]; try destruct (getch (b s)) as [b' ch];
      pose proof (f_equal acts H1) as E; cbn [acts] in E; apply Hself in E; destruct c; inversion E.
  - (* LGiveUp *) exfalso.
    destruct w; pose proof (f_equal acts H1) as E; cbn [acts] in E; apply Hself in E; inversion E.
  - (* LHeld *) destruct g; try reflexivity. exfalso.
    destruct w; pose proof (f_equal acts H1) as E; cbn [acts] in E; apply Hself in E; inversion E.
  - (* TStart *) exfalso.
    destruct w; [destruct (grantW s) | destruct (grantR s)];
      pose proof (f_equal acts H1) as E; cbn [acts] in E; apply Hself in E; inversion E.
  - (* THeld *) destruct g; try reflexivity. exfalso.
    destruct w; pose proof (f_equal acts H1) as E; cbn [acts] in E; apply Hself in E; inversion E.
Qed.
