(* csync.RWMutex at gate granularity (C01, C02).  One entry of [acts] per Lock/TryLock call; a
   critical section of the Broadcast is one step.  Model of the code AFTER repair D1 (a waiting
   writer that gives up broadcasts); [step_pinned] keeps the unrepaired give-up for the
   refutation theorem.  No proofs in this file. *)
From Util Require Import Common.Base Common.ListLemmas.

(* life of a grant: handed to the caller; release() entered (status word swapped to 2, unlocking
   section not yet run); unlocking section done *)
Inductive grant := Granted | RelCalled | Released.

Inductive pc :=
| LStart                 (* Lock: parked before its first section *)
| LWait (ch : nat)       (* Lock: blocked in select on ch (and on ctx) *)
| LWoken                 (* Lock: woke up on the channel, parked before the re-check section *)
| LGiveUp                (* Lock: ctx case taken, release() swapped status 0->2, parked before its section *)
| LHeld (g : grant)      (* Lock returned the release function *)
| LCanceled              (* Lock returned context.Canceled *)
| TStart                 (* TryLock: parked before its section *)
| THeld (g : grant)      (* TryLock returned (release, true) *)
| TFalse.                (* TryLock returned (nil, false) *)

Record actor := { aw : bool; apc : pc; acanc : bool }.   (* write?; pc; ctx cancelled? *)

Record st := { b : bc; nreaders : nat; writing : bool; ww : nat; acts : list actor }.

Inductive ev :=
| CallLock (w : bool) | CallTry (w : bool)
| Sect (a : nat)          (* run the section actor a is parked before *)
| Wake (a : nat)          (* select takes the wait-channel case (requires the channel closed) *)
| CancelCtx (a : nat)     (* the caller's context is cancelled *)
| CancelWake (a : nat)    (* select takes the ctx case (requires ctx cancelled) *)
| Release (a : nat).      (* the release function of a's grant is called (any number of times) *)

Definition init : st := {| b := bc0; nreaders := 0; writing := false; ww := 0; acts := [] |}.

Definition grantW (s : st) : bool := Nat.eqb (nreaders s) 0 && negb (writing s).
Definition grantR (s : st) : bool := negb (writing s) && Nat.eqb (ww s) 0.

Definition seta (s : st) (a : nat) (p : pc) : list actor :=
  match nth_error (acts s) a with
  | Some x => set_nth (acts s) a {| aw := aw x; apc := p; acanc := acanc x |}
  | None => acts s
  end.

(* after a section that did not grant: the select sees ctx.Done if cancelled, else blocks *)
Definition after_nogrant (x : actor) (ch : nat) : pc := if acanc x then LGiveUp else LWait ch.

(* [fixed] = true: the repaired give-up section broadcasts when it unregisters a writer *)
Definition step_gen (fixed : bool) (s : st) (e : ev) : st :=
  match e with
  | CallLock w => {| b := b s; nreaders := nreaders s; writing := writing s; ww := ww s;
                     acts := acts s ++ [{| aw := w; apc := LStart; acanc := false |}] |}
  | CallTry w => {| b := b s; nreaders := nreaders s; writing := writing s; ww := ww s;
                    acts := acts s ++ [{| aw := w; apc := TStart; acanc := false |}] |}
  | Sect a =>
    match nth_error (acts s) a with
    | None => s
    | Some x =>
      match apc x, aw x with
      | LStart, true =>
        if grantW s then {| b := b s; nreaders := nreaders s; writing := true; ww := ww s; acts := seta s a (LHeld Granted) |}
        else let '(b', ch) := getch (b s) in
             {| b := b'; nreaders := nreaders s; writing := writing s; ww := S (ww s); acts := seta s a (after_nogrant x ch) |}
      | LWoken, true =>
        if grantW s then {| b := b s; nreaders := nreaders s; writing := true; ww := pred (ww s); acts := seta s a (LHeld Granted) |}
        else let '(b', ch) := getch (b s) in
             {| b := b'; nreaders := nreaders s; writing := writing s; ww := ww s; acts := seta s a (after_nogrant x ch) |}
      | LStart, false | LWoken, false =>
        if grantR s then {| b := b s; nreaders := S (nreaders s); writing := writing s; ww := ww s; acts := seta s a (LHeld Granted) |}
        else let '(b', ch) := getch (b s) in
             {| b := b'; nreaders := nreaders s; writing := writing s; ww := ww s; acts := seta s a (after_nogrant x ch) |}
      | LGiveUp, true =>
        {| b := if fixed then bcast (b s) else b s; nreaders := nreaders s; writing := writing s; ww := pred (ww s); acts := seta s a LCanceled |}
      | LGiveUp, false =>
        {| b := b s; nreaders := nreaders s; writing := writing s; ww := ww s; acts := seta s a LCanceled |}
      | TStart, true =>
        if grantW s then {| b := b s; nreaders := nreaders s; writing := true; ww := ww s; acts := seta s a (THeld Granted) |}
        else {| b := b s; nreaders := nreaders s; writing := writing s; ww := ww s; acts := seta s a TFalse |}
      | TStart, false =>
        if grantR s then {| b := b s; nreaders := S (nreaders s); writing := writing s; ww := ww s; acts := seta s a (THeld Granted) |}
        else {| b := b s; nreaders := nreaders s; writing := writing s; ww := ww s; acts := seta s a TFalse |}
      (* the unlocking section of release(): pre = 1 *)
      | LHeld RelCalled, true =>
        {| b := bcast (b s); nreaders := nreaders s; writing := false; ww := ww s; acts := seta s a (LHeld Released) |}
      | LHeld RelCalled, false =>
        {| b := bcast (b s); nreaders := pred (nreaders s); writing := writing s; ww := ww s; acts := seta s a (LHeld Released) |}
      | THeld RelCalled, true =>
        {| b := bcast (b s); nreaders := nreaders s; writing := false; ww := ww s; acts := seta s a (THeld Released) |}
      | THeld RelCalled, false =>
        {| b := bcast (b s); nreaders := pred (nreaders s); writing := writing s; ww := ww s; acts := seta s a (THeld Released) |}
      | _, _ => s
      end
    end
  | Wake a =>
    match nth_error (acts s) a with
    | Some x => match apc x with
                | LWait ch => if closed (b s) ch
                              then {| b := b s; nreaders := nreaders s; writing := writing s; ww := ww s; acts := seta s a LWoken |}
                              else s
                | _ => s
                end
    | None => s
    end
  | CancelCtx a =>
    match nth_error (acts s) a with
    | Some x => {| b := b s; nreaders := nreaders s; writing := writing s; ww := ww s;
                   acts := set_nth (acts s) a {| aw := aw x; apc := apc x; acanc := true |} |}
    | None => s
    end
  | CancelWake a =>
    match nth_error (acts s) a with
    | Some x => match apc x with
                | LWait _ => if acanc x
                             then {| b := b s; nreaders := nreaders s; writing := writing s; ww := ww s; acts := seta s a LGiveUp |}
                             else s
                | _ => s
                end
    | None => s
    end
  | Release a =>
    match nth_error (acts s) a with
    | Some x => match apc x with
                | LHeld Granted => {| b := b s; nreaders := nreaders s; writing := writing s; ww := ww s; acts := seta s a (LHeld RelCalled) |}
                | THeld Granted => {| b := b s; nreaders := nreaders s; writing := writing s; ww := ww s; acts := seta s a (THeld RelCalled) |}
                | _ => s     (* second and later calls of release(): the status swap returns 2, nothing happens *)
                end
    | None => s
    end
  end.

Definition step := step_gen true.
Definition step_pinned := step_gen false.
Definition run (es : list ev) : st := fold_left step es init.
Definition run_pinned (es : list ev) : st := fold_left step_pinned es init.

(* ---------- classification of actors ---------- *)
Definition unreleased (g : grant) : bool := match g with Released => false | _ => true end.
(* holds internally: granted and the unlocking section has not run *)
Definition holdsR (x : actor) : bool :=
  negb (aw x) && match apc x with LHeld g | THeld g => unreleased g | _ => false end.
Definition holdsW (x : actor) : bool :=
  aw x && match apc x with LHeld g | THeld g => unreleased g | _ => false end.
(* holds at the API: from the return of Lock/TryLock to the first call of release() *)
Definition apiR (x : actor) : bool :=
  negb (aw x) && match apc x with LHeld Granted | THeld Granted => true | _ => false end.
Definition apiW (x : actor) : bool :=
  aw x && match apc x with LHeld Granted | THeld Granted => true | _ => false end.
(* registered as a waiting writer (counted in writeWaiting) *)
Definition waitsW (x : actor) : bool :=
  aw x && match apc x with LWait _ | LWoken | LGiveUp => true | _ => false end.
(* parked at a gate: an internal step is enabled *)
Definition at_gate (x : actor) : bool :=
  match apc x with
  | LStart | LWoken | LGiveUp | TStart | LHeld RelCalled | THeld RelCalled => true
  | _ => false
  end.
Definition blocked (x : actor) : bool := match apc x with LWait _ => true | _ => false end.

(* no internal step is enabled: nobody at a gate, every blocked caller's channel is open and its
   context live *)
Definition quiescent (s : st) : bool :=
  forallb (fun x => negb (at_gate x) &&
                    match apc x with LWait ch => negb (closed (b s) ch) && negb (acanc x) | _ => true end) (acts s).
