(* backoff (C14, "run again automatically after each backoff interval when retry is configured, the backoff being
   reset by a success"): executable model of  Backoff.Construct  in /repo/backoff/backoff.go  and of the vendor
   algorithm it configures (github.com/cenkalti/backoff/v4 v4.3.0: ExponentialBackOff.Reset / NextBackOff /
   incrementCurrentInterval / getRandomValueFromInterval, ConstantBackOff).  NO proofs in this file.

   Units: every duration and the clock are NANOSECONDS in N (time.Duration); the config carries milliseconds.

   Floating point: the vendor computes, in IEEE-754 binary64,
        float64(cur) >= float64(Max) / Multiplier            and            Duration(float64(cur) * Multiplier)
   where Multiplier = float64(float32 from the config).  A float32 is an exact dyadic rational m * 2^(+-k); the
   quotient and the product are exact rationals p/q which the hardware rounds to nearest-even at 53 significant
   bits: [rne53] does exactly that with N arithmetic (N.log2 to find the binade, one division, remainder compared
   with half the divisor, ties to even).  float64(cur) and float64(Max) are exact because both are < 2^53 (they come
   from uint32 milliseconds: <= 4294967295e6 < 2^52; see [wf] in Proofs.v), all values stay inside the normal range
   of binary64 (>= 2^-149, <= 2^201), and the conversion Duration(x) truncates toward zero.  The harness checks this
   rounding model against Go's arithmetic bit for bit (event 4 of Spec.v) and through the vendor code itself. *)
From Util Require Import Common.Base.
Open Scope N_scope.

Definition ms : N := 1000000.
Definition two52 : N := 4503599627370496.
Definition two53 : N := 9007199254740992.

(* ---------------------------------------------------------------------------------------------- *)
(* dyadic rationals: value = dy_m * 2^dy_k  (dy_neg = false)   or   dy_m / 2^dy_k  (dy_neg = true) *)
Record dy := { dy_m : N; dy_neg : bool; dy_k : N }.

(* a float32 given by its bits, as far as the config can use it: +-0, a positive finite value, anything else *)
Inductive f32 := F32Zero | F32Pos (d : dy) | F32Bad.

Definition f32_decode (bits : N) : f32 :=
  if 4294967296 <=? bits then F32Bad else
  let s := bits / 2147483648 in
  let e := (bits / 8388608) mod 256 in
  let f := bits mod 8388608 in
  if (e =? 0) && (f =? 0) then F32Zero                     (* +0 and -0: both == 0 in Go *)
  else if s =? 1 then F32Bad                               (* negative *)
  else if e =? 255 then F32Bad                             (* Inf, NaN *)
  else if e =? 0 then F32Pos {| dy_m := f; dy_neg := true; dy_k := 149 |}     (* subnormal *)
  else if 150 <=? e then F32Pos {| dy_m := 8388608 + f; dy_neg := false; dy_k := e - 150 |}
  else F32Pos {| dy_m := 8388608 + f; dy_neg := true; dy_k := 150 - e |}.

(* round-to-nearest-even of n/d to an integer *)
Definition rne_div (n d : N) : N :=
  let q := n / d in
  let r := n mod d in
  if 2 * r <? d then q
  else if d <? 2 * r then q + 1
  else if N.even q then q else q + 1.

(* p/q scaled by 2^k upwards (up = true: (p * 2^k) / q) or downwards (p / (q * 2^k)) *)
Definition scaled (p q : N) (up : bool) (k : N) : N * N :=
  if up then (p * 2 ^ k, q) else (p, q * 2 ^ k).

(* the scale that brings p/q into [2^52, 2^53) *)
Definition norm (p q : N) : bool * N :=
  let a := N.log2 p in
  let b := N.log2 q in
  if a <=? 52 + b then
    let k := 52 + b - a in
    if q * two52 <=? p * 2 ^ k then (true, k) else (true, k + 1)
  else
    let j := a - b - 52 in
    if q * 2 ^ j * two52 <=? p then (false, j) else (false, j - 1).

(* the binary64 nearest to p/q (ties to even), as a dyadic rational with a 53-bit mantissa (2^52 <= m <= 2^53) *)
Definition rne53 (p q : N) : dy :=
  if p =? 0 then {| dy_m := 0; dy_neg := false; dy_k := 0 |}
  else
    let '(up, k) := norm p q in
    let '(n, d) := scaled p q up k in
    {| dy_m := rne_div n d; dy_neg := up; dy_k := k |}.

(* float64(a) / mult   and   float64(a) * mult   for an integer a < 2^53 *)
Definition fdiv (a : N) (mult : dy) : dy :=
  if dy_neg mult then rne53 (a * 2 ^ dy_k mult) (dy_m mult) else rne53 a (dy_m mult * 2 ^ dy_k mult).
Definition fmul (a : N) (mult : dy) : dy :=
  if dy_neg mult then rne53 (a * dy_m mult) (2 ^ dy_k mult) else rne53 (a * dy_m mult * 2 ^ dy_k mult) 1.

(* float64(c) >= f *)
Definition ge_dy (c : N) (f : dy) : bool :=
  if dy_neg f then dy_m f <=? c * 2 ^ dy_k f else dy_m f * 2 ^ dy_k f <=? c.
(* Duration(f): truncation toward zero *)
Definition trunc (f : dy) : N :=
  if dy_neg f then dy_m f / 2 ^ dy_k f else dy_m f * 2 ^ dy_k f.

(* the IEEE bits of a normalised value (only used to compare with math.Float64bits in the harness) *)
Definition dy_bits (f : dy) : N :=
  if dy_m f =? 0 then 0
  else
    let m := if dy_m f =? two53 then two52 else dy_m f in
    let adj := if dy_m f =? two53 then 1 else 0 in
    let biased := if dy_neg f then 1075 + adj - dy_k f else 1075 + adj + dy_k f in
    biased * two52 + (m - two52).

(* incrementCurrentInterval *)
Definition grow (mx : N) (mult : dy) (cur : N) : N :=
  if ge_dy cur (fdiv mx mult) then mx else trunc (fmul cur mult).

(* getRandomValueFromInterval for a factor rf in (0, 1]:  delta = rf * cur, the result is
   Duration(min + random * (max - min + 1)) with min = cur - delta, max = cur + delta, random in [0,1): in exact
   arithmetic a value in [floor(cur - delta), floor(cur + delta + 1)].  The seven float operations involved each
   err by at most half an ulp of a value <= 2 * cur + 2, i.e. by less than (cur + 1) * 2^-52 each: the model allows
   a slack of 1 + cur / 2^48 nanoseconds on both sides (1 ns for every interval below 78 hours). *)
Definition rf_range (rf : dy) (cur : N) : N * N :=
  let num := cur * dy_m rf in
  let dfl := if dy_neg rf then num / 2 ^ dy_k rf else num * 2 ^ dy_k rf in
  let dce := if dy_neg rf then (num + 2 ^ dy_k rf - 1) / 2 ^ dy_k rf else num * 2 ^ dy_k rf in
  let slack := 1 + cur / 281474976710656 in
  (cur - dce - slack, cur + dfl + 1 + slack).

Definition dy_le1 (d : dy) : bool :=
  if dy_neg d then dy_m d <=? 2 ^ dy_k d else dy_m d * 2 ^ dy_k d <=? 1.

(* ---------------------------------------------------------------------------------------------- *)
(* the config message (protobuf fields; uint32 milliseconds, float32 bits) and what Construct makes of it *)
Record config := {
  c_kind : N;       (* 0 unknown, 1 exponential, 2 constant; anything else is treated as exponential *)
  c_init : N;       (* exponential.initial_interval, ms *)
  c_mult : N;       (* exponential.multiplier, float32 bits *)
  c_max : N;        (* exponential.max_interval, ms *)
  c_rf : N;         (* exponential.randomization_factor, float32 bits *)
  c_maxel : N;      (* exponential.max_elapsed_time, ms *)
  c_const : N       (* constant.interval, ms *)
}.

Inductive kind := KExpo | KConst.

(* the constructed vendor object; durations in ns *)
Record params := {
  p_kind : kind;
  p_init : N;              (* InitialInterval *)
  p_mult : dy;             (* Multiplier *)
  p_max : N;               (* MaxInterval *)
  p_rf : option dy;        (* RandomizationFactor; None = 0 *)
  p_maxel : N;             (* MaxElapsedTime; 0 = never stop *)
  p_cint : N               (* ConstantBackOff.Interval *)
}.

Definition dflt (x d : N) : N := if x =? 0 then d else x.

(* float32(1.8) = 15099494 / 2^23 = 1.7999999523162842 (bits 1072064102) *)
Definition dy_18 : dy := {| dy_m := 15099494; dy_neg := true; dy_k := 23 |}.

(* None: a multiplier / randomization factor outside the modelled domain (negative, Inf, NaN, factor > 1) *)
Definition Construct (c : config) : option params :=
  if c_kind c =? 2 then
    Some {| p_kind := KConst; p_init := 0; p_mult := dy_18; p_max := 0; p_rf := None; p_maxel := 0;
            p_cint := dflt (c_const c) 5000 * ms |}
  else
    let mk mult rf :=
      Some {| p_kind := KExpo; p_init := dflt (c_init c) 800 * ms; p_mult := mult; p_max := dflt (c_max c) 20000 * ms;
              p_rf := rf; p_maxel := c_maxel c * ms; p_cint := 0 |} in
    let with_mult mult :=
      match f32_decode (c_rf c) with
      | F32Zero => mk mult None
      | F32Pos r => if dy_le1 r then mk mult (Some r) else None
      | F32Bad => None
      end in
    match f32_decode (c_mult c) with
    | F32Zero => with_mult dy_18
    | F32Pos d => with_mult d
    | F32Bad => None
    end.

(* ---------------------------------------------------------------------------------------------- *)
(* the vendor state machine *)
Record bstate := { b_cur : N; b_start : N }.

Definition bo_reset (p : params) (now : N) : bstate := {| b_cur := p_init p; b_start := now |}.

(* MaxElapsedTime != 0 && elapsed + next > MaxElapsedTime *)
Definition stops (p : params) (now : N) (s : bstate) (v : N) : bool :=
  negb (p_maxel p =? 0) && (p_maxel p <? (now - b_start s) + v).

(* NextBackOff when getRandomValueFromInterval yields v.  None = Stop. *)
Definition bo_next_v (p : params) (now : N) (s : bstate) (v : N) : option N * bstate :=
  match p_kind p with
  | KConst => (Some (p_cint p), s)
  | KExpo => (if stops p now s v then None else Some v,
              {| b_cur := grow (p_max p) (p_mult p) (b_cur s); b_start := b_start s |})
  end.

(* randomization factor 0: the value is the current interval *)
Definition bo_next (p : params) (now : N) (s : bstate) : option N * bstate := bo_next_v p now s (b_cur s).

(* the values getRandomValueFromInterval may yield *)
Definition bo_range (p : params) (cur : N) : N * N :=
  match p_rf p with
  | None => (cur, cur)
  | Some r => rf_range r cur
  end.

(* ---------------------------------------------------------------------------------------------- *)
(* call sequences: the clock only moves forward *)
Inductive bev :=
| BNext                 (* NextBackOff, randomization factor 0 *)
| BNextV (v : N)        (* NextBackOff, the random value being v *)
| BReset
| BAdv (d : N).         (* the clock advances by d ns *)

Record rstate := { r_b : bstate; r_now : N }.

(* Construct ends with Reset() *)
Definition rinit (p : params) (t0 : N) : rstate := {| r_b := bo_reset p t0; r_now := t0 |}.

(* one call: next state and what it returned (nothing for Reset / clock) *)
Definition rstep (p : params) (s : rstate) (e : bev) : rstate * list (option N) :=
  match e with
  | BNext => let '(r, b') := bo_next p (r_now s) (r_b s) in ({| r_b := b'; r_now := r_now s |}, [r])
  | BNextV v => let '(r, b') := bo_next_v p (r_now s) (r_b s) v in ({| r_b := b'; r_now := r_now s |}, [r])
  | BReset => ({| r_b := bo_reset p (r_now s); r_now := r_now s |}, [])
  | BAdv d => ({| r_b := r_b s; r_now := r_now s + d |}, [])
  end.

Fixpoint brun (p : params) (s : rstate) (es : list bev) : rstate * list (option N) :=
  match es with
  | [] => (s, [])
  | e :: es' => let '(s1, o1) := rstep p s e in let '(s2, o2) := brun p s1 es' in (s2, o1 ++ o2)
  end.

(* consecutive NextBackOff calls (factor 0) at the given times *)
Fixpoint next_n (p : params) (s : bstate) (nows : list N) : list (option N) :=
  match nows with
  | [] => []
  | t :: r => let '(o, s') := bo_next p t s in o :: next_n p s' r
  end.

(* ---------------------------------------------------------------------------------------------- *)
(* the first n intervals after a Reset when MaxElapsedTime = 0 and the randomization factor is 0 *)
Fixpoint iter_script (mx : N) (mult : dy) (cur : N) (n : nat) : list N :=
  match n with
  | O => []
  | S n' => cur :: iter_script mx mult (grow mx mult cur) n'
  end.

Definition bo_script_ns (p : params) (n : nat) : list N :=
  match p_kind p with
  | KConst => repeat (p_cint p) n
  | KExpo => iter_script (p_max p) (p_mult p) (p_init p) n
  end.

(* in whole milliseconds, rounded up: the number of 1 ms clock ticks after which a timer armed with the interval
   has fired (the default config gives 800, 1440, 2592, ...; the exact values are 800000000, 1439999961,
   2591999861, ... ns because float32(1.8) < 1.8) *)
Definition ceil_ms (x : N) : N := (x + ms - 1) / ms.
Definition bo_script (p : params) (n : nat) : list N := map ceil_ms (bo_script_ns p n).
