(* C14, the backoff part: "... run again ... automatically after each backoff interval when retry is configured (the
   backoff being reset by a success)".  The interval sequence is what Backoff.Construct() of /repo/backoff/backoff.go
   configures the vendor algorithm (cenkalti/backoff v4.3.0) to produce.  Statements only; proofs in Proofs.v.

   "For all call sequences" = for every list of  BNext | BNextV v | BReset | BAdv d  (NextBackOff with the
   randomization factor 0 / with an arbitrary drawn value v, Reset, the clock advancing by d ns) from the state in
   which Construct leaves the object at an arbitrary time t0; [outs] are the values returned by the NextBackOff calls
   (None = backoff.Stop), [after] the state reached.  Durations and the clock are nanoseconds. *)
From Util Require Import Common.Base Backoff.Model Backoff.Spec Backoff.Proofs.
Open Scope N_scope.

(* (a) MaxElapsedTime = 0: NextBackOff never returns Stop, for all parameters, clocks, drawn values, call sequences *)
Theorem c14_backoff_never_stop : forall p, p_maxel p = 0 -> forall t0 es, ~ In None (outs p t0 es).
Proof. exact never_stop. Qed.
Print Assumptions c14_backoff_never_stop.

(* ... in particular whenever the config leaves max_elapsed_time unset, whatever its other fields (this is the
   statement a Construct that keeps the vendor default of 15 minutes falsifies) *)
Theorem c14_backoff_unset_max_elapsed_never_stops : forall c p, Construct c = Some p -> c_maxel c = 0 ->
  forall t0 es, ~ In None (outs p t0 es).
Proof. exact unset_max_elapsed_never_stops. Qed.
Print Assumptions c14_backoff_unset_max_elapsed_never_stops.

(* (b) Reset: current interval = initial interval, origin of the elapsed time = time of the reset; hence after any
   call sequence, Reset followed d ns later by NextBackOff returns the initial interval (Stop iff d + initial exceeds
   a configured maximum: what happened before the Reset is forgotten) *)
Theorem c14_backoff_reset_state : forall p t, b_cur (bo_reset p t) = p_init p /\ b_start (bo_reset p t) = t.
Proof. exact reset_state. Qed.
Print Assumptions c14_backoff_reset_state.

Theorem c14_backoff_reset_then_next : forall p t0 es d, p_kind p = KExpo ->
  snd (brun p (after p t0 (es ++ [BReset])) [BAdv d; BNext]) =
  [if negb (p_maxel p =? 0) && (p_maxel p <? d + p_init p) then None else Some (p_init p)].
Proof. exact reset_then_next. Qed.
Print Assumptions c14_backoff_reset_then_next.

(* the origin of the elapsed time is the clock value at the latest Reset, and never in the future *)
Theorem c14_backoff_origin_is_last_reset : forall p t0 es es', ~ In BReset es' ->
  b_start (r_b (after p t0 (es ++ BReset :: es'))) = r_now (after p t0 es).
Proof. exact origin_is_last_reset. Qed.
Print Assumptions c14_backoff_origin_is_last_reset.

Theorem c14_backoff_origin_le_now : forall p t0 es, b_start (r_b (after p t0 es)) <= r_now (after p t0 es).
Proof. exact origin_le_now. Qed.
Print Assumptions c14_backoff_origin_le_now.

(* (c) [wf]: InitialInterval, MaxInterval < 2^53 ns and a non-zero multiplier mantissa (true of everything Construct
   builds from uint32 milliseconds: c14_backoff_construct_wf).  Every interval (factor 0) is <= max(initial, max) *)
Theorem c14_backoff_intervals_bounded : forall p, wf p -> p_kind p = KExpo ->
  forall t0 es, (forall v, ~ In (BNextV v) es) ->
  forall v, In (Some v) (outs p t0 es) -> v <= N.max (p_init p) (p_max p).
Proof. exact intervals_bounded. Qed.
Print Assumptions c14_backoff_intervals_bounded.

Theorem c14_backoff_current_interval_bounded : forall p, wf p ->
  forall t0 es, b_cur (r_b (after p t0 es)) <= N.max (p_init p) (p_max p).
Proof. exact cur_bounded. Qed.
Print Assumptions c14_backoff_current_interval_bounded.

(* multiplier >= 1 and initial <= max: in every reachable state the current interval is <= max and the next call
   does not shrink it (only Reset does): intervals are non-decreasing between resets.  (With initial > max the second
   interval is max < initial: the premise is needed.) *)
Theorem c14_backoff_nondecreasing : forall p, wf p -> p_init p <= p_max p -> mult_ge1 (p_mult p) -> forall t0 es,
  let s := after p t0 es in
  b_cur (r_b s) <= p_max p /\
  forall now v, b_cur (r_b s) <= b_cur (snd (bo_next_v p now (r_b s) v)).
Proof. exact nondecreasing. Qed.
Print Assumptions c14_backoff_nondecreasing.

(* (d) constant kind: always its interval, never Stop *)
Theorem c14_backoff_constant : forall p, p_kind p = KConst ->
  forall t0 es o, In o (outs p t0 es) -> o = Some (p_cint p).
Proof. exact constant_always. Qed.
Print Assumptions c14_backoff_constant.

(* (e) Construct: kind 2 is constant (default 5000 ms), everything else exponential with defaults 800 ms, float32(1.8),
   20000 ms, factor 0 and MaxElapsedTime = max_elapsed_time ms (0 = never stop); milliseconds become nanoseconds *)
Theorem c14_backoff_construct_defaults :
  Construct cfg0 =
  Some {| p_kind := KExpo; p_init := 800 * ms; p_mult := dy_18; p_max := 20000 * ms; p_rf := None; p_maxel := 0; p_cint := 0 |}.
Proof. exact construct_defaults. Qed.
Print Assumptions c14_backoff_construct_defaults.

Theorem c14_backoff_construct_spec : forall c p, Construct c = Some p ->
  (p_kind p = KConst <-> c_kind c = 2) /\
  (p_kind p = KConst -> p_cint p = (if c_const c =? 0 then 5000 else c_const c) * ms) /\
  (p_kind p = KExpo ->
     p_init p = (if c_init c =? 0 then 800 else c_init c) * ms /\
     p_max p = (if c_max c =? 0 then 20000 else c_max c) * ms /\
     p_maxel p = c_maxel c * ms /\
     (f32_decode (c_mult c) = F32Zero -> p_mult p = dy_18) /\
     (forall d, f32_decode (c_mult c) = F32Pos d -> p_mult p = d) /\
     (f32_decode (c_rf c) = F32Zero <-> p_rf p = None) /\
     0 < dy_m (p_mult p)).
Proof. exact construct_spec. Qed.
Print Assumptions c14_backoff_construct_spec.

Theorem c14_backoff_construct_wf : forall c p,
  c_init c < 4294967296 -> c_max c < 4294967296 -> Construct c = Some p -> wf p.
Proof. exact construct_wf. Qed.
Print Assumptions c14_backoff_construct_wf.

(* (f) MaxElapsedTime = M > 0: Stop is returned exactly when elapsed + next > M *)
Theorem c14_backoff_stop_iff : forall p now s v, p_kind p = KExpo -> p_maxel p <> 0 ->
  (fst (bo_next_v p now s v) = None <-> p_maxel p < (now - b_start s) + v).
Proof. exact stop_iff. Qed.
Print Assumptions c14_backoff_stop_iff.

(* (g) bo_script: n intervals; they are exactly what n consecutive NextBackOff calls after a Reset return, at
   whatever times, when MaxElapsedTime = 0 (factor 0): no Stop; bounded; sorted when the multiplier is >= 1 *)
Theorem c14_backoff_script_length : forall p n, length (bo_script p n) = n /\ length (bo_script_ns p n) = n.
Proof. intros p n. split; [exact (bo_script_length p n)|exact (bo_script_ns_length p n)]. Qed.
Print Assumptions c14_backoff_script_length.

Theorem c14_backoff_script_is_next_n : forall p t nows, p_maxel p = 0 ->
  next_n p (bo_reset p t) nows = map Some (bo_script_ns p (length nows)).
Proof. exact script_is_next_n. Qed.
Print Assumptions c14_backoff_script_is_next_n.

Theorem c14_backoff_script_no_stop : forall p t nows, p_maxel p = 0 -> ~ In None (next_n p (bo_reset p t) nows).
Proof. exact script_no_stop. Qed.
Print Assumptions c14_backoff_script_no_stop.

Theorem c14_backoff_script_sorted : forall p n, wf p -> p_init p <= p_max p -> mult_ge1 (p_mult p) ->
  forall i, (S i < n)%nat -> nth i (bo_script_ns p n) 0 <= nth (S i) (bo_script_ns p n) 0.
Proof. exact script_sorted. Qed.
Print Assumptions c14_backoff_script_sorted.

Theorem c14_backoff_script_bounded : forall p n, wf p -> p_kind p = KExpo ->
  forall v, In v (bo_script_ns p n) -> v <= N.max (p_init p) (p_max p).
Proof. exact script_bounded. Qed.
Print Assumptions c14_backoff_script_bounded.

(* the rounding model: the mantissa scale puts p/q into [2^52, 2^53) ... *)
Theorem c14_backoff_rounding_normalised : forall p q, 0 < p -> 0 < q ->
  let '(up, k) := norm p q in
  let '(n, d) := scaled p q up k in
  d * two52 <= n /\ n < d * two53.
Proof. exact norm_spec. Qed.
Print Assumptions c14_backoff_rounding_normalised.

(* ... and incrementCurrentInterval never exceeds MaxInterval, never shrinks with a multiplier >= 1 *)
Theorem c14_backoff_grow_le_max : forall mx mult c, 0 < dy_m mult -> mx < two53 -> c < two53 -> grow mx mult c <= mx.
Proof. exact grow_le_max. Qed.
Print Assumptions c14_backoff_grow_le_max.

Theorem c14_backoff_grow_ge : forall mx mult c,
  0 < dy_m mult -> mult_ge1 mult -> c <= mx -> mx < two53 -> c <= grow mx mult c.
Proof. exact grow_ge. Qed.
Print Assumptions c14_backoff_grow_ge.

(* (h) the monitors (clauses 21..26) accept every history of the model, for every config line and event list *)
Theorem c14_backoff_model_satisfies_monitors : forall cfg evs,
  monitor mon 0 (minit cfg) [] evs (run_obs step (init cfg) evs) = [].
Proof. exact model_satisfies_monitors. Qed.
Print Assumptions c14_backoff_model_satisfies_monitors.

(* ------------------------------------------------------------------ *)
(* non-vacuity *)
Definition pdef : params :=
  {| p_kind := KExpo; p_init := 800 * ms; p_mult := dy_18; p_max := 20000 * ms; p_rf := None; p_maxel := 0; p_cint := 0 |}.

(* float32(1.8) = 1.7999999523162842: these are the values go1.26.8 returns for the default config *)
Example c14_backoff_example_default_script :
  Construct cfg0 = Some pdef /\
  bo_script_ns pdef 8 = [800000000; 1439999961; 2591999861; 4665599626; 8398079104; 15116541986; 20000000000; 20000000000] /\
  bo_script pdef 8 = [800; 1440; 2592; 4666; 8399; 15117; 20000; 20000].
Proof. vm_compute. repeat split; reflexivity. Qed.

Example c14_backoff_example_default_wf : wf pdef /\ p_init pdef <= p_max pdef /\ mult_ge1 (p_mult pdef).
Proof. unfold wf, mult_ge1. vm_compute. repeat split; try reflexivity; discriminate. Qed.

(* the default config never stops: 16 minutes, then two more calls *)
Example c14_backoff_example_default_run :
  outs pdef 0 [BNext; BNext; BAdv (960000 * ms); BNext; BReset; BNext] =
  [Some 800000000; Some 1439999961; Some 2591999861; Some 800000000].
Proof. vm_compute. reflexivity. Qed.

(* max_elapsed_time = 10 s, initial 1 s, multiplier 2: elapsed + next = M is not a Stop, M + 1 ms is *)
Example c14_backoff_example_stop_boundary :
  match Construct {| c_kind := 1; c_init := 1000; c_mult := 1073741824; c_max := 0; c_rf := 0; c_maxel := 10000; c_const := 0 |} with
  | Some p => outs p 0 [BNext; BAdv (8000 * ms); BNext; BAdv (1 * ms); BNext; BReset; BNext] =
              [Some 1000000000; Some 2000000000; None; Some 1000000000]
  | None => False
  end.
Proof. vm_compute. reflexivity. Qed.

(* through the codec: the checker accepts the trace of the default config ... *)
Example c14_backoff_example_check_accepts :
  run_check_backoff [0; 0; 0; 0; 0; 0; 0; 1] [[1]; [3; 960000]; [1]; [2]; [1]]
                    [[1; 800000000]; [960000]; [1; 1439999961]; []; [1; 800000000]] = [].
Proof. vm_compute. reflexivity. Qed.

(* ... and rejects, with clause 21, a Stop after 16 minutes although max_elapsed_time is unset (what a Construct that
   keeps the vendor's default MaxElapsedTime of 15 minutes produces), with clause 23 a wrong first interval (default
   500 ms instead of 800 ms), with clause 22 a wrong growth, with clause 24 an early Stop, with clause 26 a constant
   backoff that returns something else *)
Example c14_backoff_example_check_rejects :
  run_check_backoff [0; 0; 0; 0; 0; 0; 0; 1] [[1]; [3; 960000]; [1]] [[1; 800000000]; [960000]; [0]]
    = [Mismatch 2 [1; 1439999961] [0]; PropFalse 14 21 2] /\
  run_check_backoff [0; 0; 0; 0; 0; 0; 0; 1] [[1]] [[1; 500000000]]
    = [Mismatch 0 [1; 800000000] [1; 500000000]; PropFalse 14 23 0] /\
  run_check_backoff [0; 0; 0; 0; 0; 0; 0; 1] [[1]; [1]] [[1; 800000000]; [1; 1440000000]]
    = [Mismatch 1 [1; 1439999961] [1; 1440000000]; PropFalse 14 22 1] /\
  run_check_backoff [1; 1000; 1073741824; 0; 0; 10000; 0; 1] [[1]; [3; 7000]; [1]] [[1; 1000000000]; [7000]; [0]]
    = [Mismatch 2 [1; 2000000000] [0]; PropFalse 14 24 2] /\
  run_check_backoff [2; 0; 0; 0; 0; 0; 0; 1] [[1]] [[1; 0]]
    = [Mismatch 0 [1; 5000000000] [1; 0]; PropFalse 14 26 0].
Proof. vm_compute. repeat split; reflexivity. Qed.

(* randomization factor 0.5 on the default intervals: the admitted range of the first draw *)
Example c14_backoff_example_range :
  match Construct {| c_kind := 1; c_init := 0; c_mult := 0; c_max := 0; c_rf := 1056964608; c_maxel := 0; c_const := 0 |} with
  | Some p => bo_range p (p_init p) = (399999999, 1200000002)
  | None => False
  end.
Proof. vm_compute. reflexivity. Qed.
