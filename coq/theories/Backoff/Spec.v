(* backoff (C14): codec (integer traces <-> model calls), the model-side step, the monitors.

   One object per history, built by Backoff.Construct() from the config line
     C kind initial_ms mult_bits max_ms rf_bits max_elapsed_ms const_ms rseed
   (the protobuf fields: uint32 milliseconds, math.Float32bits of the two float32 fields; rseed seeds math/rand in
   the harness and is ignored here).  The clock is the fake clock of the synctest bubble; it starts at 0 when the
   object is constructed.  All observed durations are nanoseconds.

   Events and observations:
     E 1              NextBackOff, randomization factor 0 or constant kind      O 0 (Stop)  |  O 1 v  (v ns)
     E 1 k v          NextBackOff, randomization factor != 0: the event carries what the call returned (k = 0 Stop,
                      k = 1 the value v; the random draw is an oracle seen only through the result); the model
                      accepts it iff v lies in the interval [lo, hi] of Model.rf_range and the Stop rule agrees
                                                                                 O 0  |  O 1 v
                      (O 2 v: a negative duration other than Stop, -v ns; never accepted)
     E 2              Reset                                                      O (empty)
     E 3 d            the clock advances by d ms (time.Sleep in the bubble)      O now   (ms since construction)
     E 4 c mx         arithmetic probe with the history's multiplier mult (c, mx < 2^53):
                                                                                 O ge qbits prod pbits
                      ge = 1 iff float64(c) >= float64(mx)/mult, qbits = math.Float64bits of that quotient,
                      prod = Duration(float64(c)*mult), pbits = math.Float64bits of that product
   Monitors (property 14, clauses >= 20; the routine monitors use 1..5).  They judge the observed trace against a
   reference machine held in the monitor state (current interval, origin of the elapsed time, clock, "no call since
   Reset"):
     21  Stop returned although max_elapsed_time is not set (0)
     22  the interval returned differs from the reference machine's (factor 0) / lies outside [lo, hi]
     23  the same for the first call after Construct/Reset: the interval is not the (randomized) initial interval
     24  Stop returned although elapsed + interval <= max_elapsed_time (with a factor: elapsed + hi)
     26  a constant backoff returned anything but its interval
   Not a clause: a value returned where Stop was due (the config documents max_elapsed_time as "may be ignored");
   the model-side step still disagrees (MISMATCH) in that case. *)
From Util Require Import Common.Base Backoff.Model.
Open Scope N_scope.

Definition u32 (x : N) : bool := x <? 4294967296.

Definition dec_cfg (cfg : list N) : option params :=
  match cfg with
  | [k; i; m; mx; rf; me; c; _] =>
    if u32 i && u32 m && u32 mx && u32 rf && u32 me && u32 c
    then Construct {| c_kind := k; c_init := i; c_mult := m; c_max := mx; c_rf := rf; c_maxel := me; c_const := c |}
    else None
  | _ => None
  end.

Definition enc_res (r : option N) : list N := match r with None => [0] | Some v => [1; v] end.
Definition b2N (b : bool) : N := if b then 1 else 0.
Definition two63 : N := 9223372036854775808.

(* ---------- model side ---------- *)
Inductive state := StOk (p : params) (b : bstate) (now : N) | StBad.

Definition init (cfg : list N) : state :=
  match dec_cfg cfg with
  | Some p => StOk p (bo_reset p 0) 0
  | None => StBad
  end.

Definition randomized (p : params) : bool :=
  match p_kind p, p_rf p with KExpo, Some _ => true | _, _ => false end.

(* events *)
Inductive ev := ENext | ENextV (k v : N) | EReset | EAdv (d : N) | EProbe (c mx : N).

Definition decode (e : list N) : option ev :=
  match e with
  | [1] => Some ENext
  | [1; k; v] => Some (ENextV k v)
  | [2] => Some EReset
  | [3; d] => Some (EAdv d)
  | [4; c; mx] => Some (EProbe c mx)
  | _ => None
  end.

Definition step (st : state) (e : list N) : option (state * list N) :=
  match st with
  | StBad => None
  | StOk p b now =>
    match decode e with
    | Some ENext =>
      if randomized p then None
      else Some (StOk p (snd (bo_next p now b)) now, enc_res (fst (bo_next p now b)))
    | Some (ENextV k v) =>
      if randomized p then
        let hi := snd (bo_range p (b_cur b)) in
        let lo := fst (bo_range p (b_cur b)) in
        if k =? 1 then
          if (lo <=? v) && (v <=? hi) && negb (stops p now b v)
          then Some (StOk p (snd (bo_next_v p now b v)) now, enc_res (fst (bo_next_v p now b v)))
          else None
        else if k =? 0 then
          if (v =? 0) && stops p now b hi
          then Some (StOk p (snd (bo_next_v p now b hi)) now, enc_res (fst (bo_next_v p now b hi)))
          else None
        else None
      else None
    | Some EReset => Some (StOk p (bo_reset p now) now, [])
    | Some (EAdv d) => Some (StOk p b (now + d * ms), [(now + d * ms) / ms])
    | Some (EProbe c mx) =>
      match p_kind p with
      | KExpo =>
        let q := fdiv mx (p_mult p) in
        let pr := fmul c (p_mult p) in
        if (c <? two53) && (mx <? two53) && (trunc pr <? two63)
        then Some (st, [b2N (ge_dy c q); dy_bits q; trunc pr; dy_bits pr])
        else None
      | KConst => None
      end
    | None => None
    end
  end.

(* ---------- specification side: the reference machine and the monitor ---------- *)
Inductive mstate :=
| MExpo (p : params) (cur start now : N) (fresh : bool)
| MConst (c : N)
| MBad.

Definition minit (cfg : list N) : mstate :=
  match dec_cfg cfg with
  | Some p => match p_kind p with
              | KExpo => MExpo p (p_init p) 0 0 true
              | KConst => MConst (p_cint p)
              end
  | None => MBad
  end.

(* the clauses whose boolean is false *)
Definition fails (l : list (nat * bool)) : list (nat * nat) :=
  map (fun c => (14%nat, fst c)) (filter (fun c => negb (snd c)) l).

Definition is_next (e : list N) : bool :=
  match decode e with Some ENext | Some (ENextV _ _) => true | _ => false end.

Definition mon (m : mstate) (e o : list N) : mstate * list (nat * nat) :=
  match m with
  | MBad => (m, [])
  | MConst c => if is_next e then (m, fails [(26%nat, list_eqb o [1; c])]) else (m, [])
  | MExpo p cur start now fresh =>
    match decode e with
    | Some ENext | Some (ENextV _ _) =>
      let lo := fst (bo_range p cur) in
      let hi := snd (bo_range p cur) in
      let m' := MExpo p (grow (p_max p) (p_mult p) cur) start now false in
      match o with
      | [0] => (m', fails [(21%nat, negb (p_maxel p =? 0));
                           (24%nat, (p_maxel p =? 0) || (p_maxel p <? (now - start) + hi))])
      | [1; v] => (m', fails [((if fresh then 23 else 22)%nat, (lo <=? v) && (v <=? hi))])
      | _ => (m', [(14, if fresh then 23 else 22)%nat])
      end
    | Some EReset => (MExpo p (p_init p) now now true, [])
    | Some (EAdv d) => (MExpo p cur start (now + d * ms) fresh, [])
    | _ => (m, [])
    end
  end.

Definition run_check_backoff (cfg : list N) (evs obss : list (list N)) : list issue :=
  run_check step mon (init cfg) (minit cfg) evs obss.
