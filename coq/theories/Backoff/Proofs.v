(* backoff (C14): proofs about the model of Backoff.Construct and the vendor state machine (Model.v) and the tie between
   the monitors of Spec.v and the model.  Contents:
     rne_div / norm / rne53   the rounding model: the scaled quotient lies in [2^52, 2^53); the rounded value never
                              crosses an integer bound (ge_false_below, trunc_le, trunc_ge)
     grow                     incrementCurrentInterval stays <= MaxInterval and (multiplier >= 1) never shrinks
     never_stop ... stop_iff  theorems over ALL call sequences (lists of bev) from the constructed state
     construct_*              what Construct makes of the config message (defaults, units, domain)
     script_*                 bo_script
     model_satisfies_monitors *)
From Util Require Import Common.Base Backoff.Model Backoff.Spec.
Open Scope N_scope.

Lemma two52_pow : two52 = 2 ^ 52. Proof. reflexivity. Qed.
Lemma two53_pow : two53 = 2 ^ 53. Proof. reflexivity. Qed.
Lemma two53_two52 : two53 = 2 * two52. Proof. reflexivity. Qed.

Lemma pow2_pos k : 0 < 2 ^ k.
Proof. apply N.neq_0_lt_0, N.pow_nonzero. discriminate. Qed.

Lemma pow2_ge2 k : k <> 0 -> 2 <= 2 ^ k.
Proof.
  intros Hk. replace k with (N.succ (N.pred k)) by (apply N.succ_pred; exact Hk).
  rewrite N.pow_succ_r'. pose proof (pow2_pos (N.pred k)). lia.
Qed.

(* ---------------- rne_div ---------------- *)
Lemma rne_div_cases n d : d <> 0 ->
  let q := n / d in let r := n mod d in
  n = d * q + r /\ r < d /\ (rne_div n d = q \/ (rne_div n d = q + 1 /\ 0 < r)).
Proof.
  intros Hd q r. pose proof (N.div_mod n d Hd) as Hdm. pose proof (N.mod_lt n d Hd) as Hlt.
  fold q r in Hdm, Hlt. split; [exact Hdm|]. split; [exact Hlt|].
  unfold rne_div. fold q r.
  destruct (N.ltb_spec (2 * r) d) as [H1|H1]; [left; reflexivity|].
  destruct (N.ltb_spec d (2 * r)) as [H2|H2]; [right; split; [reflexivity|lia]|].
  destruct (N.even q); [left; reflexivity|right; split; [reflexivity|lia]].
Qed.

Lemma rne_div_lo n d i : d <> 0 -> i * d <= n -> i <= rne_div n d.
Proof.
  intros Hd Hi. destruct (rne_div_cases n d Hd) as (Hdm & Hlt & Hc).
  assert (Hq : i <= n / d) by nia.
  destruct Hc as [Hc|[Hc _]]; rewrite Hc; lia.
Qed.

Lemma rne_div_hi n d i : d <> 0 -> n <= i * d -> rne_div n d <= i.
Proof.
  intros Hd Hi. destruct (rne_div_cases n d Hd) as (Hdm & Hlt & Hc).
  set (q := n / d) in *. set (r := n mod d) in *.
  assert (Hmul : forall a b, a < b -> d * a + d <= d * b).
  { intros a b Hab. replace (d * a + d) with (d * (a + 1)) by lia. apply N.mul_le_mono_l. lia. }
  destruct Hc as [Hc|[Hc Hr]]; rewrite Hc.
  - destruct (N.le_gt_cases q i) as [Hle|Hgt]; [exact Hle|]. specialize (Hmul i q Hgt). lia.
  - destruct (N.le_gt_cases (q + 1) i) as [Hle|Hgt]; [exact Hle|].
    assert (Hqi : i <= q) by lia. assert (d * i <= d * q) by (apply N.mul_le_mono_l; exact Hqi). lia.
Qed.

(* ---------------- norm: p/q is scaled into [2^52, 2^53) ---------------- *)
Lemma log2_bounds a : 0 < a -> 2 ^ N.log2 a <= a /\ a < 2 * 2 ^ N.log2 a.
Proof.
  intros Ha. destruct (N.log2_spec a Ha) as [H1 H2]. rewrite N.pow_succ_r' in H2. split; assumption.
Qed.

Lemma norm_spec p q : 0 < p -> 0 < q ->
  let '(up, k) := norm p q in
  let '(n, d) := scaled p q up k in
  d * two52 <= n /\ n < d * two53.
Proof.
  intros Hp Hq. unfold norm.
  destruct (log2_bounds p Hp) as [Hpa Hpb]. destruct (log2_bounds q Hq) as [Hqa Hqb].
  set (a := N.log2 p) in *. set (b := N.log2 q) in *.
  rewrite two53_two52.
  destruct (N.leb_spec a (52 + b)) as [Hab|Hab].
  - set (k := 52 + b - a).
    assert (Hk : 2 ^ a * 2 ^ k = two52 * 2 ^ b).
    { rewrite <- N.pow_add_r, two52_pow, <- N.pow_add_r. f_equal. unfold k. lia. }
    set (A := 2 ^ a) in *. set (B := 2 ^ b) in *. set (K := 2 ^ k) in *.
    assert (HK : 0 < K) by apply pow2_pos.
    assert (Hlo : A * K <= p * K) by (apply N.mul_le_mono_r; exact Hpa).
    assert (Hhi : p * K < 2 * A * K) by (apply N.mul_lt_mono_pos_r; [exact HK|lia]).
    assert (Hq1 : two52 * B <= two52 * q) by (apply N.mul_le_mono_l; exact Hqa).
    assert (Hq2 : q * two52 < 2 * B * two52) by (apply N.mul_lt_mono_pos_r; [reflexivity|lia]).
    destruct (N.leb_spec (q * two52) (p * K)) as [Ht|Ht]; cbn [scaled].
    + fold K. split; [exact Ht|]. lia.
    + rewrite N.pow_add_r. fold K. change (2 ^ 1) with 2. split; lia.
  - set (j := a - b - 52).
    assert (Hj : 2 ^ a = 2 ^ b * 2 ^ j * two52).
    { rewrite two52_pow, <- !N.pow_add_r. f_equal. unfold j. lia. }
    assert (Hj1 : 2 ^ j = 2 * 2 ^ (j - 1)).
    { rewrite <- N.pow_succ_r'. f_equal. unfold j. lia. }
    set (A := 2 ^ a) in *. set (B := 2 ^ b) in *. set (J := 2 ^ j) in *. set (J1 := 2 ^ (j - 1)) in *.
    assert (HJ : 0 < J * two52) by (apply N.mul_pos_pos; [apply pow2_pos|reflexivity]).
    assert (Hq1 : B * (J * two52) <= q * (J * two52)) by (apply N.mul_le_mono_r; exact Hqa).
    assert (Hq2 : q * (J * two52) < 2 * B * (J * two52)) by (apply N.mul_lt_mono_pos_r; [exact HJ|lia]).
    destruct (N.leb_spec (q * J * two52) p) as [Ht|Ht]; cbn [scaled].
    + fold J. split; [exact Ht|]. lia.
    + fold J1. rewrite Hj1 in *. split; lia.
Qed.

(* ---------------- rne53: three facts about the rounded value ---------------- *)
Definition dzero : dy := {| dy_m := 0; dy_neg := false; dy_k := 0 |}.

Lemma rne53_unfold p q : 0 < p -> 0 < q ->
  exists up k n d, rne53 p q = {| dy_m := rne_div n d; dy_neg := up; dy_k := k |} /\
    scaled p q up k = (n, d) /\ d <> 0 /\ d * two52 <= n /\ n < d * two53.
Proof.
  intros Hp Hq. pose proof (norm_spec p q Hp Hq) as Hn. unfold rne53.
  destruct (N.eqb_spec p 0) as [H0|_]; [lia|].
  destruct (norm p q) as [up k]. destruct (scaled p q up k) as [n d] eqn:Hs.
  exists up, k, n, d. split; [reflexivity|]. split; [exact Hs|].
  split; [|exact Hn].
  unfold scaled in Hs. pose proof (pow2_pos k). destruct up; inversion Hs; subst; nia.
Qed.

(* the capping test fails only if c is really below p/q *)
Lemma ge_false_below p q c : 0 < q -> c < two53 -> ge_dy c (rne53 p q) = false -> c * q <= p.
Proof.
  intros Hq Hc Hge.
  destruct (N.eq_0_gt_0_cases p) as [Hp|Hp].
  { subst p. unfold rne53 in Hge. cbn in Hge. destruct c; discriminate. }
  destruct (rne53_unfold p q Hp Hq) as (up & k & n & d & Hr & Hs & Hd & Hlo & Hhi).
  rewrite Hr in Hge. unfold ge_dy in Hge. cbn [dy_m dy_neg dy_k] in Hge.
  pose proof (pow2_pos k) as HK. unfold scaled in Hs.
  destruct (N.le_gt_cases (c * q) p) as [Hle|Hgt]; [exact Hle|exfalso].
  destruct up; inversion Hs; subst n d; clear Hs.
  - apply N.leb_gt in Hge.
    assert (H : rne_div (p * 2 ^ k) q <= c * 2 ^ k).
    { apply rne_div_hi; [exact Hd|]. rewrite (N.mul_shuffle0 c (2 ^ k) q).
      apply N.mul_le_mono_r. lia. }
    lia.
  - apply N.leb_gt in Hge.
    destruct (N.eqb_spec k 0) as [Hk|Hk].
    + subst k. change (2 ^ 0) with 1 in *. rewrite ?N.mul_1_r in *.
      assert (H : rne_div p q <= c) by (apply rne_div_hi; [exact Hd|lia]). lia.
    + pose proof (pow2_ge2 k Hk) as H2. rewrite two53_two52 in Hc.
      assert (H3 : q * 2 * two52 <= q * 2 ^ k * two52).
      { apply N.mul_le_mono_r. apply N.mul_le_mono_l. exact H2. }
      assert (H4 : c * q < 2 * two52 * q) by (apply N.mul_lt_mono_pos_r; [exact Hq|exact Hc]).
      lia.
Qed.

(* p/q <= x (an integer below 2^53) => Duration(RN(p/q)) <= x *)
Lemma trunc_le p q x : 0 < q -> x < two53 -> p <= x * q -> trunc (rne53 p q) <= x.
Proof.
  intros Hq Hx Hle.
  destruct (N.eq_0_gt_0_cases p) as [Hp|Hp].
  { subst p. unfold rne53. cbn. lia. }
  destruct (rne53_unfold p q Hp Hq) as (up & k & n & d & Hr & Hs & Hd & Hlo & Hhi).
  rewrite Hr. unfold trunc. cbn [dy_m dy_neg dy_k].
  pose proof (pow2_pos k) as HK. unfold scaled in Hs.
  destruct up; inversion Hs; subst n d; clear Hs.
  - assert (H : rne_div (p * 2 ^ k) q <= x * 2 ^ k).
    { apply rne_div_hi; [exact Hd|]. rewrite (N.mul_shuffle0 x (2 ^ k) q).
      apply N.mul_le_mono_r. exact Hle. }
    apply N.div_le_upper_bound; [lia|]. lia.
  - destruct (N.eqb_spec k 0) as [Hk|Hk].
    + subst k. change (2 ^ 0) with 1 in *. rewrite ?N.mul_1_r in *.
      apply rne_div_hi; [exact Hd|exact Hle].
    + exfalso. pose proof (pow2_ge2 k Hk) as H2. rewrite two53_two52 in Hx.
      assert (H3 : q * 2 * two52 <= q * 2 ^ k * two52).
      { apply N.mul_le_mono_r. apply N.mul_le_mono_l. exact H2. }
      assert (H4 : x * q < 2 * two52 * q) by (apply N.mul_lt_mono_pos_r; [exact Hq|exact Hx]).
      lia.
Qed.

(* c <= p/q for an integer c below 2^53 => c <= Duration(RN(p/q)) *)
Lemma trunc_ge p q c : 0 < q -> c < two53 -> c * q <= p -> c <= trunc (rne53 p q).
Proof.
  intros Hq Hc Hle.
  destruct (N.eq_0_gt_0_cases p) as [Hp|Hp].
  { subst p. assert (c = 0) by nia. subst c. apply N.le_0_l. }
  destruct (rne53_unfold p q Hp Hq) as (up & k & n & d & Hr & Hs & Hd & Hlo & Hhi).
  rewrite Hr. unfold trunc. cbn [dy_m dy_neg dy_k].
  pose proof (pow2_pos k) as HK. unfold scaled in Hs.
  destruct up; inversion Hs; subst n d; clear Hs.
  - assert (H : c * 2 ^ k <= rne_div (p * 2 ^ k) q).
    { apply rne_div_lo; [exact Hd|]. rewrite (N.mul_shuffle0 c (2 ^ k) q).
      apply N.mul_le_mono_r. exact Hle. }
    apply N.div_le_lower_bound; [lia|]. lia.
  - assert (HM : two52 <= rne_div p (q * 2 ^ k)).
    { apply rne_div_lo; [exact Hd|]. lia. }
    destruct (N.eqb_spec k 0) as [Hk|Hk].
    + subst k. change (2 ^ 0) with 1 in *. rewrite ?N.mul_1_r in *.
      apply rne_div_lo; [exact Hd|exact Hle].
    + pose proof (pow2_ge2 k Hk) as H2. rewrite two53_two52 in Hc.
      assert (two52 * 2 <= rne_div p (q * 2 ^ k) * 2 ^ k).
      { apply N.mul_le_mono; assumption. }
      lia.
Qed.

(* ---------------- grow (incrementCurrentInterval) ---------------- *)
(* the multiplier is at least 1 *)
Definition mult_ge1 (m : dy) : Prop :=
  if dy_neg m then 2 ^ dy_k m <= dy_m m else 1 <= dy_m m.

Lemma grow_le_max mx mult c : 0 < dy_m mult -> mx < two53 -> c < two53 -> grow mx mult c <= mx.
Proof.
  intros Hm Hmx Hc. unfold grow.
  destruct (ge_dy c (fdiv mx mult)) eqn:Hge; [apply N.le_refl|].
  unfold fdiv in Hge. unfold fmul. pose proof (pow2_pos (dy_k mult)) as HK.
  destruct (dy_neg mult).
  - apply ge_false_below in Hge; [|exact Hm|exact Hc].
    apply trunc_le; [exact HK|exact Hmx|]. lia.
  - assert (Hq : 0 < dy_m mult * 2 ^ dy_k mult) by (apply N.mul_pos_pos; assumption).
    apply ge_false_below in Hge; [|exact Hq|exact Hc].
    apply trunc_le; [reflexivity|exact Hmx|]. lia.
Qed.

Lemma grow_ge mx mult c : 0 < dy_m mult -> mult_ge1 mult -> c <= mx -> mx < two53 -> c <= grow mx mult c.
Proof.
  intros Hm H1 Hc Hmx. unfold grow.
  destruct (ge_dy c (fdiv mx mult)); [exact Hc|].
  unfold fmul, mult_ge1 in *. pose proof (pow2_pos (dy_k mult)) as HK.
  destruct (dy_neg mult).
  - apply trunc_ge; [exact HK|lia|]. apply N.mul_le_mono_l. exact H1.
  - apply trunc_ge; [reflexivity|lia|]. rewrite N.mul_1_r, <- N.mul_assoc.
    rewrite <- (N.mul_1_r c) at 1. apply N.mul_le_mono_l. nia.
Qed.

(* ---------------- the state machine: all call sequences ---------------- *)
Definition wf (p : params) : Prop := p_init p < two53 /\ p_max p < two53 /\ 0 < dy_m (p_mult p).

Definition after (p : params) (t0 : N) (es : list bev) : rstate := fst (brun p (rinit p t0) es).
Definition outs (p : params) (t0 : N) (es : list bev) : list (option N) := snd (brun p (rinit p t0) es).

Lemma brun_cons p s e es :
  brun p s (e :: es) = (fst (brun p (fst (rstep p s e)) es), snd (rstep p s e) ++ snd (brun p (fst (rstep p s e)) es)).
Proof.
  cbn [brun]. destruct (rstep p s e) as [s1 o1]. cbn [fst snd]. destruct (brun p s1 es) as [s2 o2]. reflexivity.
Qed.

Lemma brun_app p es1 : forall s es2,
  brun p s (es1 ++ es2) =
  (fst (brun p (fst (brun p s es1)) es2), snd (brun p s es1) ++ snd (brun p (fst (brun p s es1)) es2)).
Proof.
  induction es1 as [|e es1 IH]; intros s es2.
  - cbn [app brun fst snd]. destruct (brun p s es2); reflexivity.
  - rewrite <- app_comm_cons, !brun_cons, IH. cbn [fst snd]. rewrite app_assoc. reflexivity.
Qed.

(* an invariant of single steps holds after every call sequence *)
Lemma brun_inv p (I : rstate -> Prop) :
  (forall s e, I s -> I (fst (rstep p s e))) -> forall es s, I s -> I (fst (brun p s es)).
Proof.
  intros Hstep es. induction es as [|e es IH]; intros s Hs; [exact Hs|].
  rewrite brun_cons. cbn [fst]. apply IH, Hstep, Hs.
Qed.

(* a property of the results of single steps holds for every result of every call sequence *)
Lemma brun_outs p (I : rstate -> Prop) (Q : option N -> Prop) :
  (forall s e, I s -> I (fst (rstep p s e))) ->
  (forall s e o, I s -> In o (snd (rstep p s e)) -> Q o) ->
  forall es s o, I s -> In o (snd (brun p s es)) -> Q o.
Proof.
  intros Hstep Hout es. induction es as [|e es IH]; intros s o Hs Hin; [destruct Hin|].
  rewrite brun_cons in Hin. cbn [snd] in Hin. apply in_app_or in Hin. destruct Hin as [Hin|Hin].
  - exact (Hout s e o Hs Hin).
  - exact (IH _ o (Hstep s e Hs) Hin).
Qed.

Lemma rstep_fst p s e :
  fst (rstep p s e) =
  match e with
  | BNext => {| r_b := snd (bo_next p (r_now s) (r_b s)); r_now := r_now s |}
  | BNextV v => {| r_b := snd (bo_next_v p (r_now s) (r_b s) v); r_now := r_now s |}
  | BReset => {| r_b := bo_reset p (r_now s); r_now := r_now s |}
  | BAdv d => {| r_b := r_b s; r_now := r_now s + d |}
  end.
Proof.
  destruct e; cbn [rstep]; try reflexivity.
  - destruct (bo_next p (r_now s) (r_b s)); reflexivity.
  - destruct (bo_next_v p (r_now s) (r_b s) v); reflexivity.
Qed.

Lemma rstep_snd p s e :
  snd (rstep p s e) =
  match e with
  | BNext => [fst (bo_next p (r_now s) (r_b s))]
  | BNextV v => [fst (bo_next_v p (r_now s) (r_b s) v)]
  | BReset | BAdv _ => []
  end.
Proof.
  destruct e; cbn [rstep]; try reflexivity.
  - destruct (bo_next p (r_now s) (r_b s)); reflexivity.
  - destruct (bo_next_v p (r_now s) (r_b s) v); reflexivity.
Qed.

Lemma next_v_start p now s v : b_start (snd (bo_next_v p now s v)) = b_start s.
Proof. unfold bo_next_v. destruct (p_kind p); reflexivity. Qed.

(* ---- (a) MaxElapsedTime = 0: never Stop ---- *)
Lemma next_v_never_stop p now s v : p_maxel p = 0 -> fst (bo_next_v p now s v) <> None.
Proof.
  intros HM. unfold bo_next_v, stops. rewrite HM. destruct (p_kind p); cbn; discriminate.
Qed.

Theorem never_stop p : p_maxel p = 0 -> forall t0 es, ~ In None (outs p t0 es).
Proof.
  intros HM t0 es Hin. unfold outs in Hin.
  apply (brun_outs p (fun _ => True) (fun o => o <> None)) with (es := es) (s := rinit p t0) (o := None);
    [tauto| |exact I|exact Hin|reflexivity].
  intros s e o _ Ho. rewrite rstep_snd in Ho.
  destruct e; cbn [In] in Ho; try tauto; destruct Ho as [Ho|[]]; subst o; apply next_v_never_stop; exact HM.
Qed.

(* ---- (b) Reset: the next interval is the initial one, the elapsed time counts from the reset ---- *)
Lemma reset_state p t : b_cur (bo_reset p t) = p_init p /\ b_start (bo_reset p t) = t.
Proof. split; reflexivity. Qed.

Lemma next_after_reset p t t' : p_kind p = KExpo ->
  fst (bo_next p t' (bo_reset p t)) =
  if negb (p_maxel p =? 0) && (p_maxel p <? (t' - t) + p_init p) then None else Some (p_init p).
Proof. intros Hk. unfold bo_next, bo_next_v, stops. rewrite Hk. reflexivity. Qed.

Theorem reset_then_next p t0 es d : p_kind p = KExpo ->
  snd (brun p (after p t0 (es ++ [BReset])) [BAdv d; BNext]) =
  [if negb (p_maxel p =? 0) && (p_maxel p <? d + p_init p) then None else Some (p_init p)].
Proof.
  intros Hk. unfold after. rewrite brun_app. cbn [fst].
  set (s := fst (brun p (rinit p t0) es)).
  rewrite !brun_cons. cbn [brun fst snd]. rewrite !rstep_fst, !rstep_snd. cbn [r_b r_now app].
  rewrite next_after_reset by exact Hk.
  replace (r_now s + d - r_now s) with d by lia. reflexivity.
Qed.

(* the origin of the elapsed time never lies in the future (so [now - start] is the true elapsed time) ... *)
Theorem origin_le_now p t0 es : b_start (r_b (after p t0 es)) <= r_now (after p t0 es).
Proof.
  unfold after. apply (brun_inv p (fun s => b_start (r_b s) <= r_now s)); [|cbn; lia].
  intros s e Hs. rewrite rstep_fst. destruct e; cbn [r_b r_now]; rewrite ?next_v_start; cbn [bo_reset b_start]; try lia.
  unfold bo_next. rewrite next_v_start. exact Hs.
Qed.

(* ... and is the time of the latest Reset *)
Theorem origin_is_last_reset p t0 es es' : ~ In BReset es' ->
  b_start (r_b (after p t0 (es ++ BReset :: es'))) = r_now (after p t0 es).
Proof.
  intros Hno. unfold after. rewrite brun_app. cbn [fst]. set (s := fst (brun p (rinit p t0) es)).
  rewrite brun_cons. cbn [fst]. rewrite rstep_fst.
  set (s1 := {| r_b := bo_reset p (r_now s); r_now := r_now s |}).
  change (r_now s) with (b_start (r_b s1)). generalize s1. clear s1 s.
  induction es' as [|e es' IH]; intros s1; [reflexivity|].
  rewrite brun_cons. cbn [fst]. rewrite IH by (intros H; apply Hno; right; exact H).
  rewrite rstep_fst. destruct e; cbn [r_b]; rewrite ?next_v_start; try reflexivity.
  - unfold bo_next. apply next_v_start.
  - exfalso. apply Hno. left. reflexivity.
Qed.

(* ---- (c) bounds and monotonicity (randomization factor 0: BNext only) ---- *)
Lemma next_v_cur p now s v :
  b_cur (snd (bo_next_v p now s v)) =
  match p_kind p with KExpo => grow (p_max p) (p_mult p) (b_cur s) | KConst => b_cur s end.
Proof. unfold bo_next_v. destruct (p_kind p); reflexivity. Qed.

Theorem cur_bounded p : wf p -> forall t0 es, b_cur (r_b (after p t0 es)) <= N.max (p_init p) (p_max p).
Proof.
  intros (Hi & Hm & Hd) t0 es. unfold after.
  apply (brun_inv p (fun s => b_cur (r_b s) <= N.max (p_init p) (p_max p))); [|cbn; lia].
  intros s e Hs. rewrite rstep_fst.
  assert (Hg : forall v, b_cur (snd (bo_next_v p (r_now s) (r_b s) v)) <= N.max (p_init p) (p_max p)).
  { intros v. rewrite next_v_cur. destruct (p_kind p); [|exact Hs].
    pose proof (grow_le_max (p_max p) (p_mult p) (b_cur (r_b s)) Hd Hm) as H. lia. }
  destruct e; cbn [r_b]; try apply Hg; [cbn; lia|exact Hs].
Qed.

Theorem intervals_bounded p : wf p -> p_kind p = KExpo -> forall t0 es, (forall v, ~ In (BNextV v) es) ->
  forall v, In (Some v) (outs p t0 es) -> v <= N.max (p_init p) (p_max p).
Proof.
  intros Hwf Hk t0 es. unfold outs.
  assert (Hgen : forall es s, b_cur (r_b s) <= N.max (p_init p) (p_max p) -> (forall v, ~ In (BNextV v) es) ->
                 forall v, In (Some v) (snd (brun p s es)) -> v <= N.max (p_init p) (p_max p)).
  { destruct Hwf as (Hi & Hm & Hd). clear es.
    induction es as [|e es IH]; intros s Hs Hno v Hin; [destruct Hin|].
    rewrite brun_cons in Hin. cbn [snd] in Hin. apply in_app_or in Hin. destruct Hin as [Hin|Hin].
    - rewrite rstep_snd in Hin. destruct e; cbn [In] in Hin; try tauto.
      + destruct Hin as [Hin|[]]. unfold bo_next, bo_next_v in Hin. rewrite Hk in Hin. cbn [fst] in Hin.
        destruct (stops p (r_now s) (r_b s) (b_cur (r_b s))); [discriminate|]. inversion Hin; subst v. exact Hs.
      + exfalso. apply (Hno v0). left. reflexivity.
    - apply (IH (fst (rstep p s e))); [|intros v0 H; apply (Hno v0); right; exact H|exact Hin].
      rewrite rstep_fst. destruct e; cbn [r_b]; unfold bo_next; rewrite ?next_v_cur, ?Hk; try exact Hs.
      + pose proof (grow_le_max (p_max p) (p_mult p) (b_cur (r_b s)) Hd Hm) as H. lia.
      + pose proof (grow_le_max (p_max p) (p_mult p) (b_cur (r_b s)) Hd Hm) as H. lia.
      + cbn. lia. }
  intros Hno v Hin. apply (Hgen es (rinit p t0)); [cbn; lia|exact Hno|exact Hin].
Qed.

(* multiplier >= 1 and initial <= max: the current interval never exceeds max and never shrinks except by Reset *)
Theorem nondecreasing p : wf p -> p_init p <= p_max p -> mult_ge1 (p_mult p) -> forall t0 es,
  let s := after p t0 es in
  b_cur (r_b s) <= p_max p /\
  forall now v, b_cur (r_b s) <= b_cur (snd (bo_next_v p now (r_b s) v)).
Proof.
  intros (Hi & Hm & Hd) Him H1 t0 es.
  assert (Hinv : b_cur (r_b (after p t0 es)) <= p_max p).
  { unfold after. apply (brun_inv p (fun s => b_cur (r_b s) <= p_max p)); [|exact Him].
    intros s e Hs. rewrite rstep_fst.
    destruct e; cbn [r_b]; unfold bo_next; rewrite ?next_v_cur; try exact Hs; try exact Him;
      (destruct (p_kind p); [apply grow_le_max; [exact Hd|exact Hm|lia]|exact Hs]). }
  cbv zeta. split; [exact Hinv|]. intros now v. rewrite next_v_cur.
  destruct (p_kind p); [|apply N.le_refl]. apply grow_ge; assumption.
Qed.

(* ---- (d) constant kind ---- *)
Theorem constant_always p : p_kind p = KConst -> forall t0 es o, In o (outs p t0 es) -> o = Some (p_cint p).
Proof.
  intros Hk t0 es o Hin. unfold outs in Hin.
  apply (brun_outs p (fun _ => True) (fun o => o = Some (p_cint p))) with (es := es) (s := rinit p t0);
    [tauto| |exact I|exact Hin].
  intros s e o' _ Ho. rewrite rstep_snd in Ho. unfold bo_next, bo_next_v in Ho. rewrite Hk in Ho.
  destruct e; cbn [In fst] in Ho; try tauto; destruct Ho as [Ho|[]]; subst o'; reflexivity.
Qed.

(* ---- (f) MaxElapsedTime = M > 0: Stop exactly when elapsed + next > M ---- *)
Theorem stop_iff p now s v : p_kind p = KExpo -> p_maxel p <> 0 ->
  (fst (bo_next_v p now s v) = None <-> p_maxel p < (now - b_start s) + v).
Proof.
  intros Hk HM. unfold bo_next_v, stops. rewrite Hk. cbn [fst].
  destruct (N.eqb_spec (p_maxel p) 0) as [H0|_]; [contradiction|]. cbn [negb andb].
  destruct (N.ltb_spec (p_maxel p) (now - b_start s + v)) as [Hlt|Hge]; split; intros H; try assumption; try reflexivity.
  - discriminate.
  - lia.
Qed.

(* ---- (e) Construct ---- *)
Definition cfg0 : config :=
  {| c_kind := 0; c_init := 0; c_mult := 0; c_max := 0; c_rf := 0; c_maxel := 0; c_const := 0 |}.

Lemma construct_defaults :
  Construct cfg0 =
  Some {| p_kind := KExpo; p_init := 800 * ms; p_mult := dy_18; p_max := 20000 * ms; p_rf := None; p_maxel := 0; p_cint := 0 |}.
Proof. reflexivity. Qed.

Lemma f32_18 : f32_decode 1072064102 = F32Pos dy_18.
Proof. reflexivity. Qed.

Definition f32_m (x : f32) : N := match x with F32Pos d => dy_m d | _ => 0 end.

Lemma f32_pos_mantissa bits d : f32_decode bits = F32Pos d -> 0 < dy_m d.
Proof.
  intros H. assert (Hm : dy_m d = f32_m (f32_decode bits)) by (rewrite H; reflexivity).
  rewrite Hm. clear Hm. revert H. unfold f32_decode.
  generalize (bits / 2147483648) ((bits / 8388608) mod 256) (bits mod 8388608) (4294967296 <=? bits).
  intros s e f b. destruct b; [discriminate|].
  destruct (N.eqb_spec e 0) as [He|He]; destruct (N.eqb_spec f 0) as [Hf|Hf]; cbn [andb]; try discriminate;
    destruct (s =? 1); try discriminate; destruct (e =? 255); try discriminate;
    try (destruct (150 <=? e)); intros _; cbv beta iota delta [f32_m dy_m]; lia.
Qed.

Theorem construct_spec c p : Construct c = Some p ->
  (p_kind p = KConst <-> c_kind c = 2) /\
  (p_kind p = KConst -> p_cint p = (if c_const c =? 0 then 5000 else c_const c) * ms) /\
  (p_kind p = KExpo ->
     p_init p = (if c_init c =? 0 then 800 else c_init c) * ms /\
     p_max p = (if c_max c =? 0 then 20000 else c_max c) * ms /\
     p_maxel p = c_maxel c * ms /\
     (f32_decode (c_mult c) = F32Zero -> p_mult p = dy_18) /\
     (forall d, f32_decode (c_mult c) = F32Pos d -> p_mult p = d) /\
     (f32_decode (c_rf c) = F32Zero <-> p_rf p = None) /\
     0 < dy_m (p_mult p)).
Proof.
  unfold Construct. destruct (N.eqb_spec (c_kind c) 2) as [Hk|Hk].
  - intros H; inversion H; subst p; clear H. cbn [p_kind p_cint]. unfold dflt.
    repeat split; try tauto; try discriminate.
  - intros H.
    assert (Hcases : exists mult rf,
       p = {| p_kind := KExpo; p_init := dflt (c_init c) 800 * ms; p_mult := mult; p_max := dflt (c_max c) 20000 * ms;
              p_rf := rf; p_maxel := c_maxel c * ms; p_cint := 0 |} /\ 0 < dy_m mult /\
       (f32_decode (c_mult c) = F32Zero -> mult = dy_18) /\ (forall d, f32_decode (c_mult c) = F32Pos d -> mult = d) /\
       (f32_decode (c_rf c) = F32Zero <-> rf = None)).
    { destruct (f32_decode (c_mult c)) as [|d|] eqn:Hm; [| |discriminate];
        destruct (f32_decode (c_rf c)) as [|r|] eqn:Hr; try discriminate.
      - exists dy_18, None. split; [congruence|]. repeat split; try reflexivity; try discriminate.
      - destruct (dy_le1 r); [|discriminate]. exists dy_18, (Some r). split; [congruence|].
        repeat split; try reflexivity; try discriminate.
      - exists d, None. split; [congruence|]. split; [exact (f32_pos_mantissa _ _ Hm)|].
        repeat split; try reflexivity; try discriminate. intros d' H'. congruence.
      - destruct (dy_le1 r); [|discriminate]. exists d, (Some r). split; [congruence|].
        split; [exact (f32_pos_mantissa _ _ Hm)|].
        repeat split; try reflexivity; try discriminate. intros d' H'. congruence. }
    destruct Hcases as (mult & rf & Hp & Hpos & Hz & Hd & Hrf). subst p.
    cbn [p_kind p_init p_max p_maxel p_mult p_rf p_cint]. unfold dflt.
    split; [split; [discriminate|intros H'; contradiction]|]. split; [discriminate|]. intros _.
    repeat split; try assumption; try apply Hrf.
Qed.

Lemma ms_u32_lt x : x < 4294967296 -> x * ms < two53.
Proof. intros H. unfold ms, two53. lia. Qed.

Theorem construct_wf c p : c_init c < 4294967296 -> c_max c < 4294967296 -> Construct c = Some p -> wf p.
Proof.
  intros Hi Hm Hc. destruct (construct_spec c p Hc) as (Hk & _ & He).
  destruct (p_kind p) eqn:Hkind.
  - destruct (He eq_refl) as (H1 & H2 & _ & _ & _ & _ & H7). unfold wf. rewrite H1, H2.
    split; [|split; [|exact H7]]; apply ms_u32_lt.
    + destruct (c_init c =? 0); [reflexivity|exact Hi].
    + destruct (c_max c =? 0); [reflexivity|exact Hm].
  - destruct Hk as [Hk _]. specialize (Hk eq_refl). unfold Construct in Hc. rewrite Hk, N.eqb_refl in Hc.
    assert (Hp : p = {| p_kind := KConst; p_init := 0; p_mult := dy_18; p_max := 0; p_rf := None; p_maxel := 0;
                        p_cint := dflt (c_const c) 5000 * ms |}) by congruence.
    subst p. unfold wf. cbn [p_init p_max p_mult dy_m dy_18]. repeat split; reflexivity.
Qed.

(* an unset max_elapsed_time never stops, whatever the other fields *)
Theorem unset_max_elapsed_never_stops c p : Construct c = Some p -> c_maxel c = 0 ->
  forall t0 es, ~ In None (outs p t0 es).
Proof.
  intros Hc HM. apply never_stop. destruct (construct_spec c p Hc) as (Hk & _ & He).
  destruct (p_kind p) eqn:Hkind.
  - destruct (He eq_refl) as (_ & _ & H3 & _). rewrite H3, HM. reflexivity.
  - destruct Hk as [Hk _]. specialize (Hk eq_refl). unfold Construct in Hc. rewrite Hk, N.eqb_refl in Hc.
    assert (Hp : p = {| p_kind := KConst; p_init := 0; p_mult := dy_18; p_max := 0; p_rf := None; p_maxel := 0;
                        p_cint := dflt (c_const c) 5000 * ms |}) by congruence.
    subst p. reflexivity.
Qed.

(* ---- (g) the script ---- *)
Lemma iter_script_length mx mult n : forall cur, length (iter_script mx mult cur n) = n.
Proof. induction n as [|n IH]; intros cur; [reflexivity|]. cbn [iter_script length]. rewrite IH. reflexivity. Qed.

Theorem bo_script_ns_length p n : length (bo_script_ns p n) = n.
Proof. unfold bo_script_ns. destruct (p_kind p); [apply iter_script_length|apply repeat_length]. Qed.

Theorem bo_script_length p n : length (bo_script p n) = n.
Proof. unfold bo_script. rewrite map_length. apply bo_script_ns_length. Qed.

Lemma next_n_expo p : p_kind p = KExpo -> p_maxel p = 0 -> forall nows s,
  next_n p s nows = map Some (iter_script (p_max p) (p_mult p) (b_cur s) (length nows)).
Proof.
  intros Hk HM nows. induction nows as [|t r IH]; intros s; [reflexivity|].
  cbn [next_n length iter_script map]. unfold bo_next, bo_next_v, stops. rewrite Hk, HM. cbn [N.eqb negb andb].
  rewrite IH. reflexivity.
Qed.

Lemma next_n_const p : p_kind p = KConst -> forall nows s,
  next_n p s nows = map Some (repeat (p_cint p) (length nows)).
Proof.
  intros Hk nows. induction nows as [|t r IH]; intros s; [reflexivity|].
  cbn [next_n length repeat map]. unfold bo_next, bo_next_v. rewrite Hk. rewrite IH. reflexivity.
Qed.

(* n consecutive NextBackOff calls after a Reset, at arbitrary times, return exactly the script: no Stop *)
Theorem script_is_next_n p t nows : p_maxel p = 0 ->
  next_n p (bo_reset p t) nows = map Some (bo_script_ns p (length nows)).
Proof.
  intros HM. unfold bo_script_ns. destruct (p_kind p) eqn:Hk.
  - rewrite next_n_expo by assumption. reflexivity.
  - apply next_n_const. exact Hk.
Qed.

Theorem script_no_stop p t nows : p_maxel p = 0 -> ~ In None (next_n p (bo_reset p t) nows).
Proof.
  intros HM Hin. rewrite script_is_next_n in Hin by exact HM.
  apply in_map_iff in Hin. destruct Hin as (x & Hx & _). discriminate.
Qed.

Lemma iter_script_sorted mx mult : 0 < dy_m mult -> mult_ge1 mult -> mx < two53 -> forall n cur i, cur <= mx ->
  (S i < n)%nat -> nth i (iter_script mx mult cur n) 0 <= nth (S i) (iter_script mx mult cur n) 0.
Proof.
  intros Hd H1 Hmx. induction n as [|n IH]; intros cur i Hc Hi; [inversion Hi|].
  destruct n as [|n]; [exfalso; lia|].
  destruct i as [|i].
  - cbn [iter_script nth]. apply grow_ge; assumption.
  - change (iter_script mx mult cur (S (S n))) with (cur :: iter_script mx mult (grow mx mult cur) (S n)).
    cbn [nth]. apply IH; [|lia]. apply grow_le_max; [exact Hd|exact Hmx|lia].
Qed.

Theorem script_sorted p n : wf p -> p_init p <= p_max p -> mult_ge1 (p_mult p) -> forall i, (S i < n)%nat ->
  nth i (bo_script_ns p n) 0 <= nth (S i) (bo_script_ns p n) 0.
Proof.
  intros (Hi & Hm & Hd) Him H1 i Hlt. unfold bo_script_ns. destruct (p_kind p).
  - apply iter_script_sorted; assumption.
  - assert (Hr : forall k, nth k (repeat (p_cint p) n) 0 = if (k <? n)%nat then p_cint p else 0).
    { clear. induction n as [|n IH]; intros k; [destruct k; reflexivity|]. destruct k as [|k]; [reflexivity|].
      cbn [repeat nth]. rewrite IH. reflexivity. }
    rewrite !Hr. destruct (Nat.ltb_spec i n), (Nat.ltb_spec (S i) n); try lia.
Qed.

Lemma iter_script_bounded mx mult b : 0 < dy_m mult -> mx < two53 -> mx <= b -> b < two53 -> forall n cur v, cur <= b ->
  In v (iter_script mx mult cur n) -> v <= b.
Proof.
  intros Hd Hmx Hb Hb2. induction n as [|n IH]; intros cur v Hc Hin; [destruct Hin|].
  cbn [iter_script In] in Hin. destruct Hin as [Hv|Hin]; [subst v; exact Hc|].
  apply (IH (grow mx mult cur)); [|exact Hin].
  pose proof (grow_le_max mx mult cur Hd Hmx) as H. lia.
Qed.

Theorem script_bounded p n : wf p -> p_kind p = KExpo -> forall v, In v (bo_script_ns p n) -> v <= N.max (p_init p) (p_max p).
Proof.
  intros (Hi & Hm & Hd) Hk v Hin. unfold bo_script_ns in Hin. rewrite Hk in Hin.
  apply (iter_script_bounded (p_max p) (p_mult p) (N.max (p_init p) (p_max p))) with (n := n) (cur := p_init p);
    try assumption; lia.
Qed.

(* ---- (h) the monitors accept every history of the model ---- *)
Definition R (st : state) (m : mstate) : Prop :=
  match st with
  | StBad => True
  | StOk p b now =>
    match p_kind p with
    | KExpo => exists fresh, m = MExpo p (b_cur b) (b_start b) now fresh
    | KConst => m = MConst (p_cint p)
    end
  end.

Lemma R_init cfg : R (init cfg) (minit cfg).
Proof.
  unfold init, minit. destruct (dec_cfg cfg) as [p|]; [|exact I].
  unfold R. destruct (p_kind p); [exists true|]; reflexivity.
Qed.

Lemma enc_res_cases r : (r = None /\ enc_res r = [0]) \/ (exists v, r = Some v /\ enc_res r = [1; v]).
Proof. destruct r as [v|]; [right; exists v|left]; split; reflexivity. Qed.

(* the monitor's verdict on a NextBackOff of the exponential kind that returned r for the drawn value v *)
Lemma mon_next_ok p cur start now fresh e v :
  is_next e = true -> p_kind p = KExpo ->
  let b := {| b_cur := cur; b_start := start |} in
  (stops p now b v = false -> fst (bo_range p cur) <= v <= snd (bo_range p cur)) ->
  (stops p now b v = true -> stops p now b (snd (bo_range p cur)) = true) ->
  mon (MExpo p cur start now fresh) e (enc_res (fst (bo_next_v p now b v))) =
  (MExpo p (grow (p_max p) (p_mult p) cur) start now false, []).
Proof.
  intros He Hk b Hin Hst. unfold mon.
  assert (Hd : match decode e with Some ENext | Some (ENextV _ _) => True | _ => False end).
  { unfold is_next in He. destruct (decode e) as [[| | | |]|]; try discriminate; exact I. }
  unfold bo_next_v. rewrite Hk. cbn [fst].
  destruct (stops p now b v) eqn:Hs.
  - specialize (Hst eq_refl). unfold stops in Hst. cbn [b_start b] in Hst.
    apply andb_prop in Hst. destruct Hst as [H1 H2]. cbn [enc_res].
    destruct (decode e) as [[| | | |]|]; try contradiction; rewrite H1, H2, orb_true_r; reflexivity.
  - destruct (Hin eq_refl) as [Hlo Hhi]. cbn [enc_res].
    apply N.leb_le in Hlo. apply N.leb_le in Hhi.
    destruct (decode e) as [[| | | |]|]; try contradiction; rewrite Hlo, Hhi; destruct fresh; reflexivity.
Qed.

Lemma sim_step st m e st' o :
  R st m -> step st e = Some (st', o) -> exists m', mon m e o = (m', []) /\ R st' m'.
Proof.
  intros HR Hst. destruct st as [p b now|]; [|discriminate]. cbn [step] in Hst. cbn [R] in HR.
  destruct (decode e) as [ev|] eqn:Hdec; [|discriminate].
  destruct (p_kind p) eqn:Hk.
  - (* exponential *)
    destruct HR as [fresh Hm]. subst m. destruct b as [cur start]. cbn [b_cur b_start] in *.
    destruct ev as [|k v| |d|c mx].
    + (* NextBackOff, factor 0 *)
      destruct (randomized p) eqn:Hrnd; [discriminate|]. inversion Hst; subst st' o; clear Hst.
      assert (Hrf : p_rf p = None).
      { unfold randomized in Hrnd. rewrite Hk in Hrnd. destruct (p_rf p); [discriminate|reflexivity]. }
      unfold bo_next. cbn [b_cur].
      rewrite (mon_next_ok p cur start now fresh e cur); [| |exact Hk| |].
      * eexists. split; [reflexivity|]. cbn [R]. rewrite Hk. exists false.
        rewrite next_v_cur, next_v_start, Hk. reflexivity.
      * unfold is_next. rewrite Hdec. reflexivity.
      * intros _. unfold bo_range. rewrite Hrf. cbn [fst snd]. lia.
      * intros H. unfold bo_range. rewrite Hrf. cbn [snd]. exact H.
    + (* NextBackOff with a drawn value *)
      destruct (randomized p); [|discriminate].
      assert (Hn : is_next e = true) by (unfold is_next; rewrite Hdec; reflexivity).
      destruct (N.eqb_spec k 1) as [Hk1|Hk1].
      * destruct ((fst (bo_range p cur) <=? v) && (v <=? snd (bo_range p cur)) && negb (stops p now {| b_cur := cur; b_start := start |} v)) eqn:Hc;
          [|discriminate].
        inversion Hst; subst st' o; clear Hst.
        apply andb_prop in Hc. destruct Hc as [Hc Hns]. apply andb_prop in Hc. destruct Hc as [Hlo Hhi].
        apply N.leb_le in Hlo. apply N.leb_le in Hhi. apply negb_true_iff in Hns.
        rewrite (mon_next_ok p cur start now fresh e v Hn Hk); [| |].
        -- eexists. split; [reflexivity|]. cbn [R]. rewrite Hk. exists false.
           rewrite next_v_cur, next_v_start, Hk. reflexivity.
        -- intros _. split; assumption.
        -- intros H. rewrite H in Hns. discriminate.
      * destruct (k =? 0); [|discriminate].
        destruct ((v =? 0) && stops p now {| b_cur := cur; b_start := start |} (snd (bo_range p cur))) eqn:Hc; [|discriminate].
        inversion Hst; subst st' o; clear Hst.
        apply andb_prop in Hc. destruct Hc as [_ Hs].
        rewrite (mon_next_ok p cur start now fresh e (snd (bo_range p cur)) Hn Hk); [| |].
        -- eexists. split; [reflexivity|]. cbn [R]. rewrite Hk. exists false.
           rewrite next_v_cur, next_v_start, Hk. reflexivity.
        -- intros H. rewrite H in Hs. discriminate.
        -- intros _. exact Hs.
    + inversion Hst; subst st' o; clear Hst. unfold mon. rewrite Hdec.
      eexists. split; [reflexivity|]. cbn [R]. rewrite Hk. exists true. reflexivity.
    + inversion Hst; subst st' o; clear Hst. unfold mon. rewrite Hdec.
      eexists. split; [reflexivity|]. cbn [R]. rewrite Hk. exists fresh. reflexivity.
    + destruct ((c <? two53) && (mx <? two53) && (trunc (fmul c (p_mult p)) <? two63)); [|discriminate].
      inversion Hst; subst st' o; clear Hst. unfold mon. rewrite Hdec.
      eexists. split; [reflexivity|]. cbn [R]. rewrite Hk. exists fresh. reflexivity.
  - (* constant *)
    subst m.
    assert (Hrnd : randomized p = false) by (unfold randomized; rewrite Hk; reflexivity).
    rewrite Hrnd in Hst. unfold mon, is_next. rewrite Hdec.
    destruct ev as [|k v| |d|c mx]; try discriminate.
    + inversion Hst; subst st' o; clear Hst. unfold bo_next, bo_next_v. rewrite Hk. cbn [fst snd enc_res list_eqb].
      rewrite !N.eqb_refl. cbn [andb fails filter map snd negb].
      eexists. split; [reflexivity|]. cbn [R]. rewrite Hk. reflexivity.
    + inversion Hst; subst st' o; clear Hst. eexists. split; [reflexivity|]. cbn [R]. rewrite Hk. reflexivity.
    + inversion Hst; subst st' o; clear Hst. eexists. split; [reflexivity|]. cbn [R]. rewrite Hk. reflexivity.
Qed.

Lemma monitor_silent evs : forall st m i reported,
  R st m -> monitor mon i m reported evs (run_obs step st evs) = [].
Proof.
  induction evs as [|e evs IH]; intros st m i reported HR; [reflexivity|].
  cbn [run_obs]. destruct (step st e) as [[st' o]|] eqn:Hs; [|reflexivity].
  destruct (sim_step _ _ _ _ _ HR Hs) as (m' & Hm & HR').
  cbn [monitor]. rewrite Hm. cbn [filter map app]. apply IH. exact HR'.
Qed.

Theorem model_satisfies_monitors cfg evs :
  monitor mon 0 (minit cfg) [] evs (run_obs step (init cfg) evs) = [].
Proof. apply monitor_silent, R_init. Qed.
