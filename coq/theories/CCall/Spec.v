(* ccall: codec between harness histories and model events, the eager schedule the harness realises
   (a blocked caller whose select has a ready case runs on to its next gate at once), the observation
   vector, and the monitors of C17 on observed traces.

   Events   [1 f1 .. fn]  CallConcurrently(ctx, fns...) in the caller actor; fi = 1 a function, 0 a nil entry
            [2 a c]       actor a (0 = caller, i+1 = goroutine of function i) runs from its gate to its next stop;
                          c (caller only): which select case is taken if both are ready, 1 = ctx.Done, else waitCh
            [3 i oc]      function i returns outcome oc (1 nil, 2 context.Canceled, 3+e error number e)
            [4]           the caller's context is cancelled
   Observation  [cstat cret] ++ for every entry i [wstat_i entries_i ctxc_i]
            cstat   0 not called, 1 at a HoldLock entry gate, 6 at a HoldLock exit gate, 2 blocked (in the select, or
                    inside the single function), 5 returned, 9 panicked (never produced by the model)
            cret    0 not returned, else the outcome code of the call's result; the harness reports errors that are neither
                    context.Canceled nor one of the functions' error values as 96 (context.DeadlineExceeded), 97 (the cause of
                    the caller's context) or 99 (anything else): never produced by the model, judged by clause 3.
   Config   [k] (optional, ignored by the model): the flavour of the caller's context (harness/hctx: plain, ending like a
            deadline, cancelled with a cause); CallConcurrently returns the literal context.Canceled for all of them
            wstat   0 nil entry / not entered yet, 3 inside the function, 1 function returned, at the gate of its
                    record section, 4 finished (recorded; or returned in the one-function path)
            entries how often function i was entered; ctxc 1 if it was entered and the context it got is cancelled *)
From Util Require Import Common.Base Common.ListLemmas CCall.Model.

Definition code_out (o : outcome) : N :=
  match o with ONil => 1 | OCanc => 2 | OErr e => 3 + N.of_nat e end%N.
Definition dec_out (c : N) : option outcome :=
  if N.eqb c 0 then None else if N.eqb c 1 then Some ONil else if N.eqb c 2 then Some OCanc
  else Some (OErr (N.to_nat (c - 3))).

Definition cstat (p : cpc) : N :=
  match p with
  | CIdle => 0 | CStart | CRead => 1 | CSpawned _ _ | CReadDone _ _ _ => 6
  | CSelect _ | CInline => 2 | CRet _ => 5
  end%N.
Definition cretc (p : cpc) : N := match p with CRet o => code_out o | _ => 0%N end.
Definition wstat (w : wk) : N :=
  match wp w with WNone | WIdle => 0 | WInFn => 3 | WRet _ => 1 | WDone _ => 4 end%N.
Definition wobs (s : st) (w : wk) : list N :=
  [wstat w; N.of_nat (went w); if Nat.ltb 0 (went w) && subc s then 1%N else 0%N].
Definition obs (s : st) : list N := cstat (cp s) :: cretc (cp s) :: flat_map (wobs s) (wks s).

(* eager schedule: a caller at its select with a ready case continues at once; c decides when both are *)
Definition settle (c : N) (s : st) : st :=
  match cp s with
  | CSelect ch =>
    let rc := cctx s in
    let rw := closed (bb s) ch in
    if rc && rw then step s (Wake (N.eqb c 1))
    else if rc then step s (Wake true)
    else if rw then step s (Wake false)
    else s
  | _ => s
  end.

(* first stage of the codec, shared by the model-side step and the monitors *)
Inductive pev := PCall (fs : list N) | PStep (a c : N) | PRet (i oc : N) | PCancel.
Definition parse (e : list N) : option pev :=
  match e with
  | 1 :: fs => Some (PCall fs)
  | [2; a; c] => Some (PStep a c)
  | [3; i; oc] => Some (PRet i oc)
  | [4] => Some PCancel
  | _ => None
  end%N.

(* decoding: the model event and the select preference; None = not enabled in the model now *)
Definition decode (s : st) (e : list N) : option (ev * N) :=
  match parse e with
  | Some (PCall fs) =>
    match cp s with
    | CIdle => if forallb (fun f => N.leb f 1) fs then Some (Call (map (N.eqb 1) fs), 2%N) else None
    | _ => None
    end
  | Some (PStep a c) =>
    if N.eqb a 0 then
      (if c_at_gate (cp s) then Some (StepC, c) else None)
    else
      let i := pred (N.to_nat a) in
      match nth_error (wks s) i with
      | Some w => if w_at_gate w then Some (StepW i, 2%N) else None
      | None => None
      end
  | Some (PRet i oc) =>
    match dec_out oc, nth_error (wks s) (N.to_nat i) with
    | Some o, Some w => match wp w with WInFn => Some (FnReturn (N.to_nat i) o, 2%N) | _ => None end
    | _, _ => None
    end
  | Some PCancel => if cctx s then None else Some (CancelCaller, 1%N)
  | None => None
  end.

Definition hstep (s : st) (e : list N) : option (st * list N) :=
  match decode s e with
  | Some (ev, c) => let s' := settle c (step s ev) in Some (s', obs s')
  | None => None
  end.

(* ---------------- monitors (on the implementation's observations only) ---------------- *)
Record mst := { mfs : list bool;    (* the entries of the call: true = function *)
                mouts : list N;     (* outcome code each function has returned so far (0 = has not returned) *)
                mcanc : bool;       (* the caller's context has been cancelled *)
                mret : bool }.      (* the call's return has been observed already *)
Definition minit : mst := {| mfs := []; mouts := []; mcanc := false; mret := false |}.

Fixpoint chunk3 (l : list N) : list (N * N * N) :=
  match l with a :: b :: c :: t => (a, b, c) :: chunk3 t | _ => [] end.

(* one row per entry: ((is a function, outcome code returned so far), (wstat, entries, ctxc)) *)
Definition row := ((bool * N) * (N * N * N))%type.
Definition r_fn (r : row) : bool := fst (fst r).
Definition r_out (r : row) : N := snd (fst r).
Definition r_stat (r : row) : N := fst (fst (snd r)).
Definition r_ent (r : row) : N := snd (fst (snd r)).
Definition r_cx (r : row) : N := snd (snd r).

Definition mev (m : mst) (e : list N) : mst :=
  match parse e with
  | Some (PCall fs) => {| mfs := map (N.eqb 1) fs; mouts := map (fun _ => 0%N) fs; mcanc := mcanc m; mret := mret m |}
  | Some (PRet i oc) => {| mfs := mfs m; mouts := set_nth (mouts m) (N.to_nat i) oc; mcanc := mcanc m; mret := mret m |}
  | Some PCancel => {| mfs := mfs m; mouts := mouts m; mcanc := true; mret := mret m |}
  | _ => m
  end.

(* the six clauses; first = the call's return becomes visible at this step, cret = its result code (0 none) *)
(* 1: no function is entered twice; when the call returns nil every function has been entered exactly once *)
Definition cl1 (first : bool) (cret : N) (rows : list row) : bool :=
  existsb (fun r => N.ltb 1 (r_ent r)) rows
  || (first && N.eqb cret 1 && existsb (fun r => r_fn r && negb (N.eqb (r_ent r) 1)) rows).
(* 2: nil only if every function has returned nil before *)
Definition cl2 (first : bool) (cret : N) (rows : list row) : bool :=
  first && N.eqb cret 1 && existsb (fun r => r_fn r && negb (N.eqb (r_out r) 1)) rows.
(* 3: an error result is one some function returned; if a function has returned a non-Canceled error the result is
      such an error (or Canceled, if the caller's context was cancelled), never nil.  outs = outcome codes returned so far *)
Definition cl3 (first : bool) (cret : N) (canc : bool) (outs : list N) : bool :=
  let reals := filter (N.leb 3) outs in
  first && ((N.leb 3 cret && negb (existsb (N.eqb cret) reals))
            || (negb (match reals with [] => true | _ => false end) && (N.eqb cret 1 || (N.eqb cret 2 && negb canc)))).
(* 4: Canceled only if the caller's context was cancelled or some function returned Canceled *)
Definition cl4 (first : bool) (cret : N) (canc : bool) (outs : list N) : bool :=
  first && N.eqb cret 2 && negb (canc || existsb (N.eqb 2) outs).
(* 5: once the call has returned, the context every entered function got is cancelled *)
Definition cl5 (cret : N) (rows : list row) : bool :=
  negb (N.eqb cret 0) && existsb (fun r => N.leb 1 (r_ent r) && negb (N.eqb (r_cx r) 1)) rows.
(* 6: at quiescence (nobody at a gate) the call is not blocked while it could return: all functions finished, or
      (two or more entries) a non-Canceled error recorded or the caller's context cancelled; a panicking call never returns *)
Definition cl6 (cst : N) (canc : bool) (nfs : nat) (rows : list row) : bool :=
  let quiet := negb (N.eqb cst 1) && negb (N.eqb cst 6) && negb (existsb (fun r => N.eqb (r_stat r) 1) rows) in
  let all_done := forallb (fun r => negb (r_fn r) || N.eqb (r_stat r) 4) rows in
  let wakecond :=
    if Nat.leb nfs 1 then all_done
    else canc || all_done || existsb (fun r => N.eqb (r_stat r) 4 && N.leb 3 (r_out r)) rows in
  N.eqb cst 9 || (quiet && N.eqb cst 2 && wakecond).

Definition mon (m : mst) (e o : list N) : mst * list (nat * nat) :=
  let m1 := mev m e in
  let cst := nth 0 o 0%N in
  let cret := nth 1 o 0%N in
  let rows : list row := combine (combine (mfs m1) (mouts m1)) (chunk3 (skipn 2 o)) in
  let first := negb (mret m) && negb (N.eqb cret 0) in
  let m2 := {| mfs := mfs m1; mouts := mouts m1; mcanc := mcanc m1; mret := mret m || negb (N.eqb cret 0) |} in
  (m2, (if cl1 first cret rows then [(17, 1)] else []) ++ (if cl2 first cret rows then [(17, 2)] else []) ++
       (if cl3 first cret (mcanc m1) (mouts m1) then [(17, 3)] else []) ++
       (if cl4 first cret (mcanc m1) (mouts m1) then [(17, 4)] else []) ++
       (if cl5 cret rows then [(17, 5)] else []) ++
       (if cl6 cst (mcanc m1) (length (mfs m1)) rows then [(17, 6)] else [])).

Definition run_check_ccall (cfg : list N) (evs obss : list (list N)) : list issue :=
  run_check hstep mon init minit evs obss.
