(* Proofs about the ccall model. *)
From Util Require Import Common.Base Common.ListLemmas CCall.Model.

(* ------------------------------------------------------------------ *)
(* counting lemmas *)

Definition nd (P : outcome -> bool) (l : list wk) : nat := cnt (done_with P) l.
Definition wbad (w : wk) : bool :=
  negb (Nat.eqb (went w) (match wp w with WNone | WIdle => 0 | _ => 1 end)).

Lemma cnt_upd {A} (P : A -> bool) l i w v :
  nth_error l i = Some w -> cnt P (set_nth l i v) + b2n (P w) = cnt P l + b2n (P v).
Proof.
  intros G. pose proof (nth_error_nth_len _ _ _ G) as Hl.
  pose proof (cnt_set_nth P l i v w Hl) as H. now rewrite (nth_error_nth _ _ w G) in H.
Qed.

Lemma cnt_nth_false {A} (P : A -> bool) l i w : cnt P l = 0 -> nth_error l i = Some w -> P w = false.
Proof. intros H G. apply (proj1 (cnt_zero_forall P l) H). eapply nth_error_In; eauto. Qed.

Lemma cnt_map_ext {A B} (P : B -> bool) (Q : A -> bool) (f : A -> B) l :
  (forall a, P (f a) = Q a) -> cnt P (map f l) = cnt Q l.
Proof.
  intros H. induction l as [|h t IH]; [reflexivity|]. cbn [map]. rewrite !cnt_cons, H, IH. reflexivity.
Qed.

Lemma cnt_false {A} (P : A -> bool) l : (forall a, P a = false) -> cnt P l = 0.
Proof. intros H. apply cnt_zero_forall. intros a _. apply H. Qed.

Lemma cnt_split3 {A} (P Q1 Q2 Q3 : A -> bool) l :
  (forall a, b2n (P a) = b2n (Q1 a) + b2n (Q2 a) + b2n (Q3 a)) -> cnt P l = cnt Q1 l + cnt Q2 l + cnt Q3 l.
Proof.
  intros H. induction l as [|h t IH]; [reflexivity|]. rewrite !cnt_cons, IH, H. lia.
Qed.

Lemma nonnil_split l : cnt nonnil l = cnt isidle l + cnt active l + cnt isdone l.
Proof. apply cnt_split3. intros [p n]. unfold nonnil, isidle, active, isdone; cbn [wp]. now destruct p. Qed.

Lemma notnilres_split l : cnt notnilres l = cnt isidle l + cnt active l + nd notnil l.
Proof.
  apply cnt_split3. intros [p n]. unfold notnilres, isidle, active, done_with; cbn [wp].
  destruct p as [| | |o|o]; try reflexivity. now destruct o.
Qed.

Lemma nd_le_done P l : nd P l <= cnt isdone l.
Proof. apply cnt_le. intros [p n]. unfold done_with, isdone; cbn [wp]. now destruct p. Qed.

Lemma nd_real_le_notnil l : nd is_real l <= nd notnil l.
Proof. apply cnt_le. intros [p n]. unfold done_with; cbn [wp]. destruct p as [| | |o|o]; auto. now destruct o. Qed.

Lemma nd_err_le_real x l : nd (is_err x) l <= nd is_real l.
Proof. apply cnt_le. intros [p n]. unfold done_with; cbn [wp]. destruct p as [| | |o|o]; auto. now destruct o. Qed.

Lemma nd_canc_le_notnil l : nd is_canc l <= nd notnil l.
Proof. apply cnt_le. intros [p n]. unfold done_with; cbn [wp]. destruct p as [| | |o|o]; auto. now destruct o. Qed.

Lemma notnilres_le_nonnil l : cnt notnilres l <= cnt nonnil l.
Proof. apply cnt_le. intros [p n]. unfold notnilres, nonnil; cbn [wp]. now destruct p. Qed.

(* the table built by Call *)
Lemma mkw_active fs : cnt active (map mkw fs) = 0.
Proof. rewrite (cnt_map_ext active (fun _ => false)); [now apply cnt_false | now intros []]. Qed.
Lemma mkw_done fs : cnt isdone (map mkw fs) = 0.
Proof. rewrite (cnt_map_ext isdone (fun _ => false)); [now apply cnt_false | now intros []]. Qed.
Lemma mkw_wbad fs : cnt wbad (map mkw fs) = 0.
Proof. rewrite (cnt_map_ext wbad (fun _ => false)); [now apply cnt_false | now intros []]. Qed.

(* the spawn section *)
Lemma spawn_isidle l : cnt isidle (map spawn l) = 0.
Proof.
  rewrite (cnt_map_ext isidle (fun _ => false)); [now apply cnt_false|].
  intros [p n]. unfold spawn, isidle; cbn [wp]. now destruct p.
Qed.
Lemma spawn_active l : cnt active (map spawn l) = cnt active l + cnt isidle l.
Proof.
  rewrite (cnt_map_ext active (fun w => active w || isidle w)).
  - induction l as [|h t IH]; [reflexivity|]. rewrite !cnt_cons, IH.
    destruct h as [p n]; unfold active, isidle; cbn [wp]; destruct p; cbn; lia.
  - intros [p n]. unfold spawn, active, isidle; cbn [wp]. now destruct p.
Qed.
Lemma spawn_nd P l : nd P (map spawn l) = nd P l.
Proof. apply cnt_map_ext. intros [p n]. unfold spawn, done_with; cbn [wp]. now destruct p. Qed.
Lemma spawn_nonnil l : cnt nonnil (map spawn l) = cnt nonnil l.
Proof. apply cnt_map_ext. intros [p n]. unfold spawn, nonnil; cbn [wp]. now destruct p. Qed.
Lemma spawn_wbad l : cnt wbad (map spawn l) = cnt wbad l.
Proof.
  apply cnt_map_ext. intros [p n]. unfold spawn, wbad; cbn [wp went].
  destruct p; reflexivity.
Qed.

(* a function returns: WInFn -> WRet o *)
Lemma upd_ret l i w o (l' := set_nth l i {| wp := WRet o; went := went w |}) :
  nth_error l i = Some w -> wp w = WInFn ->
  cnt isidle l' = cnt isidle l /\ cnt active l' = cnt active l /\ (forall P, nd P l' = nd P l) /\
  cnt notnilres l' = cnt notnilres l /\ cnt wbad l' = cnt wbad l /\ cnt nonnil l' = cnt nonnil l /\ length l' = length l.
Proof.
  intros G Hp. subst l'.
  assert (HH : forall (P : wk -> bool), P {| wp := WRet o; went := went w |} = P w ->
               cnt P (set_nth l i {| wp := WRet o; went := went w |}) = cnt P l).
  { intros P HP. pose proof (cnt_upd P l i w {| wp := WRet o; went := went w |} G) as H. rewrite HP in H. lia. }
  repeat split; try (intros P); try apply HH; try apply length_set_nth;
    unfold isidle, active, done_with, notnilres, wbad, nonnil; cbn [wp went]; now rewrite Hp.
Qed.

(* a worker records: WRet o -> WDone o *)
Lemma upd_done l i w o (l' := set_nth l i {| wp := WDone o; went := went w |}) :
  nth_error l i = Some w -> wp w = WRet o ->
  cnt isidle l' = cnt isidle l /\ cnt active l' + 1 = cnt active l /\ (forall P, nd P l' = nd P l + b2n (P o)) /\
  cnt notnilres l' + 1 = cnt notnilres l + b2n (notnil o) /\ cnt wbad l' = cnt wbad l /\
  cnt nonnil l' = cnt nonnil l /\ length l' = length l.
Proof.
  intros G Hp. subst l'.
  assert (HH : forall (P : wk -> bool),
               cnt P (set_nth l i {| wp := WDone o; went := went w |}) + b2n (P w) =
               cnt P l + b2n (P {| wp := WDone o; went := went w |})) by (intros P; now apply cnt_upd).
  repeat split; try (intros P); try apply length_set_nth.
  - specialize (HH isidle). unfold isidle in HH at 2 4. cbn [wp] in HH. rewrite Hp in HH. cbn in HH. lia.
  - specialize (HH active). unfold active in HH at 2 4. cbn [wp] in HH. rewrite Hp in HH. cbn in HH. lia.
  - specialize (HH (done_with P)). unfold nd. unfold done_with in HH at 2 4. cbn [wp] in HH. rewrite Hp in HH. cbn [b2n] in HH. lia.
  - specialize (HH notnilres). unfold notnilres in HH at 2 4. cbn [wp] in HH. rewrite Hp in HH. destruct o; cbn in *; lia.
  - specialize (HH wbad). unfold wbad in HH at 2 4. cbn [wp went] in HH. rewrite Hp in HH. lia.
  - specialize (HH nonnil). unfold nonnil in HH at 2 4. cbn [wp] in HH. rewrite Hp in HH. cbn in HH. lia.
Qed.

(* ------------------------------------------------------------------ *)
(* the invariant *)

(* exitErr summarises the outcomes recorded so far *)
Definition ErrRel (ee : outcome) (l : list wk) : Prop :=
  match ee with
  | ONil => nd notnil l = 0
  | OCanc => nd is_real l = 0 /\ 0 < nd is_canc l
  | OErr x => 0 < nd (is_err x) l
  end.

Definition PreSpawn (s : st) : Prop :=
  cnt active (wks s) = 0 /\ cnt isdone (wks s) = 0 /\ running s = 0 /\ exitErr s = ONil.
Definition Post (s : st) : Prop :=
  cnt isidle (wks s) = 0 /\ running s = cnt active (wks s) /\ ErrRel (exitErr s) (wks s).
(* stable facts about the values read in the read section *)
Definition Snap (s : st) (r : nat) (e : outcome) : Prop :=
  (r = 0 -> cnt active (wks s) = 0 /\ exitErr s = e) /\ (forall x, e = OErr x -> 0 < nd (is_err x) (wks s)).
(* stable facts about the result *)
Definition RetOK (s : st) (o : outcome) : Prop :=
  match o with
  | ONil => cnt notnilres (wks s) = 0
  | OCanc => cctx s = true \/ 0 < nd is_canc (wks s)
  | OErr x => 0 < nd (is_err x) (wks s)
  end.
(* zero- and one-entry calls *)
Definition InlRet (s : st) (o : outcome) : Prop :=
  (o = ONil /\ (wks s = [] \/ wks s = [mkw false])) \/ wks s = [{| wp := WDone o; went := 1 |}].

Definition Inv (s : st) : Prop :=
  bc_wf (bb s) /\ cnt wbad (wks s) = 0 /\
  (is_ret (cp s) = true -> subc s = true) /\ (subc s = true -> cctx s = true \/ is_ret (cp s) = true) /\
  match cp s with
  | CIdle => wks s = [] /\ running s = 0 /\ exitErr s = ONil
  | CInline => wks s = [{| wp := WInFn; went := 1 |}]
  | CStart => 2 <= length (wks s) /\ PreSpawn s
  | CSpawned k ch => 2 <= length (wks s) /\ Post s /\ k = cnt nonnil (wks s) /\ ch < nxt (bb s) /\
                     (closed (bb s) ch = true \/ (running s = k /\ exitErr s = ONil))
  | CSelect ch => 2 <= length (wks s) /\ Post s /\ ch < nxt (bb s) /\
                  (closed (bb s) ch = true \/ (0 < running s /\ is_real (exitErr s) = false))
  | CRead => 2 <= length (wks s) /\ Post s
  | CReadDone r e ch => 2 <= length (wks s) /\ Post s /\ ch < nxt (bb s) /\
                        (closed (bb s) ch = true \/ (running s = r /\ exitErr s = e)) /\ Snap s r e
  | CRet o => RetOK s o /\ cnt isidle (wks s) = 0 /\ (length (wks s) <= 1 -> InlRet s o)
  end.

Lemma init_inv : Inv init.
Proof. unfold Inv, init; cbn. repeat split; auto; discriminate. Qed.

Lemma errrel_record ee o l l' :
  (forall P, nd P l' = nd P l + b2n (P o)) -> ErrRel ee l -> ErrRel (record ee o) l'.
Proof.
  intros HN HE. pose proof (nd_real_le_notnil l) as H1. pose proof (nd_canc_le_notnil l) as H2.
  destruct ee as [| |x]; destruct o as [| |y]; unfold record; cbn [notnil is_nil is_canc negb andb orb]; unfold ErrRel in *;
    rewrite ?(HN notnil), ?(HN is_real), ?(HN is_canc), ?(HN (is_err x)), ?(HN (is_err y)); cbn [notnil is_nil is_real is_canc is_err negb b2n];
    rewrite ?Nat.eqb_refl; cbn [b2n]; lia.
Qed.

Lemma errrel_same ee l l' : (forall P, nd P l' = nd P l) -> ErrRel ee l -> ErrRel ee l'.
Proof. intros HN HE. destruct ee; unfold ErrRel in *; now rewrite !HN. Qed.

Ltac flds := cbn [bb running exitErr cctx subc cp wks is_ret].
Ltac inv_goal := unfold Inv; flds.
Ltac unf := unfold Post, PreSpawn, Snap, RetOK, InlRet in *; flds.

Lemma wret_facts l i w o : nth_error l i = Some w -> wp w = WRet o ->
  0 < cnt active l /\ 0 < cnt notnilres l.
Proof.
  intros G Ep. split; eapply nth_error_cnt_pos; eauto; unfold active, notnilres; now rewrite Ep.
Qed.
Lemma winfn_facts l i w : nth_error l i = Some w -> wp w = WInFn ->
  0 < cnt active l /\ 0 < cnt notnilres l.
Proof.
  intros G Ep. split; eapply nth_error_cnt_pos; eauto; unfold active, notnilres; now rewrite Ep.
Qed.

(* in a zero/one-entry call that has returned no worker is inside its function or at its gate *)
Lemma inlret_no_active s o i w : InlRet s o -> nth_error (wks s) i = Some w -> wp w = WInFn \/ (exists o', wp w = WRet o') -> False.
Proof.
  intros [[_ [H|H]]|H] G Hp; rewrite H in G.
  - destruct i; discriminate.
  - destruct i as [|i]; [|destruct i; discriminate]. inversion G; subst w. cbn in Hp. destruct Hp as [Hp|[o' Hp]]; discriminate.
  - destruct i as [|i]; [|destruct i; discriminate]. inversion G; subst w. cbn in Hp. destruct Hp as [Hp|[o' Hp]]; discriminate.
Qed.

Lemma step_inv s e : Inv s -> Inv (step s e).
Proof.
  intros HI. pose proof HI as (Hwf & Hbad & Hrs & Hsc & Hcp).
  destruct e as [fs| |i|v|i o|]; unfold step, step_gen.
  - (* Call *)
    destruct (cp s) eqn:Ecp; try exact HI. destruct Hcp as (Hw & Hr & He). cbn [is_ret] in Hsc.
    destruct fs as [|f [|f2 fs]].
    + unfold ret. inv_goal. unf. rewrite Hw. repeat split; auto.
    + destruct f; inv_goal; unf.
      * repeat split; auto; try discriminate.
      * repeat split; auto.
    + inv_goal. unf. rewrite mkw_wbad, mkw_active, mkw_done. repeat split; auto; try discriminate.
      cbn [map length]. lia.
  - (* StepC *)
    destruct (cp s) eqn:Ecp; try exact HI; cbn [is_ret] in Hsc, Hrs.
    + (* spawn section *)
      destruct Hcp as (Hlen & Ha & Hd & Hr & He).
      pose proof (getch_open (bb s) Hwf) as Hopen. pose proof (getch_wf (bb s) Hwf) as Hwf2.
      destruct (getch (bb s)) as [b' ch] eqn:EG. cbn [fst] in Hwf2. destruct Hopen as (Hlt & Hop & _).
      pose proof (nonnil_split (wks s)) as Hsp. pose proof (nd_le_done notnil (wks s)) as Hnd.
      inv_goal. unf. rewrite spawn_wbad, spawn_isidle, spawn_active, spawn_nonnil, map_length, He. unfold ErrRel. rewrite spawn_nd.
      repeat split; auto; try discriminate; try lia. right. split; [lia | reflexivity].
    + (* the check after the spawn section *)
      destruct Hcp as (Hlen & (HP1 & HP2 & HP3) & Hk & Hlt & Hch). cbn [negb]. destruct (Nat.eqb_spec k 0) as [Hk0|Hk0].
      * unfold ret. inv_goal. unf. pose proof (notnilres_le_nonnil (wks s)) as Hle.
        repeat split; auto; try lia.
      * unfold setcp. inv_goal. unf. repeat split; auto.
        destruct Hch as [Hch|[Hch1 Hch2]]; [now left | right]. rewrite Hch2. split; [lia | reflexivity].
    + (* read section *)
      destruct Hcp as (Hlen & (HP1 & HP2 & HP3)).
      pose proof (getch_open (bb s) Hwf) as Hopen. pose proof (getch_wf (bb s) Hwf) as Hwf2.
      destruct (getch (bb s)) as [b' ch] eqn:EG. cbn [fst] in Hwf2. destruct Hopen as (Hlt & Hop & _).
      inv_goal. unf. repeat split; auto; try discriminate; try lia.
      intros x Hx. rewrite Hx in HP3. exact HP3.
    + (* decide *)
      destruct Hcp as (Hlen & (HP1 & HP2 & HP3) & Hlt & Hch & HS1 & HS2).
      destruct (Nat.eqb_spec r 0) as [Hr0|Hr0]; cbn [orb].
      * destruct (HS1 Hr0) as [Hact Hee]. unfold ret. inv_goal. unf. rewrite Hee in HP3.
        pose proof (notnilres_split (wks s)) as Hsp.
        repeat split; auto; try lia. destruct e as [| |x]; unfold ErrRel in HP3; [lia | right; tauto | exact HP3].
      * destruct (is_real e) eqn:Ere.
        -- unfold ret. inv_goal. unf. repeat split; auto; try lia. destruct e as [| |x]; try discriminate. now apply HS2.
        -- unfold setcp. inv_goal. unf. repeat split; auto.
           destruct Hch as [Hch|[Hch1 Hch2]]; [now left | right]. rewrite Hch2. split; [lia | exact Ere].
  - (* StepW *)
    destruct (nth_error (wks s) i) as [w|] eqn:G; [|exact HI]. destruct (wp w) eqn:Ep; try exact HI.
    pose proof (upd_done _ _ _ _ G Ep) as (U1 & U2 & U3 & U4 & U5 & U6 & U7).
    destruct (wret_facts _ _ _ _ G Ep) as [Hact Hnn].
    set (l' := set_nth (wks s) i {| wp := WDone o; went := went w |}) in *.
    destruct (cp s) eqn:Ecp; cbn [is_ret] in Hsc, Hrs; inv_goal; unf.
    + destruct Hcp as (Hw & _). rewrite Hw in G. destruct i; discriminate.
    + destruct Hcp as (_ & Ha & _). lia.
    + destruct Hcp as (Hlen & (HP1 & HP2 & HP3) & Hk & Hlt & Hch).
      pose proof (errrel_record _ _ _ _ U3 HP3) as HE. pose proof (bcast_closes (bb s) ch Hlt) as Hcl.
      repeat split; auto; try apply bcast_wf; try lia.
    + destruct Hcp as (Hlen & (HP1 & HP2 & HP3) & Hlt & Hch).
      pose proof (errrel_record _ _ _ _ U3 HP3) as HE. pose proof (bcast_closes (bb s) ch Hlt) as Hcl.
      repeat split; auto; try apply bcast_wf; try lia.
    + destruct Hcp as (Hlen & (HP1 & HP2 & HP3)).
      pose proof (errrel_record _ _ _ _ U3 HP3) as HE.
      repeat split; auto; try apply bcast_wf; try lia.
    + destruct Hcp as (Hlen & (HP1 & HP2 & HP3) & Hlt & Hch & HS1 & HS2).
      pose proof (errrel_record _ _ _ _ U3 HP3) as HE. pose proof (bcast_closes (bb s) ch Hlt) as Hcl.
      repeat split; auto; try apply bcast_wf; try lia.
      intros x Hx. rewrite U3. specialize (HS2 x Hx). lia.
    + rewrite Hcp in G. destruct i as [|[|i]]; try discriminate. inversion G; subst w. discriminate.
    + destruct Hcp as (HR & Hid & HIn). repeat split; auto; try apply bcast_wf; try lia.
      * destruct o0 as [| |x]; [lia | destruct HR as [HR|HR]; [now left | right; rewrite U3; lia] | rewrite U3; lia].
      * intros Hl. rewrite U7 in Hl. exfalso. apply (inlret_no_active s o0 i w (HIn Hl) G). right. eauto.
  - (* Wake *)
    destruct (cp s) eqn:Ecp; try exact HI; cbn [is_ret] in Hsc, Hrs.
    destruct Hcp as (Hlen & (HP1 & HP2 & HP3) & Hlt & Hch). destruct v.
    + destruct (cctx s) eqn:Ec; [|exact HI]. unfold ret. inv_goal. unf. repeat split; auto. lia.
    + destruct (closed (bb s) ch) eqn:Ecl; [|exact HI]. unfold setcp. inv_goal. unf. repeat split; auto.
  - (* FnReturn *)
    destruct (nth_error (wks s) i) as [w|] eqn:G; [|exact HI]. destruct (wp w) eqn:Ep; try exact HI.
    pose proof (upd_ret _ _ _ o G Ep) as (U1 & U2 & U3 & U4 & U5 & U6 & U7).
    destruct (winfn_facts _ _ _ G Ep) as [Hact Hnn].
    destruct (cp s) eqn:Ecp; cbn [is_ret] in Hsc, Hrs.
    + destruct Hcp as (Hw & _). rewrite Hw in G. destruct i; discriminate.
    + destruct Hcp as (_ & Ha & _). lia.
    + set (l' := set_nth (wks s) i {| wp := WRet o; went := went w |}) in *. inv_goal. unf.
      destruct Hcp as (Hlen & (HP1 & HP2 & HP3) & Hk & Hlt & Hch).
      pose proof (errrel_same _ _ _ U3 HP3) as HE.
      repeat split; auto; try lia.
    + set (l' := set_nth (wks s) i {| wp := WRet o; went := went w |}) in *. inv_goal. unf.
      destruct Hcp as (Hlen & (HP1 & HP2 & HP3) & Hlt & Hch).
      pose proof (errrel_same _ _ _ U3 HP3) as HE.
      repeat split; auto; try lia.
    + set (l' := set_nth (wks s) i {| wp := WRet o; went := went w |}) in *. inv_goal. unf.
      destruct Hcp as (Hlen & (HP1 & HP2 & HP3)).
      pose proof (errrel_same _ _ _ U3 HP3) as HE.
      repeat split; auto; try lia.
    + set (l' := set_nth (wks s) i {| wp := WRet o; went := went w |}) in *. inv_goal. unf.
      destruct Hcp as (Hlen & (HP1 & HP2 & HP3) & Hlt & Hch & HS1 & HS2).
      pose proof (errrel_same _ _ _ U3 HP3) as HE.
      repeat split; auto; try lia.
      intros x Hx. rewrite U3. now apply HS2.
    + (* one-function path: the call returns what the function returned *)
      rewrite Hcp in G. destruct i as [|[|i]]; try discriminate. inversion G; subst w. rewrite Hcp.
      inv_goal. unf. cbn [set_nth went]. unfold nd, cnt, wbad. cbn.
      repeat split; auto.
      destruct o as [| |x]; cbn; auto. rewrite Nat.eqb_refl. cbn. lia.
    + set (l' := set_nth (wks s) i {| wp := WRet o; went := went w |}) in *. inv_goal. unf.
      destruct Hcp as (HR & Hid & HIn). repeat split; auto; try lia.
      * destruct o0 as [| |x]; [lia | now rewrite U3 | now rewrite U3].
      * intros Hl. rewrite U7 in Hl. exfalso. apply (inlret_no_active s o0 i w (HIn Hl) G). left. exact Ep.
  - (* CancelCaller *)
    destruct (cp s) eqn:Ecp; cbn [is_ret] in Hsc, Hrs; inv_goal; unf; repeat split; try tauto.
    destruct Hcp as (HR & Hid & HIn). destruct o; auto.
Qed.

Theorem run_inv es : Inv (run es).
Proof. unfold run. apply fold_inv; [apply step_inv | apply init_inv]. Qed.

(* ------------------------------------------------------------------ *)
(* consequences *)

Lemma nd_pos_exists P l : 0 < nd P l -> exists i w o, nth_error l i = Some w /\ wp w = WDone o /\ P o = true.
Proof.
  intros H. destruct (cnt_pos_exists _ _ H) as (i & w & G & Hd). exists i, w.
  unfold done_with in Hd. destruct (wp w) as [| | |o|o] eqn:Ep; try discriminate. now exists o.
Qed.

Lemma done_nd_pos P l i w o : nth_error l i = Some w -> wp w = WDone o -> P o = true -> 0 < nd P l.
Proof. intros G Ep HP. eapply nth_error_cnt_pos; eauto. unfold done_with. now rewrite Ep. Qed.

Lemma is_err_eq x o : is_err x o = true -> o = OErr x.
Proof. destruct o as [| |y]; try discriminate. cbn. intros H. apply Nat.eqb_eq in H. now subst. Qed.

(* clause 1: every function is entered at most once, a nil entry never; once the call has returned every
   function has been entered exactly once *)
Lemma each_nonnil_fn_once_inv s : Inv s ->
  (forall i w, nth_error (wks s) i = Some w -> went w <= 1 /\ (wp w = WNone -> went w = 0)) /\
  (forall o i w, cp s = CRet o -> nth_error (wks s) i = Some w -> wp w <> WNone -> went w = 1).
Proof.
  intros (_ & Hbad & _ & _ & Hcp). split.
  - intros i w G. pose proof (cnt_nth_false _ _ _ _ Hbad G) as Hb. unfold wbad in Hb.
    apply negb_false_iff, Nat.eqb_eq in Hb. rewrite Hb. split; [destruct (wp w); lia | now intros ->].
  - intros o i w Ecp G Hn. rewrite Ecp in Hcp. destruct Hcp as (_ & Hid & _).
    pose proof (cnt_nth_false _ _ _ _ Hbad G) as Hb. pose proof (cnt_nth_false _ _ _ _ Hid G) as Hi.
    unfold wbad in Hb. apply negb_false_iff, Nat.eqb_eq in Hb. rewrite Hb.
    unfold isidle in Hi. destruct (wp w); try reflexivity; [congruence | discriminate].
Qed.

(* clause 2 *)
Lemma nil_only_if_all_nil_inv s : Inv s ->
  cp s = CRet ONil -> forall i w, nth_error (wks s) i = Some w -> wp w = WNone \/ wp w = WDone ONil.
Proof.
  intros (_ & _ & _ & _ & Hcp) Ecp i w G. rewrite Ecp in Hcp. destruct Hcp as (HR & _).
  pose proof (cnt_nth_false _ _ _ _ HR G) as Hb. unfold notnilres in Hb.
  destruct (wp w) as [| | |o|o]; try discriminate; [now left | destruct o; try discriminate; now right].
Qed.

(* clause 3, first half: an error result is an error some function returned (and recorded) *)
Lemma error_is_some_fn_error_inv s x : Inv s ->
  cp s = CRet (OErr x) -> exists i w, nth_error (wks s) i = Some w /\ wp w = WDone (OErr x).
Proof.
  intros (_ & _ & _ & _ & Hcp) Ecp. rewrite Ecp in Hcp. destruct Hcp as (HR & _).
  destruct (nd_pos_exists _ _ HR) as (i & w & o & G & Ep & Ho). apply is_err_eq in Ho. subst o. now exists i, w.
Qed.

(* clause 3, second half, at the moment of the return: if some function has returned a non-Canceled error by
   then, the result is a non-Canceled error -- unless the caller's context is cancelled and the result is Canceled *)
Ltac noret := let E := fresh "E" in intros E; first [congruence | discriminate | rewrite E in *; discriminate].

Lemma fn_error_not_masked_inv s e o : Inv s ->
  let s' := step s e in
  is_ret (cp s) = false -> cp s' = CRet o ->
  (exists i w x, nth_error (wks s') i = Some w /\ (wp w = WRet (OErr x) \/ wp w = WDone (OErr x))) ->
  is_real o = true \/ (o = OCanc /\ cctx s' = true).
Proof.
  cbn. intros (_ & _ & _ & _ & Hcp) Hnr Ecp' (i & w & x & G & Hw).
  revert Ecp' G. destruct e as [fs| |j|v|j o'|]; unfold step, step_gen.
  - destruct (cp s) as [| |k ch|ch| |r e0 ch| |o0] eqn:Ecp; try noret. destruct Hcp as (Hwk & _).
    destruct fs as [|f [|f2 fs]]; flds.
    + unfold ret; flds. rewrite Hwk. intros _ G. destruct i; discriminate.
    + destruct f; flds; try discriminate. intros _ G. destruct i as [|[|i]]; try discriminate. inversion G; subst w.
      cbn in Hw. destruct Hw; discriminate.
    + discriminate.
  - destruct (cp s) as [| |k ch|ch| |r e0 ch| |o0] eqn:Ecp; try noret.
    + destruct (getch (bb s)); flds. discriminate.
    + destruct Hcp as (_ & _ & Hk & _). destruct (Nat.eqb_spec k 0) as [Hk0|Hk0]; unfold ret, setcp; flds; [|discriminate].
      intros _ G. exfalso. assert (0 < cnt nonnil (wks s)); [|lia].
      eapply nth_error_cnt_pos; eauto. unfold nonnil. destruct Hw as [-> | ->]; reflexivity.
    + destruct (getch (bb s)); flds. discriminate.
    + destruct Hcp as (_ & (HP1 & HP2 & HP3) & _ & _ & HS1 & HS2).
      destruct (Nat.eqb_spec r 0) as [Hr0|Hr0]; cbn [orb]; unfold ret, setcp; flds.
      * intros E G. inversion E; subst o. destruct (HS1 Hr0) as [Hact Hee]. left. rewrite <- Hee.
        destruct Hw as [Hw|Hw].
        -- exfalso. assert (0 < cnt active (wks s)); [|lia]. eapply nth_error_cnt_pos; eauto. unfold active. now rewrite Hw.
        -- pose proof (done_nd_pos is_real _ _ _ _ G Hw eq_refl) as Hpos.
           pose proof (nd_real_le_notnil (wks s)). unfold ErrRel in HP3. destruct (exitErr s); [lia | lia | reflexivity].
      * destruct (is_real e0) eqn:Ere; flds; [|discriminate]. intros E _. inversion E; subst o. now left.
  - destruct (nth_error (wks s) j) as [w0|]; [|intros E; rewrite E in Hnr; discriminate].
    destruct (wp w0); flds; intros E; rewrite E in Hnr; discriminate.
  - destruct (cp s) as [| |k ch|ch| |r e0 ch| |o0] eqn:Ecp; try noret. destruct v.
    + destruct (cctx s) eqn:Ec; unfold ret; flds; [|noret]. intros E _. inversion E; subst o. now right.
    + destruct (closed (bb s) ch); unfold setcp; flds; noret.
  - destruct (nth_error (wks s) j) as [w0|] eqn:G0; [|intros E; rewrite E in Hnr; discriminate].
    destruct (wp w0) eqn:Ep0; try (intros E; rewrite E in Hnr; discriminate).
    destruct (cp s) as [| |k ch|ch| |r e0 ch| |o0] eqn:Ecp; flds; try discriminate.
    rewrite Hcp in *. destruct j as [|[|j]]; try discriminate. inversion G0; subst w0. cbn [set_nth went].
    intros E G. inversion E; subst o. destruct i as [|[|i]]; try discriminate. inversion G; subst w. cbn in Hw.
    destruct Hw as [Hw|Hw]; inversion Hw. now left.
  - flds. intros E. rewrite E in Hnr. discriminate.
Qed.

(* clause 4 *)
Lemma canceled_only_if_ctx_or_fn_canceled_inv s : Inv s ->
  cp s = CRet OCanc -> cctx s = true \/ exists i w, nth_error (wks s) i = Some w /\ wp w = WDone OCanc.
Proof.
  intros (_ & _ & _ & _ & Hcp) Ecp. rewrite Ecp in Hcp. destruct Hcp as ([HR|HR] & _); [now left | right].
  destruct (nd_pos_exists _ _ HR) as (i & w & o & G & Ep & Ho). destruct o; try discriminate. now exists i, w.
Qed.

(* converse direction 1: a cancelled context is a way out of the select *)
Theorem canceled_if_ctx_case s ch : cp s = CSelect ch -> cctx s = true -> cp (step s (Wake true)) = CRet OCanc.
Proof. intros E1 E2. unfold step, step_gen. rewrite E1, E2. reflexivity. Qed.

(* converse direction 2: every function finished, some with Canceled, none with another error: the result is Canceled *)
Theorem canceled_if_fn_canceled es o :
  let s := run es in
  cp s = CRet o ->
  (forall i w, nth_error (wks s) i = Some w -> wp w = WNone \/ exists o', wp w = WDone o' /\ is_real o' = false) ->
  (exists i w, nth_error (wks s) i = Some w /\ wp w = WDone OCanc) ->
  o = OCanc.
Proof.
  cbn. intros Ecp Hall (i & w & G & Ep). destruct o as [| |x]; [|reflexivity|].
  - destruct (nil_only_if_all_nil_inv _ (run_inv es) Ecp i w G) as [H|H]; congruence.
  - destruct (error_is_some_fn_error_inv _ x (run_inv es) Ecp) as (j & w' & G' & Ep').
    destruct (Hall j w' G') as [H|(o' & H & Hr)]; [congruence|]. rewrite Ep' in H. inversion H; subst o'. discriminate.
Qed.

(* clause 5 *)
Theorem subctx_cancelled_after_return es :
  let s := run es in
  (is_ret (cp s) = true -> subc s = true) /\ (subc s = true -> cctx s = true \/ is_ret (cp s) = true).
Proof. cbn. destruct (run_inv es) as (_ & _ & H1 & H2 & _). now split. Qed.

(* clause 6: at quiescence a caller blocked in its select has a function still inside user code, no recorded
   non-Canceled error, and its context is not cancelled; a caller inside the single function: that function has not returned *)
Lemma caller_quiescent_inv s : Inv s ->
  quiescent s = true ->
  (forall ch, cp s = CSelect ch ->
     cctx s = false /\
     (exists i w, nth_error (wks s) i = Some w /\ wp w = WInFn) /\
     (forall i w x, nth_error (wks s) i = Some w -> wp w <> WDone (OErr x))) /\
  (cp s = CInline -> wks s = [{| wp := WInFn; went := 1 |}]).
Proof.
  intros (_ & _ & _ & _ & Hcp) Hq.
  unfold quiescent in Hq. apply andb_true_iff in Hq as [Hq Hq3]. apply andb_true_iff in Hq as [Hq1 Hq2].
  split; [|intros Ecp; now rewrite Ecp in Hcp].
  intros ch Ecp. rewrite Ecp in Hcp. destruct Hcp as (_ & (HP1 & HP2 & HP3) & _ & Hch).
  unfold c_ready in Hq3. rewrite Ecp in Hq3. apply negb_true_iff, orb_false_iff in Hq3 as [Hcl Hcc].
  destruct Hch as [Hch|[Hrun Hre]]; [congruence|]. split; [exact Hcc|]. split.
  - rewrite HP2 in Hrun. destruct (cnt_pos_exists _ _ Hrun) as (i & w & G & Ha). exists i, w. split; [exact G|].
    rewrite forallb_forall in Hq2. specialize (Hq2 w (nth_error_In _ _ G)). unfold active in Ha. unfold w_at_gate in Hq2.
    destruct (wp w); try discriminate. reflexivity.
  - intros i w x G Ep. pose proof (done_nd_pos is_real _ _ _ _ G Ep eq_refl) as Hpos.
    pose proof (nd_real_le_notnil (wks s)). unfold ErrRel in HP3. destruct (exitErr s); [lia | lia | discriminate].
Qed.

(* the one-function path: the call IS that function's result, whatever the state of the caller's context *)
Theorem single_function_is_its_result es :
  let s := run es in
  (forall o, cp s = CInline -> cp (step s (FnReturn 0 o)) = CRet o) /\
  (forall w o, wks s = [w] -> cp s = CRet o -> (wp w = WNone /\ o = ONil) \/ wp w = WDone o).
Proof.
  cbn. destruct (run_inv es) as (_ & _ & _ & _ & Hcp). set (s := run es) in *. split.
  - intros o Ecp. rewrite Ecp in Hcp. unfold step, step_gen. rewrite Hcp, Ecp. reflexivity.
  - intros w o Hw Ecp. rewrite Ecp in Hcp. destruct Hcp as (_ & _ & HIn). rewrite Hw in HIn. specialize (HIn (le_n 1)).
    destruct HIn as [[Ho [H|H]]|H]; rewrite Hw in H; inversion H; subst; cbn; auto.
Qed.


Theorem each_nonnil_fn_once es :
  let s := run es in
  (forall i w, nth_error (wks s) i = Some w -> went w <= 1 /\ (wp w = WNone -> went w = 0)) /\
  (forall o i w, cp s = CRet o -> nth_error (wks s) i = Some w -> wp w <> WNone -> went w = 1).
Proof. exact (each_nonnil_fn_once_inv _ (run_inv es)). Qed.

Theorem nil_only_if_all_nil es :
  let s := run es in
  cp s = CRet ONil -> forall i w, nth_error (wks s) i = Some w -> wp w = WNone \/ wp w = WDone ONil.
Proof. exact (nil_only_if_all_nil_inv _ (run_inv es)). Qed.

Theorem error_is_some_fn_error es x :
  let s := run es in
  cp s = CRet (OErr x) -> exists i w, nth_error (wks s) i = Some w /\ wp w = WDone (OErr x).
Proof. exact (error_is_some_fn_error_inv _ x (run_inv es)). Qed.

Theorem fn_error_not_masked es e o :
  let s := run es in let s' := step s e in
  is_ret (cp s) = false -> cp s' = CRet o ->
  (exists i w x, nth_error (wks s') i = Some w /\ (wp w = WRet (OErr x) \/ wp w = WDone (OErr x))) ->
  is_real o = true \/ (o = OCanc /\ cctx s' = true).
Proof. exact (fn_error_not_masked_inv _ e o (run_inv es)). Qed.

Theorem canceled_only_if_ctx_or_fn_canceled es :
  let s := run es in
  cp s = CRet OCanc -> cctx s = true \/ exists i w, nth_error (wks s) i = Some w /\ wp w = WDone OCanc.
Proof. exact (canceled_only_if_ctx_or_fn_canceled_inv _ (run_inv es)). Qed.

Theorem caller_quiescent es :
  let s := run es in
  quiescent s = true ->
  (forall ch, cp s = CSelect ch ->
     cctx s = false /\
     (exists i w, nth_error (wks s) i = Some w /\ wp w = WInFn) /\
     (forall i w x, nth_error (wks s) i = Some w -> wp w <> WDone (OErr x))) /\
  (cp s = CInline -> wks s = [{| wp := WInFn; went := 1 |}]).
Proof. exact (caller_quiescent_inv _ (run_inv es)). Qed.

(* ---- D12: the pinned check (shared counter read after the spawn section) returns nil although a function failed ---- *)
Theorem pinned_refuted :
  let s := run_pinned d12_witness in
  cp s = CRet ONil /\ exists w, nth_error (wks s) 0 = Some w /\ wp w = WDone (OErr 0).
Proof. vm_compute. split; [reflexivity|]. eexists. split; reflexivity. Qed.

(* the repaired code on the same schedule goes on to its select, finds the wait channel closed, reads and returns the error *)
Theorem witness_repaired :
  cp (run d12_witness) = CSelect 0 /\ cp (run (d12_witness ++ [Wake false; StepC; StepC])) = CRet (OErr 0).
Proof. vm_compute. split; reflexivity. Qed.

(* ------------------------------------------------------------------ *)
(* the monitors accept every trace of the model (ties Spec.mon to the model) *)
From Util Require Import CCall.Spec.

Definition outc (w : wk) : N := match wp w with WRet o | WDone o => code_out o | _ => 0%N end.
Definition cxf (s : st) (w : wk) : N := if Nat.ltb 0 (went w) && subc s then 1%N else 0%N.
Definition wrow (s : st) (w : wk) : row := ((nonnil w, outc w), (wstat w, N.of_nat (went w), cxf s w)).

(* monitor state vs model state *)
Definition R (s : st) (m : mst) : Prop :=
  mfs m = map nonnil (wks s) /\ mouts m = map outc (wks s) /\ mcanc m = cctx s /\ mret m = is_ret (cp s).

Lemma chunk3_flat s l : chunk3 (flat_map (wobs s) l) = map (fun w => (wstat w, N.of_nat (went w), cxf s w)) l.
Proof. induction l as [|h t IH]; [reflexivity|]. cbn [flat_map map]. unfold wobs at 1. cbn [app chunk3]. now rewrite IH. Qed.

Lemma combine_map2 {A B C} (f : A -> B) (g : A -> C) l : combine (map f l) (map g l) = map (fun x => (f x, g x)) l.
Proof. induction l as [|h t IH]; [reflexivity|]. cbn. now rewrite IH. Qed.

Lemma rows_eq s m : R s m -> combine (combine (mfs m) (mouts m)) (chunk3 (skipn 2 (obs s))) = map (wrow s) (wks s).
Proof.
  intros (H1 & H2 & _). rewrite H1, H2. unfold obs. cbn [skipn]. now rewrite chunk3_flat, !combine_map2.
Qed.

Lemma existsb_map {A B} (f : B -> bool) (g : A -> B) l : existsb f (map g l) = existsb (fun x => f (g x)) l.
Proof. induction l as [|h t IH]; [reflexivity|]. cbn. now rewrite IH. Qed.
Lemma forallb_map {A B} (f : B -> bool) (g : A -> B) l : forallb f (map g l) = forallb (fun x => f (g x)) l.
Proof. induction l as [|h t IH]; [reflexivity|]. cbn. now rewrite IH. Qed.
Lemma existsb_all_false {A} (f : A -> bool) l : (forall x, In x l -> f x = false) -> existsb f l = false.
Proof.
  intros H. destruct (existsb f l) eqn:E; [|reflexivity]. apply existsb_exists in E as (x & Hx & Hf).
  rewrite (H x Hx) in Hf. discriminate.
Qed.

Lemma code_out_pos o : code_out o <> 0%N.
Proof. destruct o; cbn [code_out]; lia. Qed.
Lemma code_out_real o : N.leb 3 (code_out o) = is_real o.
Proof. destruct o; cbn [code_out is_real]; [reflexivity | reflexivity |]. apply N.leb_le. lia. Qed.
Lemma code_out_inj o o' : code_out o = code_out o' -> o = o'.
Proof. destruct o, o'; cbn [code_out]; intros H; try lia; try reflexivity. f_equal. lia. Qed.
Lemma dec_code oc o : dec_out oc = Some o -> code_out o = oc.
Proof.
  unfold dec_out. destruct (N.eqb_spec oc 0); [discriminate|]. destruct (N.eqb_spec oc 1); [intros H; inversion H; now subst|].
  destruct (N.eqb_spec oc 2); intros H; inversion H; subst; cbn [code_out]; [reflexivity | lia].
Qed.

Lemma cretc_ret p : negb (N.eqb (cretc p) 0) = is_ret p.
Proof. destruct p; try reflexivity. cbn [cretc is_ret]. pose proof (code_out_pos o). now destruct (N.eqb_spec (code_out o) 0). Qed.

(* worker-level facts, with In *)
Lemma in_went_le s w : Inv s -> In w (wks s) -> went w <= 1.
Proof.
  intros HI Hin. apply In_nth_error in Hin as (i & G). exact (proj1 (proj1 (each_nonnil_fn_once_inv s HI) i w G)).
Qed.
Lemma in_ret_went s o w : Inv s -> cp s = CRet o -> In w (wks s) -> nonnil w = true -> went w = 1.
Proof.
  intros HI E Hin Hn. apply In_nth_error in Hin as (i & G). apply (proj2 (each_nonnil_fn_once_inv s HI) o i w E G).
  intros Hp. unfold nonnil in Hn. rewrite Hp in Hn. discriminate.
Qed.
Lemma in_retnil_outc s w : Inv s -> cp s = CRet ONil -> In w (wks s) -> nonnil w = true -> outc w = 1%N.
Proof.
  intros HI E Hin Hn. apply In_nth_error in Hin as (i & G). destruct (nil_only_if_all_nil_inv s HI E i w G) as [Hp|Hp].
  - unfold nonnil in Hn. rewrite Hp in Hn. discriminate.
  - unfold outc. now rewrite Hp.
Qed.

(* ---- structure of a harness-level step ---- *)
Lemma step_ret_stable s e o : cp s = CRet o -> cp (step s e) = CRet o.
Proof.
  intros E. destruct e as [fs| |i|v|i o'|]; unfold step, step_gen.
  - now rewrite E.
  - now rewrite E.
  - destruct (nth_error (wks s) i) as [w|]; [|exact E]. destruct (wp w); flds; exact E.
  - now rewrite E.
  - destruct (nth_error (wks s) i) as [w|]; [|exact E]. destruct (wp w); try exact E. rewrite E. flds. reflexivity.
  - flds. exact E.
Qed.

Lemma settle_cases c s : settle c s = s \/ exists b, settle c s = step s (Wake b).
Proof.
  unfold settle. destruct (cp s); auto. destruct (cctx s && closed (bb s) ch); [right; eauto|].
  destruct (cctx s); [right; eauto|]. destruct (closed (bb s) ch); [right; eauto | now left].
Qed.

Lemma wake_same s b : wks (step s (Wake b)) = wks s /\ cctx (step s (Wake b)) = cctx s /\ bb (step s (Wake b)) = bb s.
Proof.
  unfold step, step_gen, ret, setcp. destruct (cp s); auto. destruct b.
  - destruct (cctx s) eqn:Ec; flds; auto.
  - destruct (closed (bb s) ch) eqn:Ecl; flds; auto.
Qed.

Lemma settle_same c s : wks (settle c s) = wks s /\ cctx (settle c s) = cctx s.
Proof. destruct (settle_cases c s) as [->|[b ->]]; [auto|]. destruct (wake_same s b) as (H1 & H2 & _). auto. Qed.

Lemma settle_inv c s : Inv s -> Inv (settle c s).
Proof. intros HI. destruct (settle_cases c s) as [->|[b ->]]; [exact HI | now apply step_inv]. Qed.

Lemma settle_ready c s : c_ready (settle c s) = false.
Proof.
  unfold settle. destruct (cp s) eqn:E; try (unfold c_ready; rewrite E; reflexivity).
  destruct (cctx s) eqn:Ec; destruct (closed (bb s) ch) eqn:Ecl; cbn [andb].
  - destruct (N.eqb c 1); unfold step, step_gen; rewrite E, ?Ec, ?Ecl; reflexivity.
  - unfold step, step_gen. rewrite E, Ec. reflexivity.
  - unfold step, step_gen. rewrite E, Ecl. reflexivity.
  - unfold c_ready. rewrite E, Ec, Ecl. reflexivity.
Qed.

Lemma settle_ret c s o : cp s = CRet o -> settle c s = s.
Proof. intros E. unfold settle. now rewrite E. Qed.

Lemma settle_ret_stable c s : is_ret (cp s) = true -> is_ret (cp (settle c s)) = true.
Proof. destruct (cp s) eqn:E; try discriminate. intros _. rewrite (settle_ret c s o E), E. reflexivity. Qed.

(* at the harness-level step at which the call returns *)
Lemma hstep_moment s e c o :
  Inv s -> is_ret (cp s) = false ->
  let s' := settle c (step s e) in
  cp s' = CRet o ->
  (exists i w x, nth_error (wks s') i = Some w /\ (wp w = WRet (OErr x) \/ wp w = WDone (OErr x))) ->
  is_real o = true \/ (o = OCanc /\ cctx s' = true).
Proof.
  cbn. intros HI Hnr. set (s1 := step s e). destruct (is_ret (cp s1)) eqn:E1.
  - destruct (cp s1) as [| | | | | | |o1] eqn:Ecp1; try discriminate. rewrite (settle_ret c s1 o1 Ecp1).
    subst s1. now apply fn_error_not_masked_inv.
  - destruct (settle_cases c s1) as [->|[b ->]].
    + intros E. rewrite E in E1. discriminate.
    + apply fn_error_not_masked_inv; [now apply step_inv | exact E1].
Qed.

(* ---- the monitor's state follows the model ---- *)
Lemma map_set_nth {A B} (f : A -> B) l i v : map f (set_nth l i v) = set_nth (map f l) i (f v).
Proof. revert i; induction l as [|h t IH]; intros [|i]; cbn; auto. now rewrite IH. Qed.
Lemma set_nth_same {A} (l : list A) i w : nth_error l i = Some w -> set_nth l i w = l.
Proof. revert i; induction l as [|h t IH]; intros [|i] G; cbn in *; try discriminate. - now inversion G. - now rewrite IH. Qed.
Lemma map_set_nth_same {A B} (f : A -> B) l i w v : nth_error l i = Some w -> f v = f w -> map f (set_nth l i v) = map f l.
Proof. intros G E. rewrite map_set_nth, E. apply set_nth_same. now apply map_nth_error. Qed.

Definition RW (s : st) (m : mst) : Prop :=
  mfs m = map nonnil (wks s) /\ mouts m = map outc (wks s) /\ mcanc m = cctx s.

Lemma mkw_maps bs : map nonnil (map mkw bs) = bs /\ map outc (map mkw bs) = map (fun _ => 0%N) bs.
Proof. induction bs as [|b t [IH1 IH2]]; [auto|]. cbn [map]. rewrite IH1, IH2. now destruct b. Qed.

Lemma call_wks s bs : cp s = CIdle -> wks s = [] ->
  let s1 := step s (Call bs) in
  map nonnil (wks s1) = bs /\ map outc (wks s1) = map (fun _ => 0%N) bs /\ cctx s1 = cctx s.
Proof.
  intros E Hw. cbn. unfold step, step_gen. rewrite E. destruct bs as [|b [|b2 bs]].
  - unfold ret; flds. rewrite Hw. auto.
  - destruct b; flds; auto.
  - flds. destruct (mkw_maps (b :: b2 :: bs)) as [H1 H2]. auto.
Qed.

Lemma stepc_maps s :
  map nonnil (wks (step s StepC)) = map nonnil (wks s) /\ map outc (wks (step s StepC)) = map outc (wks s) /\
  cctx (step s StepC) = cctx s.
Proof.
  unfold step, step_gen, ret, setcp. destruct (cp s); auto.
  - destruct (getch (bb s)). flds. rewrite !map_map. repeat split; apply map_ext; intros [p q]; now destruct p.
  - destruct (Nat.eqb k 0); flds; auto.
  - destruct (getch (bb s)). flds. auto.
  - destruct (Nat.eqb r 0 || is_real e); flds; auto.
Qed.

Lemma RW_step s m e ev c : Inv s -> RW s m -> decode s e = Some (ev, c) -> RW (settle c (step s ev)) (mev m e).
Proof.
  intros HI (H1 & H2 & H3) D. destruct (settle_same c (step s ev)) as [S1 S2]. unfold RW. rewrite S1, S2.
  unfold decode in D. unfold mev. destruct (parse e) as [[fs|a c'|i oc|]|]; try discriminate.
  - destruct (cp s) eqn:E; try discriminate. destruct (forallb (fun f => N.leb f 1) fs); [|discriminate].
    inversion D; subst ev c. destruct HI as (_ & _ & _ & _ & Hcp). rewrite E in Hcp. destruct Hcp as (Hw & _).
    destruct (call_wks s (map (N.eqb 1) fs) E Hw) as (C1 & C2 & C3). cbn [mfs mouts mcanc].
    rewrite C1, C2, C3, map_map. auto.
  - destruct (N.eqb a 0).
    + destruct (c_at_gate (cp s)); [|discriminate]. inversion D; subst ev c.
      destruct (stepc_maps s) as (C1 & C2 & C3). rewrite C1, C2, C3. auto.
    + destruct (nth_error (wks s) (pred (N.to_nat a))) as [w|] eqn:G; [|discriminate].
      destruct (w_at_gate w) eqn:Eg; [|discriminate]. inversion D; subst ev c.
      unfold w_at_gate in Eg. destruct (wp w) as [| | |o|o] eqn:Ep; try discriminate.
      unfold step, step_gen. rewrite G, Ep. flds.
      rewrite (map_set_nth_same nonnil _ _ w _ G), (map_set_nth_same outc _ _ w _ G); auto.
      * unfold outc. cbn [wp]. now rewrite Ep.
      * unfold nonnil. cbn [wp]. now rewrite Ep.
  - destruct (dec_out oc) as [o|] eqn:Ed; [|discriminate].
    destruct (nth_error (wks s) (N.to_nat i)) as [w|] eqn:G; [|discriminate].
    destruct (wp w) eqn:Ep; try discriminate. inversion D; subst ev c. cbn [mfs mouts mcanc].
    apply dec_code in Ed. unfold step, step_gen. rewrite G, Ep.
    assert (Hn : forall p, p = WRet o \/ p = WDone o ->
                 map nonnil (set_nth (wks s) (N.to_nat i) {| wp := p; went := went w |}) = map nonnil (wks s)).
    { intros p Hp. apply (map_set_nth_same nonnil _ _ w _ G). unfold nonnil. cbn [wp]. rewrite Ep. destruct Hp as [-> | ->]; reflexivity. }
    assert (Ho : forall p, p = WRet o \/ p = WDone o ->
                 map outc (set_nth (wks s) (N.to_nat i) {| wp := p; went := went w |}) = set_nth (map outc (wks s)) (N.to_nat i) oc).
    { intros p Hp. rewrite map_set_nth. f_equal. unfold outc. cbn [wp]. destruct Hp as [-> | ->]; exact Ed. }
    destruct (cp s); flds; rewrite ?Hn, ?Ho, H1, H2; auto.
  - destruct (cctx s); [discriminate|]. inversion D; subst ev c. unfold step, step_gen. flds. cbn [mfs mouts mcanc]. auto.
Qed.

Lemma rows_eq' s m : RW s m -> combine (combine (mfs m) (mouts m)) (chunk3 (skipn 2 (obs s))) = map (wrow s) (wks s).
Proof.
  intros (H1 & H2 & _). rewrite H1, H2. unfold obs. cbn [skipn]. now rewrite chunk3_flat, !combine_map2.
Qed.

(* ---- the six clauses are false on the model's own observations ---- *)
Lemma cl1_ok s first : Inv s -> cl1 first (cretc (cp s)) (map (wrow s) (wks s)) = false.
Proof.
  intros HI. unfold cl1. rewrite !existsb_map. apply orb_false_iff. split.
  - apply existsb_all_false. intros w Hin. unfold wrow, r_ent. cbn [fst snd].
    pose proof (in_went_le s w HI Hin). apply N.ltb_ge. lia.
  - destruct first; [|reflexivity]. cbn [andb]. destruct (N.eqb_spec (cretc (cp s)) 1) as [E|E]; [|reflexivity]. cbn [andb].
    destruct (cp s) as [| | | | | | |o] eqn:Ecp; try discriminate. cbn [cretc] in E.
    apply existsb_all_false. intros w Hin. unfold wrow, r_fn, r_ent. cbn [fst snd].
    destruct (nonnil w) eqn:En; [|reflexivity]. rewrite (in_ret_went s o w HI Ecp Hin En). reflexivity.
Qed.

Lemma cl2_ok s first : Inv s -> cl2 first (cretc (cp s)) (map (wrow s) (wks s)) = false.
Proof.
  intros HI. unfold cl2. rewrite existsb_map. destruct first; [|reflexivity]. cbn [andb].
  destruct (N.eqb_spec (cretc (cp s)) 1) as [E|E]; [|reflexivity]. cbn [andb].
  destruct (cp s) as [| | | | | | |o] eqn:Ecp; try discriminate. cbn [cretc] in E.
  assert (o = ONil) by (apply code_out_inj; exact E). subst o.
  apply existsb_all_false. intros w Hin. unfold wrow, r_fn, r_out. cbn [fst snd].
  destruct (nonnil w) eqn:En; [|reflexivity]. rewrite (in_retnil_outc s w HI Ecp Hin En). reflexivity.
Qed.

Lemma outc_real w : N.leb 3 (outc w) = true -> exists x, wp w = WRet (OErr x) \/ wp w = WDone (OErr x).
Proof.
  unfold outc. destruct (wp w) as [| | |o|o]; try discriminate; rewrite code_out_real; destruct o; try discriminate; eauto.
Qed.

Lemma cl3_ok s first :
  Inv s ->
  (first = true -> forall o, cp s = CRet o ->
     (exists i w x, nth_error (wks s) i = Some w /\ (wp w = WRet (OErr x) \/ wp w = WDone (OErr x))) ->
     is_real o = true \/ (o = OCanc /\ cctx s = true)) ->
  cl3 first (cretc (cp s)) (cctx s) (map outc (wks s)) = false.
Proof.
  intros HI HM. unfold cl3. destruct first; [|reflexivity]. cbn [andb]. specialize (HM eq_refl).
  apply orb_false_iff. split.
  - destruct (N.leb 3 (cretc (cp s))) eqn:E3; [|reflexivity]. cbn [andb]. apply negb_false_iff.
    destruct (cp s) as [| | | | | | |o] eqn:Ecp; try discriminate. cbn [cretc] in *. rewrite code_out_real in E3.
    destruct o as [| |x]; try discriminate.
    destruct (error_is_some_fn_error_inv s x HI Ecp) as (i & w & G & Ep).
    apply existsb_exists. exists (code_out (OErr x)). split; [|apply N.eqb_refl].
    apply filter_In. split; [|now rewrite code_out_real]. apply in_map_iff. exists w. split; [|eapply nth_error_In; eauto].
    unfold outc. now rewrite Ep.
  - destruct (filter (N.leb 3) (map outc (wks s))) as [|y t] eqn:EF; [reflexivity|]. cbn [negb andb].
    assert (Hy : In y (filter (N.leb 3) (map outc (wks s)))) by (rewrite EF; now left).
    apply filter_In in Hy as [Hy1 Hy2]. apply in_map_iff in Hy1 as (w & Hw & Hin). subst y.
    destruct (outc_real w Hy2) as (x & Hx). apply In_nth_error in Hin as (i & G).
    destruct (cp s) as [| | | | | | |o] eqn:Ecp; try reflexivity. cbn [cretc].
    destruct (HM o eq_refl (ex_intro _ i (ex_intro _ w (ex_intro _ x (conj G Hx))))) as [Hr|[Ho Hc]].
    + destruct o; try discriminate. cbn [code_out]. apply orb_false_iff. split; [apply N.eqb_neq; lia|].
      apply andb_false_iff. left. apply N.eqb_neq. lia.
    + subst o. rewrite Hc. reflexivity.
Qed.

Lemma cl4_ok s first : Inv s -> cl4 first (cretc (cp s)) (cctx s) (map outc (wks s)) = false.
Proof.
  intros HI. unfold cl4. destruct first; [|reflexivity]. cbn [andb].
  destruct (N.eqb_spec (cretc (cp s)) 2) as [E|E]; [|reflexivity]. cbn [andb].
  destruct (cp s) as [| | | | | | |o] eqn:Ecp; try discriminate. cbn [cretc] in E.
  assert (o = OCanc) by (apply code_out_inj; exact E). subst o. apply negb_false_iff.
  destruct (canceled_only_if_ctx_or_fn_canceled_inv s HI Ecp) as [Hc|(i & w & G & Ep)]; [now rewrite Hc|].
  apply orb_true_iff. right. apply existsb_exists. exists 2%N. split; [|reflexivity].
  apply in_map_iff. exists w. split; [unfold outc; now rewrite Ep | eapply nth_error_In; eauto].
Qed.

Lemma cl5_ok s : Inv s -> cl5 (cretc (cp s)) (map (wrow s) (wks s)) = false.
Proof.
  intros HI. unfold cl5. rewrite cretc_ret, existsb_map. destruct (is_ret (cp s)) eqn:Er; [|reflexivity]. cbn [andb].
  destruct HI as (_ & _ & Hrs & _). specialize (Hrs Er).
  apply existsb_all_false. intros w _. unfold wrow, r_ent, r_cx, cxf. cbn [fst snd]. rewrite Hrs, andb_true_r.
  destruct (went w) as [|k]; [reflexivity|]. change (Nat.ltb 0 (S k)) with true. cbn [N.eqb Pos.eqb negb]. apply andb_false_r.
Qed.

Lemma cl6_ok s : Inv s -> c_ready s = false ->
  cl6 (cstat (cp s)) (cctx s) (length (map nonnil (wks s))) (map (wrow s) (wks s)) = false.
Proof.
  intros HI Hnr. unfold cl6. rewrite !existsb_map, forallb_map, map_length.
  assert (H9 : N.eqb (cstat (cp s)) 9 = false) by (destruct (cp s); reflexivity). rewrite H9. cbn [orb].
  destruct (N.eqb_spec (cstat (cp s)) 2) as [E2|E2]; [|now rewrite andb_false_r].
  destruct (existsb (fun x => N.eqb (r_stat (wrow s x)) 1) (wks s)) eqn:Eg; [now rewrite !andb_false_r|].
  assert (Hq : quiescent s = true).
  { unfold quiescent. rewrite Hnr. cbn [negb]. rewrite andb_true_r. apply andb_true_iff. split.
    - destruct (cp s); try discriminate; reflexivity.
    - apply forallb_forall. intros w Hin. apply negb_true_iff.
      destruct (w_at_gate w) eqn:Ew; [|reflexivity]. exfalso.
      assert (existsb (fun x => N.eqb (r_stat (wrow s x)) 1) (wks s) = true); [|congruence].
      apply existsb_exists. exists w. split; [exact Hin|]. unfold wrow, r_stat, wstat. cbn [fst snd].
      unfold w_at_gate in Ew. destruct (wp w); try discriminate. reflexivity. }
  destruct (caller_quiescent_inv s HI Hq) as [HS HL].
  rewrite E2. cbn [N.eqb negb andb Pos.eqb].
  destruct (cp s) as [| | |ch| | | |] eqn:Ecp; try discriminate.
  - destruct (HS ch eq_refl) as (Hc & (i & w & G & Ep) & Hne).
    destruct HI as (_ & _ & _ & _ & Hcp). rewrite Ecp in Hcp. destruct Hcp as (Hlen & _).
    destruct (Nat.leb_spec (length (wks s)) 1) as [Hl|Hl]; [lia|]. rewrite Hc. cbn [orb].
    apply orb_false_iff. split.
    + destruct (forallb (fun x => negb (r_fn (wrow s x)) || N.eqb (r_stat (wrow s x)) 4) (wks s)) eqn:EA; [|reflexivity].
      rewrite forallb_forall in EA. specialize (EA w (nth_error_In _ _ G)).
      unfold wrow, r_fn, r_stat, nonnil, wstat in EA. cbn [fst snd] in EA. rewrite Ep in EA. discriminate.
    + apply existsb_all_false. intros w' Hin. unfold wrow, r_stat, r_out, wstat, outc. cbn [fst snd].
      destruct (wp w') as [| | |o|o] eqn:Ep'; try reflexivity. cbn [N.eqb Pos.eqb andb]. rewrite code_out_real.
      destruct o as [| |x]; try reflexivity. apply In_nth_error in Hin as (j & G'). exfalso. exact (Hne j w' x G' Ep').
  - rewrite (HL eq_refl). reflexivity.
Qed.

(* one harness-level step: the monitors report nothing and keep following the model *)
Lemma mon_step s m e ev c :
  Inv s -> RW s m -> mret m = is_ret (cp s) -> decode s e = Some (ev, c) ->
  let s' := settle c (step s ev) in
  snd (mon m e (obs s')) = [] /\ RW s' (fst (mon m e (obs s'))) /\ mret (fst (mon m e (obs s'))) = is_ret (cp s').
Proof.
  intros HI HR Hmr D. cbn zeta. set (s' := settle c (step s ev)).
  pose proof (RW_step s m e ev c HI HR D) as HR'. fold s' in HR'.
  assert (HI' : Inv s') by (apply settle_inv, step_inv, HI).
  assert (Hnr : c_ready s' = false) by apply settle_ready.
  unfold mon. rewrite (rows_eq' s' _ HR'). destruct HR' as (R1 & R2 & R3).
  change (nth 0 (obs s') 0%N) with (cstat (cp s')). change (nth 1 (obs s') 0%N) with (cretc (cp s')).
  cbn [fst snd mfs mouts mcanc mret]. rewrite R1, R2, R3.
  rewrite cl1_ok, cl2_ok, cl4_ok, cl5_ok, cl6_ok by assumption. rewrite cl3_ok; [| assumption |].
  - repeat split; auto. rewrite cretc_ret, Hmr. destruct (is_ret (cp s)) eqn:Er; [|reflexivity].
    cbn [orb]. symmetry. apply settle_ret_stable. destruct (cp s) eqn:Ecp; try discriminate.
    now rewrite (step_ret_stable s ev o Ecp).
  - intros Hf o Ecp Hex. apply andb_true_iff in Hf as [Hf _]. rewrite Hmr in Hf. apply negb_true_iff in Hf.
    exact (hstep_moment s ev c o HI Hf Ecp Hex).
Qed.

Lemma monitor_nil evs : forall s m i,
  Inv s -> RW s m -> mret m = is_ret (cp s) -> monitor mon i m [] evs (run_obs hstep s evs) = [].
Proof.
  induction evs as [|e evs IH]; intros s m i HI HR Hmr; [reflexivity|].
  cbn [run_obs]. unfold hstep at 1. destruct (decode s e) as [[ev c]|] eqn:D; [|reflexivity].
  destruct (mon_step s m e ev c HI HR Hmr D) as (M1 & M2 & M3). cbn zeta in *.
  cbn [monitor]. destruct (mon m e (obs (settle c (step s ev)))) as [m' fails]. cbn [fst snd] in *. subst fails.
  cbn [filter map app]. apply IH; auto. apply settle_inv, step_inv, HI.
Qed.

(* for every event list: on the observations the model itself produces (up to the first event it rejects) the
   monitors report nothing *)
Theorem model_satisfies_monitors evs : monitor mon 0 minit [] evs (run_obs hstep init evs) = [].
Proof. apply monitor_nil; [apply init_inv | repeat split | reflexivity]. Qed.

(* and if the model accepts every event, the whole check of the model against itself is clean *)
Lemma list_eqb_refl o : list_eqb o o = true.
Proof. induction o as [|x o IH]; [reflexivity | cbn; now rewrite N.eqb_refl]. Qed.

Lemma replay_self evs : forall s i,
  length (run_obs hstep s evs) = length evs -> replay hstep i s evs (run_obs hstep s evs) = [].
Proof.
  induction evs as [|e evs IH]; intros s i Hl; [reflexivity|]. cbn [run_obs replay] in *.
  destruct (hstep s e) as [[s' o]|]; [|discriminate]. rewrite list_eqb_refl. apply IH. cbn [length] in Hl. lia.
Qed.

Theorem model_run_check_clean cfg evs :
  length (run_obs hstep init evs) = length evs -> run_check_ccall cfg evs (run_obs hstep init evs) = [].
Proof.
  intros Hl. unfold run_check_ccall, run_check. rewrite replay_self by exact Hl. apply model_satisfies_monitors.
Qed.
