(* C17 — ccall: the result is nil only if every function returned nil.
   Statements only.  "For every number of functions, every combination of outcomes and completion orders, and every
   timing" = for every list of events of the gate-level model CCall/Model.v: one call with any list of entries
   (functions and nil entries, also none or one), any interleaving of the caller's two kinds of critical section, the
   windows after them (the caller's check / decision are separate steps from the sections), the workers' record
   sections, function returns with any outcome (nil, context.Canceled, error e), cancellation of the caller's context
   at any point (also before the call), and both ways out of the select (Wake true / Wake false) whenever enabled.
   A worker's state WDone o means: function i returned o and its goroutine has recorded it. *)
From Util Require Import Common.Base Common.ListLemmas CCall.Model CCall.Spec CCall.Proofs.

(* every function is entered at most once and a nil entry never; once the call has returned (with whatever
   result, in particular nil) every function has been entered exactly once *)
Theorem c17_each_nonnil_fn_once : forall es,
  let s := run es in
  (forall i w, nth_error (wks s) i = Some w -> went w <= 1 /\ (wp w = WNone -> went w = 0)) /\
  (forall o i w, cp s = CRet o -> nth_error (wks s) i = Some w -> wp w <> WNone -> went w = 1).
Proof. exact each_nonnil_fn_once. Qed.
Print Assumptions c17_each_nonnil_fn_once.

(* the call has returned nil => every entry is nil or a function that has returned nil (and recorded it) *)
Theorem c17_nil_only_if_all_nil : forall es,
  let s := run es in
  cp s = CRet ONil -> forall i w, nth_error (wks s) i = Some w -> wp w = WNone \/ wp w = WDone ONil.
Proof. exact nil_only_if_all_nil. Qed.
Print Assumptions c17_nil_only_if_all_nil.

(* an error result is an error that some function actually returned *)
Theorem c17_error_is_some_fn_error : forall es x,
  let s := run es in
  cp s = CRet (OErr x) -> exists i w, nth_error (wks s) i = Some w /\ wp w = WDone (OErr x).
Proof. exact error_is_some_fn_error. Qed.
Print Assumptions c17_error_is_some_fn_error.

(* at the step at which the call returns: if some function has returned an error other than Canceled by then (recorded
   or not), the result is such an error (by the previous theorem one a function returned) -- never nil; the only other
   possibility is Canceled with the caller's context cancelled *)
Theorem c17_fn_error_not_masked : forall es e o,
  let s := run es in let s' := step s e in
  is_ret (cp s) = false -> cp s' = CRet o ->
  (exists i w x, nth_error (wks s') i = Some w /\ (wp w = WRet (OErr x) \/ wp w = WDone (OErr x))) ->
  is_real o = true \/ (o = OCanc /\ cctx s' = true).
Proof. exact fn_error_not_masked. Qed.
Print Assumptions c17_fn_error_not_masked.

(* Canceled => the caller's context was cancelled or some function returned Canceled;
   conversely a cancelled context is a way out of the select that returns Canceled, and if every function has finished,
   some with Canceled and none with another error, the result is Canceled *)
Theorem c17_canceled_iff_ctx_or_fn_canceled :
  (forall es, let s := run es in
     cp s = CRet OCanc -> cctx s = true \/ exists i w, nth_error (wks s) i = Some w /\ wp w = WDone OCanc) /\
  (forall s ch, cp s = CSelect ch -> cctx s = true -> cp (step s (Wake true)) = CRet OCanc) /\
  (forall es o, let s := run es in
     cp s = CRet o ->
     (forall i w, nth_error (wks s) i = Some w -> wp w = WNone \/ exists o', wp w = WDone o' /\ is_real o' = false) ->
     (exists i w, nth_error (wks s) i = Some w /\ wp w = WDone OCanc) ->
     o = OCanc).
Proof.
  exact (conj canceled_only_if_ctx_or_fn_canceled (conj canceled_if_ctx_case canceled_if_fn_canceled)).
Qed.
Print Assumptions c17_canceled_iff_ctx_or_fn_canceled.

(* once the call has returned the functions' context is cancelled; and it is cancelled only then or because the
   caller's context is *)
Theorem c17_subctx_cancelled_after_return : forall es,
  let s := run es in
  (is_ret (cp s) = true -> subc s = true) /\ (subc s = true -> cctx s = true \/ is_ret (cp s) = true).
Proof. exact subctx_cancelled_after_return. Qed.
Print Assumptions c17_subctx_cancelled_after_return.

(* liveness as quiescence safety: in a state without enabled internal steps a caller blocked in its select has its
   context not cancelled, no non-Canceled error has been recorded, and some function is still inside user code (so
   not all workers have recorded); a caller inside the single function: that function has not returned *)
Theorem c17_caller_quiescent : forall es,
  let s := run es in
  quiescent s = true ->
  (forall ch, cp s = CSelect ch ->
     cctx s = false /\
     (exists i w, nth_error (wks s) i = Some w /\ wp w = WInFn) /\
     (forall i w x, nth_error (wks s) i = Some w -> wp w <> WDone (OErr x))) /\
  (cp s = CInline -> wks s = [{| wp := WInFn; went := 1 |}]).
Proof. exact caller_quiescent. Qed.
Print Assumptions c17_caller_quiescent.

(* interpretation recorded in DESIGN.md: with exactly one entry the call is that function's own result, whatever the
   state of the caller's context (the function receives the cancelled context) *)
Theorem c17_single_function_is_its_result : forall es,
  let s := run es in
  (forall o, cp s = CInline -> cp (step s (FnReturn 0 o)) = CRet o) /\
  (forall w o, wks s = [w] -> cp s = CRet o -> (wp w = WNone /\ o = ONil) \/ wp w = WDone o).
Proof. exact single_function_is_its_result. Qed.
Print Assumptions c17_single_function_is_its_result.

(* historical: the pinned check (defect D12, repaired by commit 1f71dee) returns nil although function 0 returned
   error 0; the repaired code on the same schedule returns that error *)
Theorem c17_pinned_refuted :
  let s := run_pinned d12_witness in
  cp s = CRet ONil /\ exists w, nth_error (wks s) 0 = Some w /\ wp w = WDone (OErr 0).
Proof. exact pinned_refuted. Qed.
Print Assumptions c17_pinned_refuted.

Theorem c17_witness_repaired :
  cp (run d12_witness) = CSelect 0 /\ cp (run (d12_witness ++ [Wake false; StepC; StepC])) = CRet (OErr 0).
Proof. exact witness_repaired. Qed.

(* the monitors (CCall/Spec.v, the same functions that judge the implementation's traces) accept every trace of the
   model: for EVERY list of encoded events, on the observations the model produces for it (up to the first event the
   model does not accept) no clause of the monitor is ever reported; and if every event is accepted the whole
   correspondence check of the model against itself is clean *)
Theorem c17_model_satisfies_monitors : forall evs,
  monitor mon 0 minit [] evs (run_obs hstep init evs) = [].
Proof. exact model_satisfies_monitors. Qed.
Print Assumptions c17_model_satisfies_monitors.

Theorem c17_model_run_check_clean : forall cfg evs,
  length (run_obs hstep init evs) = length evs -> run_check_ccall cfg evs (run_obs hstep init evs) = [].
Proof. exact model_run_check_clean. Qed.
Print Assumptions c17_model_run_check_clean.

(* ---- non-vacuity ---- *)
(* three entries (one nil): both functions return nil and record; the call returns nil *)
Example c17_example_nil :
  let s := run [Call [true; false; true]; StepC; StepC; FnReturn 0 ONil; StepW 0; Wake false; StepC; StepC;
                FnReturn 2 ONil; StepW 2; Wake false; StepC; StepC] in
  cp s = CRet ONil /\ subc s = true /\ map went (wks s) = [1; 0; 1].
Proof. vm_compute. repeat split; reflexivity. Qed.

(* a Canceled recorded first is overridden by a later error; a later error does not override the first *)
Example c17_example_error_overrides_canceled :
  let s := run [Call [true; true; true]; StepC; StepC; FnReturn 1 OCanc; StepW 1; FnReturn 0 (OErr 2); StepW 0;
                FnReturn 2 (OErr 1); StepW 2; Wake false; StepC; StepC] in
  cp s = CRet (OErr 2).
Proof. vm_compute. reflexivity. Qed.

(* the caller's context is cancelled while it is blocked: Canceled, with both functions still running *)
Example c17_example_ctx_cancel :
  let s := run [Call [true; true]; StepC; StepC; CancelCaller; Wake true] in
  cp s = CRet OCanc /\ cnt active (wks s) = 2 /\ subc s = true.
Proof. vm_compute. repeat split; reflexivity. Qed.

(* both select cases ready: either way out is possible *)
Example c17_example_both_ready :
  let es := [Call [true; true]; StepC; FnReturn 0 ONil; StepW 0; CancelCaller; StepC] in
  c_ready (run es) = true /\ cp (run (es ++ [Wake true])) = CRet OCanc /\ cp (run (es ++ [Wake false])) = CRead.
Proof. vm_compute. repeat split; reflexivity. Qed.

(* a quiescent state with the caller blocked in its select (hypotheses of c17_caller_quiescent are satisfiable) *)
Example c17_example_quiescent_blocked :
  let s := run [Call [true; true]; StepC; StepC; FnReturn 0 ONil; StepW 0; Wake false; StepC; StepC] in
  quiescent s = true /\ cp s = CSelect 1 /\ cnt active (wks s) = 1.
Proof. vm_compute. repeat split; reflexivity. Qed.

(* the one-function path with a cancelled context: the function's nil is the result *)
Example c17_example_inline_cancelled :
  let s := run [CancelCaller; Call [true]; FnReturn 0 ONil] in cp s = CRet ONil /\ cctx s = true.
Proof. vm_compute. split; reflexivity. Qed.

(* zero entries, one nil entry, only nil entries *)
Example c17_example_degenerate :
  cp (run [Call []]) = CRet ONil /\ cp (run [Call [false]]) = CRet ONil /\
  cp (run [Call [false; false]; StepC; StepC]) = CRet ONil.
Proof. vm_compute. repeat split; reflexivity. Qed.

(* an encoded history the model accepts entirely (the corpus history of D12), and the monitors do bite: the trace the
   pinned code produced on it (the call returns nil at the 7th event) is rejected with clauses 2 and 3 *)
Example c17_example_accepted_history :
  let evs := [[1; 1; 1]; [2; 0; 2]; [3; 0; 3]; [2; 1; 0]; [3; 1; 1]; [2; 2; 0]; [2; 0; 2]; [2; 0; 2]; [2; 0; 2]]%N in
  length (run_obs hstep init evs) = length evs /\
  nth 8 (run_obs hstep init evs) [] = [5; 3; 4; 1; 1; 4; 1; 1]%N.
Proof. vm_compute. split; reflexivity. Qed.

Example c17_example_monitor_rejects_pinned_trace :
  let evs := [[1; 1; 1]; [2; 0; 2]; [3; 0; 3]; [2; 1; 0]; [3; 1; 1]; [2; 2; 0]; [2; 0; 2]]%N in
  let obss := [[1; 0; 0; 0; 0; 0; 0; 0]; [6; 0; 3; 1; 0; 3; 1; 0]; [6; 0; 1; 1; 0; 3; 1; 0]; [6; 0; 4; 1; 0; 3; 1; 0];
               [6; 0; 4; 1; 0; 1; 1; 0]; [6; 0; 4; 1; 0; 4; 1; 0]; [5; 1; 4; 1; 1; 4; 1; 1]]%N in
  monitor mon 0 minit [] evs obss = [PropFalse 17 2 6; PropFalse 17 3 6].
Proof. vm_compute. reflexivity. Qed.
