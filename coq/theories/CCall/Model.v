(* ccall.CallConcurrently at gate granularity (C17).  One state = one call.

   Caller:  CIdle --Call fs--> (len 0: returned nil | len 1: nil entry -> returned nil, function -> CInline, the
            caller's goroutine is inside fns[0]) | len >= 2: CStart, at the entry gate of the spawn section)
            CStart --StepC (spawn section: waitCh = getWaitCh(); running++, started++, go callFunc for every
                     non-nil entry)--> CSpawned started ch       (parked at the HoldLock EXIT gate)
            CSpawned k ch --StepC--> returned nil if k = 0, else CSelect ch   (at / blocked in the select)
            CSelect ch --Wake true--> returned Canceled (ctx.Done ready)   --Wake false--> CRead (waitCh closed)
            CRead --StepC (read section: currRunning, currExitErr, waitCh = getWaitCh())--> CReadDone r e ch (exit gate)
            CReadDone r e ch --StepC--> returned e if r = 0 or e is a non-Canceled error, else CSelect ch
   Worker i (goroutine callFunc):  WIdle --spawn--> WInFn --FnReturn i o--> WRet o (entry gate of its record
            section) --StepW i (running--; exitErr update; broadcast)--> WDone o.
            In the one-function path FnReturn 0 o makes the call return o (no section, no goroutine).
   CancelCaller cancels the caller's context (and thereby the functions' sub-context).
   Every return of the call cancels the sub-context (defer subCtxCancel()).

   [step_gen true] is the code as it is now; [step_gen false] is the pinned code before commit 1f71dee
   (defect D12): after leaving the spawn section the caller read the SHARED counter `running` instead of its
   local count of started functions.  No proofs in this file. *)
From Util Require Import Common.Base Common.ListLemmas.

Inductive outcome := ONil | OCanc | OErr (e : nat).

Definition is_nil (o : outcome) : bool := match o with ONil => true | _ => false end.
Definition is_canc (o : outcome) : bool := match o with OCanc => true | _ => false end.
Definition is_real (o : outcome) : bool := match o with OErr _ => true | _ => false end.
Definition is_err (x : nat) (o : outcome) : bool := match o with OErr y => Nat.eqb x y | _ => false end.
Definition notnil (o : outcome) : bool := negb (is_nil o).

Inductive wpc := WNone | WIdle | WInFn | WRet (o : outcome) | WDone (o : outcome).
Record wk := { wp : wpc; went : nat (* how often the function was entered *) }.

Inductive cpc :=
| CIdle | CStart | CSpawned (k : nat) (ch : nat) | CSelect (ch : nat) | CRead
| CReadDone (r : nat) (e : outcome) (ch : nat) | CInline | CRet (o : outcome).

Record st := { bb : bc; running : nat; exitErr : outcome; cctx : bool; subc : bool; cp : cpc; wks : list wk }.

Inductive ev :=
| Call (fs : list bool)            (* true = a function, false = a nil entry *)
| StepC                            (* the caller runs from its gate to the next gate / select / return *)
| StepW (i : nat)                  (* worker i runs its record section *)
| Wake (viaCtx : bool)             (* the caller's select takes the ctx.Done case / the waitCh case *)
| FnReturn (i : nat) (o : outcome) (* function i returns o *)
| CancelCaller.

Definition init : st :=
  {| bb := bc0; running := 0; exitErr := ONil; cctx := false; subc := false; cp := CIdle; wks := [] |}.

Definition mkw (f : bool) : wk := {| wp := if f then WIdle else WNone; went := 0 |}.
Definition spawn (w : wk) : wk :=
  match wp w with WIdle => {| wp := WInFn; went := S (went w) |} | _ => w end.

Definition nonnil (w : wk) : bool := match wp w with WNone => false | _ => true end.
Definition isidle (w : wk) : bool := match wp w with WIdle => true | _ => false end.
Definition active (w : wk) : bool := match wp w with WInFn | WRet _ => true | _ => false end.
Definition isdone (w : wk) : bool := match wp w with WDone _ => true | _ => false end.
Definition done_with (P : outcome -> bool) (w : wk) : bool := match wp w with WDone o => P o | _ => false end.
(* neither a nil entry nor a function that has returned nil and recorded it *)
Definition notnilres (w : wk) : bool := match wp w with WNone | WDone ONil => false | _ => true end.
Definition w_at_gate (w : wk) : bool := match wp w with WRet _ => true | _ => false end.

(* the call returns o: the deferred subCtxCancel runs *)
Definition ret (s : st) (o : outcome) : st :=
  {| bb := bb s; running := running s; exitErr := exitErr s; cctx := cctx s; subc := true; cp := CRet o; wks := wks s |}.
Definition setcp (s : st) (p : cpc) : st :=
  {| bb := bb s; running := running s; exitErr := exitErr s; cctx := cctx s; subc := subc s; cp := p; wks := wks s |}.

(* exitErr update of the record section *)
Definition record (ee o : outcome) : outcome :=
  if notnil o && (is_nil ee || is_canc ee) then o else ee.

Definition step_gen (fixed : bool) (s : st) (e : ev) : st :=
  match e with
  | Call fs =>
    match cp s with
    | CIdle =>
      match fs with
      | [] => ret s ONil                                    (* returns before a sub-context exists *)
      | [f] =>
        if f then {| bb := bb s; running := running s; exitErr := exitErr s; cctx := cctx s; subc := cctx s;
                     cp := CInline; wks := [{| wp := WInFn; went := 1 |}] |}
        else {| bb := bb s; running := running s; exitErr := exitErr s; cctx := cctx s; subc := true;
                cp := CRet ONil; wks := [mkw false] |}
      | _ => {| bb := bb s; running := running s; exitErr := exitErr s; cctx := cctx s; subc := cctx s;
                cp := CStart; wks := map mkw fs |}
      end
    | _ => s
    end
  | StepC =>
    match cp s with
    | CStart =>
      let '(b', ch) := getch (bb s) in
      let k := cnt nonnil (wks s) in
      {| bb := b'; running := running s + k; exitErr := exitErr s; cctx := cctx s; subc := subc s;
         cp := CSpawned k ch; wks := map spawn (wks s) |}
    | CSpawned k ch =>
      if (if fixed then Nat.eqb k 0 else Nat.eqb (running s) 0) then ret s ONil else setcp s (CSelect ch)
    | CRead =>
      let '(b', ch) := getch (bb s) in
      {| bb := b'; running := running s; exitErr := exitErr s; cctx := cctx s; subc := subc s;
         cp := CReadDone (running s) (exitErr s) ch; wks := wks s |}
    | CReadDone r e ch =>
      if Nat.eqb r 0 || is_real e then ret s e else setcp s (CSelect ch)
    | _ => s
    end
  | Wake viaCtx =>
    match cp s with
    | CSelect ch =>
      if viaCtx then (if cctx s then ret s OCanc else s)
      else (if closed (bb s) ch then setcp s CRead else s)
    | _ => s
    end
  | StepW i =>
    match nth_error (wks s) i with
    | Some w =>
      match wp w with
      | WRet o => {| bb := bcast (bb s); running := pred (running s); exitErr := record (exitErr s) o;
                     cctx := cctx s; subc := subc s; cp := cp s;
                     wks := set_nth (wks s) i {| wp := WDone o; went := went w |} |}
      | _ => s
      end
    | None => s
    end
  | FnReturn i o =>
    match nth_error (wks s) i with
    | Some w =>
      match wp w with
      | WInFn =>
        match cp s with
        | CInline => {| bb := bb s; running := running s; exitErr := exitErr s; cctx := cctx s; subc := true;
                        cp := CRet o; wks := set_nth (wks s) i {| wp := WDone o; went := went w |} |}
        | _ => {| bb := bb s; running := running s; exitErr := exitErr s; cctx := cctx s; subc := subc s;
                  cp := cp s; wks := set_nth (wks s) i {| wp := WRet o; went := went w |} |}
        end
      | _ => s
      end
    | None => s
    end
  | CancelCaller =>
    {| bb := bb s; running := running s; exitErr := exitErr s; cctx := true; subc := true; cp := cp s; wks := wks s |}
  end.

Definition step := step_gen true.
Definition step_pinned := step_gen false.
Definition run (es : list ev) : st := fold_left step es init.
Definition run_pinned (es : list ev) : st := fold_left step_pinned es init.

Definition is_ret (p : cpc) : bool := match p with CRet _ => true | _ => false end.
Definition c_at_gate (p : cpc) : bool :=
  match p with CStart | CSpawned _ _ | CRead | CReadDone _ _ _ => true | _ => false end.
(* a select case of the blocked caller is ready *)
Definition c_ready (s : st) : bool :=
  match cp s with CSelect ch => closed (bb s) ch || cctx s | _ => false end.
(* no internal step is enabled: nobody is at a gate and the caller's select has no ready case
   (functions still inside user code are the environment's move) *)
Definition quiescent (s : st) : bool :=
  negb (c_at_gate (cp s)) && forallb (fun w => negb (w_at_gate w)) (wks s) && negb (c_ready s).

(* D12 witness: two functions; both finish and record (the first with error 0) while the caller is
   between its spawn section and its check *)
Definition d12_witness : list ev :=
  [Call [true; true]; StepC; FnReturn 0 (OErr 0); StepW 0; FnReturn 1 ONil; StepW 1; StepC].
