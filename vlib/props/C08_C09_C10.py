from vlib.common import nt_len, NOTE, SCHED_TRUSTED

_COQ = ["Common/ListLemmas.v", "RefCount/Model.v", "RefCount/Spec.v", "RefCount/Proofs.v"]
_RULE = ("implementation-driven random gate-level histories of RefCount (SetContext, AddRef with nil/logging/released-calling "
         "callbacks, Ref.Release in two segments incl. double releases, released() from outside and from under the mutex, resolve "
         "goroutines stepped through their first select, resolver returns with/without release function and error (a failing resolver returns the empty value "
         "3 times out of 4, else its usual value), store sections, root contexts cancelled by their owner, "
         "Wait, Resolve, WaitWithReleased (+ the lines of ResolveWithReleased replicated), ResolveWithReleased and Access consumers with cancellation, "
         "release through the function Resolve/ResolveWithReleased returned, caller contexts of three flavours (the n-th consumer of a history: n%4 = 1 ends like a deadline, Err() == DeadlineExceeded; 3 cancelled with a cause; else plain WithCancel) and root contexts of the same three flavours, returned errors distinguished by identity (context.Canceled itself / DeadlineExceeded / the cause / other), Access callbacks returning before and after an invalidation "
         "incl. the ABA shape in a configuration where the resolver returns a constant value; the watcher goroutine of an Access callback parked between its wake-up and its cbCancel(), callbacks returning inside that window; successful resolver returns with the empty value, with and without release function) + corpus; distinct = distinct event sequence; non-trivial = >= 10 events")


def _parse(ev, o):
    nret = {1: 1, 2: 1}.get(ev[0], 0)
    rets, o = o[:nret], o[nret:]
    ng = o[0]
    gs, o = o[1:1 + ng], o[1 + ng:]
    tg, te, nr = o[0], o[1], o[2]
    refs, o = o[3:3 + 3 * nr], o[3 + 3 * nr:]
    nl = o[0]
    rels, o = o[1:1 + 3 * nl], o[1 + 3 * nl:]
    na, nra = o[0], o[1]
    ras, o = o[2:2 + nra], o[2 + nra:]
    cons = o[1:]
    return rets, gs, tg, te, refs, rels, na, ras, cons


def _proj_c08(ev, o):
    rets, gs, tg, te, refs, rels, na, ras, cons = _parse(ev, o)
    return gs, tg, rels, refs


def _proj_c09(ev, o):
    rets, gs, tg, te, refs, rels, na, ras, cons = _parse(ev, o)
    return rets, gs, tg, te, refs, na


_MODELS = [
    dict(name="refcount", pkg="./refcountx", test="TestRefCount", coq_mod="RefCount.Spec", run_check="run_check_refcount",
         corpus="refcount", project={"C08": _proj_c08, "C09": _proj_c09}, quick_n=1500, thorough_n=150000, nontrivial=nt_len(10), rule=_RULE,
         # the same correspondence in the other regime (real scheduler, real parallelism), run in every check: oracle = the C08 /
         # C09 invariants the model is proved to have (harness/refcountx/free_test.go)
         free_search=dict(test="TestRefCountFree", props={"C08": [5], "C09": [6]}), free_always=True),
]
_TRUSTED = SCHED_TRUSTED + [
    "modelled, not verified: context.WithCancel (a resolve context is cancelled by its cancel function or, synchronously, when the owner cancels the root context it derives from: event 14), sync.Mutex.TryLock succeeds exactly when no section is running (one segment at a time), CContainer.SetValue as an assignment",
]
_ASSUME = ["C09's progress clause reads 'has a context' as: a context is installed and its owner has not cancelled it (with a cancelled, not cleared, root context resolve() may return without calling the resolver)",
           "the resolver returns value g+1, or - only together with an error - the empty value (`return zero, rel, err`); never the empty value without an error (the target container could not tell it from 'nothing resolved'); error codes other than context.Canceled",
           "at most one ResolveWithReleased call whose reference the harness does not know yet is in flight at a time (the goroutine spawned by its callback is attributed to it)",
           "consumer kind 1 = WaitWithReleased + the six lines of ResolveWithReleased replicated in the harness; kind 3 = Resolve, kind 4 = ResolveWithReleased themselves (same model as kinds 0 / 1)",
           "the reference of an Access call is private to it (no other actor calls its Release)",
           "Access's watcher goroutine (cancels the callback's context when the value changes) is a schedule point of its own (hook site 5, notes/refcount_site5_hook.patch): 'cancelled promptly' is judged once that goroutine has run; against a /repo without the hook the harness reports the watcher's step right after the event that woke it (counter hook.site5_missing_watcher_reported_virtually) and cuts corpus histories that need the window (hook.site5_missing_history_cut)",
           "the k-th parked asynchronous released() carries its generation in the event (6 k g): the harness reads it off the nonce the hook reports; the model refuses a wrong g",
           "the nonce does not wrap (2^32 restarts)"]
_TECH = "Coq inductive invariant over a gate-level interleaving model + schedule-controlled differential correspondence (synctest) against the Go code"

_COQ8 = _COQ + ["RefCount/ProofsC08.v", "RefCount/ProofsC08b.v"]
# the monitors tied to the model for all event lists (model_satisfies_monitors): needs every proof file of the slice
_COQMON = ["RefCount/ProofsC08.v", "RefCount/ProofsC08b.v", "RefCount/ProofsC09.v", "RefCount/ProofsC10.v", "RefCount/ProofsC10a.v", "RefCount/ProofsC10b.v",
           "RefCount/ProofsCodec.v", "RefCount/ProofsMon.v", "RefCount/ProofsMon2.v", "RefCount/ProofsMon3.v", "RefCount/ProofsMon4.v", "RefCount/ProofsMon5.v",
           "RefCount/ProofsMon6.v", "RefCount/ProofsMon7.v", "RefCount/ProofsMonG.v", "RefCount/ProofsMon8.v", "RefCount/ProofsMon9.v", "RefCount/ProofsMon10.v",
           "RefCount/ProofsMon11.v", "RefCount/ProofsMon12.v", "RefCount/ProofsMon13.v", "RefCount/ProofsMon14.v", "RefCount/ProofsMon15.v",
           "RefCount/ProofsMon16.v", "RefCount/ProofsMonThm.v",
           # the full statement (model_satisfies_monitors / model_run_check_clean: all clauses, every configuration)
           "RefCount/ProofsMon17.v", "RefCount/ProofsMonE.v", "RefCount/ProofsMon18.v", "RefCount/ProofsMon19.v", "RefCount/ProofsMon20.v", "RefCount/ProofsMon21.v",
           "RefCount/ProofsMon22.v", "RefCount/ProofsMon23.v", "RefCount/ProofsMonThm2.v"]

PROPS = {
    "C08": dict(pid=8, coq=_COQ + _COQMON + ["RefCount/Props_C08.v"], props_file="RefCount/Props_C08.v", models=_MODELS, trusted=_TRUSTED, assumptions=_ASSUME,
                meta=dict(
                    text="Coq theorems over ALL well-formed event lists of a gate-level model of RefCount (any number of references, resolve "
                         "goroutines, consumers; every interleaving of API sections, first-select choices, resolver returns, store sections, "
                         "Release segments, synchronous and asynchronous released()): an inductive invariant over the release log, the stored "
                         "value, the goroutine nonces and the references' last notifications gives: every release function is called at most once "
                         "(NoDup of the log); at each call the target container does not hold the value and no reference in the set still has it as "
                         "last notification (target cleared, callbacks told, resolve context cancelled, then release: the order is read off "
                         "clearResolvedState); with the ghost 'returned a release function', a release function is uncalled iff it belongs to the "
                         "stored value or to a result at its store gate, and the stored value is kept only with context + reference (or "
                         "keep-unreferenced and no error) => no leak; per step, a release function is called only by SetContext with a different "
                         "context, a released() section of the current generation, a removeRef section that leaves no reference (and not "
                         "keep+resolved+no error), or the store section of a superseded goroutine (its own, never delivered result). The codec "
                         "produces only generation-unique resolver values (lemma about Spec.hstep). Model tied to the code by scheduled differential "
                         "correspondence; monitors (once; target/refs at release; allowed causes; no leak) run on the implementation's observations. "
                         "Monitors tied to the model for ALL event lists and every configuration (model_satisfies_monitors, the full statement; clause-wise: model_satisfies_monitors_clauses): on the model's own "
                         "observations the clauses 8.1-8.4 are never false.",
                    note=NOTE + "Resolver values are generation-unique (g+1), or empty together with an error (then 'the target does not hold that value' is vacuous: the target never holds the empty value; what is proved and monitored is: the target does not hold g+1 and no reference in the set still has the result as last notification). "
                                "'Shortly after' = by an enabled internal step (store section) or within the same critical section. Gate placement trusted.",
                    technique=_TECH)),
    "C09": dict(pid=9, coq=_COQ + _COQMON + ["RefCount/Props_C09.v"], props_file="RefCount/Props_C09.v", models=_MODELS, trusted=_TRUSTED, assumptions=_ASSUME,
                meta=dict(
                    text="Coq theorems over ALL event lists of the same model: the done-channel chain invariant (every resolve goroutine waits on "
                         "its predecessor's done channel, which closes only when that goroutine and all earlier ones have finished) => at most one "
                         "goroutine between entering the resolver and the end of its store section (the pinned code's overlap, D10, is a _refuted "
                         "theorem and a corpus history). Progress as quiescence safety: in every reachable state with no enabled internal step, a "
                         "context and a reference, some goroutine is inside the resolver or the stored result (value or error) is in the target "
                         "containers and is the last notification of every reference with a callback; delivery holds in every reachable resolved "
                         "state, hence for references added later. released() of the stored generation clears value and containers and starts a "
                         "goroutine of a new generation. No event list makes the model panic (AddRef(nil) on a resolved container: D9 repaired; the "
                         "pinned variant is a _refuted theorem); every API call is one total section (no deadlock). Monitors on the implementation's "
                         "observations: <= 1 goroutine in the resolver, AddRef never panics, quiescent => in progress or delivered, released() restarts. "
                         "Monitors tied to the model for ALL event lists and every configuration (model_satisfies_monitors, the full statement; clause-wise: model_satisfies_monitors_clauses): clauses 9.1-9.5 are never "
                         "false on the model's own observations (incl.: after the eager schedule no blocked goroutine has its wake-up condition; with context, "
                         "reference and nothing resolved the newest goroutine is of the current generation, also under a cancelled root context).",
                    note=NOTE + "Liveness is quiescence safety (fairness of the Go scheduler is not modelled). 'No deadlock' = every API call is a single "
                                "mutex section that never waits; the lock discipline itself is C13's obligation. Progress is claimed while the installed "
                                "root context is not cancelled by its owner: with a cancelled (not cleared) context a queued resolve goroutine may return "
                                "without resolving (Props_C09 c09_example_cancelled_root_no_progress; monitor clause 9.3 is conditioned accordingly).",
                    technique=_TECH)),
    "C10": dict(pid=10, coq=_COQ + _COQMON + ["RefCount/Props_C10.v"], props_file="RefCount/Props_C10.v", models=_MODELS, trusted=_TRUSTED, assumptions=_ASSUME,
                meta=dict(
                    text="Coq theorems about the same model (consumers = Wait / ResolveWithReleased / Access callers with their reference "
                         "callbacks): from every reachable state, a step that calls a release function while some reference (in particular the "
                         "returned one) stays in the set is an invalidation (SetContext with a different context, released() of the current "
                         "generation) or the store section of a superseded goroutine releasing its own never-delivered result; callReleasedOnce: "
                         "the released callback fires at most once along every event list, an invalidation notified after the value was returned "
                         "fires it (at once, or through the spawned goroutine whose section fires exactly once), nothing moves the count afterwards; "
                         "errors / Canceled are passed through. Access (no value-uniqueness assumption): invariants over all event lists - its "
                         "private reference stays in the set with its callback while the call runs (linking + release-flag invariants), its "
                         "Broadcast-guarded copy mirrors the container, the nonce never runs behind the snapshot - give: inside the callback with an "
                         "uncancelled context the value is the container's current one; whenever that value is invalidated the context is cancelled; "
                         "per step, the callback's result is returned only if no change was notified since Access looked, otherwise the loop top "
                         "hands the replacement to the callback or returns the resolver's error; at rest with a stored value a running Access is "
                         "inside its callback; Canceled for a cancelled caller. The seeded ABA variant is a _refuted theorem. Monitors on the "
                         "implementation's observations: clauses 10.1-10.3 as before; 10.4 value passed = current value; 10.5 invalidated => "
                         "callback context cancelled (judged once the watcher goroutine of the invocation is not parked before its cbCancel()); 10.6 callback result returned only from an invocation that was not invalidated (the invalidation itself counts, not the cancellation), re-invocation at quiescence; "
                         "10.7 resolver error / Canceled returned as such (the literal context.Canceled also for a caller context that ended like a deadline or was cancelled with a cause); "
                         "10.8 a Wait/Resolve/ResolveWithReleased call that fails returns the resolver's error or context.Canceled, never another context error (consumer status 7, judged in every configuration). Monitors tied to the model for ALL event lists and EVERY configuration, all clauses "
                         "(model_satisfies_monitors, model_run_check_clean: the full statement): 10.1-10.3 (invariants: every value a Wait/Resolve/"
                         "ResolveWithReleased consumer was given is the empty value or a finished goroutine's; a WaitWithReleased consumer that was given a "
                         "result, is still in the set and has not fired implies that very result is still stored); 10.4-10.7 also in the constant-value "
                         "configuration: the judge's books (inside the callback, context cancelled, invalidated since the invocation started, decided: expected "
                         "code / callback result) are tied to the model state by an invariant of the codec's states (invalidated <=> Access's nonce left its "
                         "snapshot; decided <=> inside its final Release or returned, with that code), using a light state invariant that needs no "
                         "generation-unique values, 'a release actor's reference keeps its release flag', 'a consumer inside its own Release has a release actor', "
                         "and 'a section that is not a store section leaves Access's bookkeeping alone or has told it gone'.",
                    note=NOTE + "Not proved in Coq (checked by monitor clause 10.1 on every trace): that a Wait/ResolveWithReleased consumer's "
                                "returned value is one of the delivered generation values. Access's private Broadcast is not gated: S1/S2 and the "
                                "wake-up are consumer steps that the theorems allow to be delayed arbitrarily; the harness realises the eager "
                                "schedule. In the constant-value configuration (needed for the ABA shape) only clauses 10.4-10.7 are judged.",
                    technique=_TECH)),
}
