from vlib.common import nt_len, NOTE, SCHED_TRUSTED

_COQ = ["Common/ListLemmas.v", "RefCount/Model.v", "RefCount/Spec.v", "RefCount/Proofs.v"]
_RULE = ("implementation-driven random gate-level histories of RefCount (SetContext, AddRef with nil/logging/released-calling "
         "callbacks, Ref.Release in two segments incl. double releases, released() from outside and from under the mutex, resolve "
         "goroutines stepped through their first select, resolver returns with/without release function and error, store sections, "
         "Wait and WaitWithReleased consumers with cancellation) + corpus; distinct = distinct event sequence; non-trivial = >= 10 events")


def _parse(ev, o):
    nret = {1: 1, 2: 1}.get(ev[0], 0)
    rets, o = o[:nret], o[nret:]
    ng = o[0]
    gs, o = o[1:1 + ng], o[1 + ng:]
    tg, te, nr = o[0], o[1], o[2]
    refs, o = o[3:3 + 3 * nr], o[3 + 3 * nr:]
    nl = o[0]
    rels, o = o[1:1 + 3 * nl], o[1 + 3 * nl:]
    na, nra = o[0], o[1]
    ras, o = o[2:2 + nra], o[2 + nra:]
    cons = o[1:]
    return rets, gs, tg, te, refs, rels, na, ras, cons


def _proj_c08(ev, o):
    rets, gs, tg, te, refs, rels, na, ras, cons = _parse(ev, o)
    return gs, tg, rels, refs


def _proj_c09(ev, o):
    rets, gs, tg, te, refs, rels, na, ras, cons = _parse(ev, o)
    return rets, gs, tg, te, refs, na


_MODELS = [
    dict(name="refcount", pkg="./refcountx", test="TestRefCount", coq_mod="RefCount.Spec", run_check="run_check_refcount",
         corpus="refcount", project={"C08": _proj_c08, "C09": _proj_c09}, quick_n=1500, thorough_n=150000, nontrivial=nt_len(10), rule=_RULE),
]
_TRUSTED = SCHED_TRUSTED + [
    "modelled, not verified: context.WithCancel (a resolve context is cancelled only by its cancel function: root contexts are never cancelled from outside), sync.Mutex.TryLock succeeds exactly when no section is running (one segment at a time), CContainer.SetValue as an assignment",
]
_ASSUME = ["root contexts are not cancelled from outside while installed",
           "the resolver returns value g+1 (never the empty value) and error codes other than context.Canceled",
           "consumer kind 1 = WaitWithReleased + the six lines of ResolveWithReleased replicated in the harness",
           "the nonce does not wrap (2^32 restarts)"]
_TECH = "Coq inductive invariant over a gate-level interleaving model + schedule-controlled differential correspondence (synctest) against the Go code"

PROPS = {
    "C08": dict(pid=8, coq=_COQ + ["RefCount/Props_C08.v"], props_file="RefCount/Props_C08.v", models=_MODELS, trusted=_TRUSTED, assumptions=_ASSUME,
                meta=dict(text="", note=NOTE, technique=_TECH)),
    "C09": dict(pid=9, coq=_COQ + ["RefCount/Props_C09.v"], props_file="RefCount/Props_C09.v", models=_MODELS, trusted=_TRUSTED, assumptions=_ASSUME,
                meta=dict(text="", note=NOTE, technique=_TECH)),
    "C10": dict(pid=10, coq=_COQ + ["RefCount/Props_C10.v"], props_file="RefCount/Props_C10.v", models=_MODELS, trusted=_TRUSTED, assumptions=_ASSUME,
                meta=dict(text="", note=NOTE, technique=_TECH)),
}
