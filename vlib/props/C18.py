from vlib.common import nt_len, NOTE, SCHED_TRUSTED

PROPS = {
    "C18": dict(
        pid=18,
        coq=["Common/ListLemmas.v", "Conc/Model.v", "Conc/Spec.v", "Conc/Proofs.v", "Conc/Props_C18.v"],
        props_file="Conc/Props_C18.v",
        models=[
            dict(name="conc", pkg="./concx", test="TestConc", coq_mod="Conc.Spec", run_check="run_check_conc",
                 corpus="conc", quick_n=4000, thorough_n=150000, nontrivial=nt_len(8), tags="",
                 # the same correspondence in the free-running regime, in every check (harness/concx/free_test.go)
                 free_search=dict(test="TestConcFree", props={"C18": [5]}), free_always=True,
                 rule="implementation-driven random gate-level histories of one ConcurrentQueue (limit in {-1,0,1,2,3,4}, 0-3 initial "
                      "elements; Enqueue calls with 0-4 jobs parked before their section, WaitIdle with nil/buffered errCh, WatchState with "
                      "scripted callback outcomes, sections of producers / waiters / executeJob goroutines one at a time in any order, job "
                      "returns at any time, cancellations, errCh sends/closes; the contexts of the WaitIdle / WatchState calls are plain / ending like a "
                      "deadline / cancelled with a cause in turn (harness/hctx; return codes distinguish context.Canceled, context.DeadlineExceeded, the "
                      "cause, the given error, any other error)) + corpus (incl. Enqueue on an unlimited queue while jobs are executing); distinct = distinct (config, event sequence); "
                      "non-trivial = at least 8 events"),
        ],
        trusted=SCHED_TRUSTED + [
            "job identity: the harness numbers the jobs of an Enqueue call when it lets that call's critical section run (enqueue order = order of sections); "
            "an executeJob goroutine is named after the first job function it enters",
            "modelled, not verified: linkedlist.LinkedList as a FIFO list (Push = append at the tail, Pop = remove the head); C12 is about the list itself",
        ],
        assumptions=[
            "the harness realises the eager schedule (woken waiters run to their next gate at once); the theorems cover every placement of Wake / CancelWake / ErrWake",
            "'several select cases ready at once' (ctx.Done together with errCh or with the wait channel) is covered by the theorems but never produced by the "
            "harness (Go would choose at random, which is not replayable)",
            "liveness stated as quiescence safety: no WaitIdle is blocked in a state without enabled internal steps while nothing is running or queued; "
            "termination of internal steps is argued (every section moves its actor forward), not a theorem",
            "clause 5 reads 'queued > 0 only if running equals the limit' for every limit including unlimited: a queue without limit (maxConcurrency <= 0) has no "
            "limit that running could equal, so a reported pair with queued > 0 is a violation there (the code starts every job at once and never reports one)",
            "the property text does not name the error WaitIdle / WatchState return for an ended context (the code returns the literal context.Canceled): a "
            "different identity is a correspondence mismatch (return codes 11 / 12 / 13), not a monitor clause",
            "nil job functions are not generated (executeJob skips them; the property speaks about jobs that run)",
        ],
        meta=dict(
            text="Coq theorems over ALL event lists and all configurations (limit incl. unlimited, initial elements) of a gate-level interleaving model of "
                 "conc.ConcurrentQueue: counting invariant => running <= limit, goroutines inside job functions <= running, every enqueued job is in exactly "
                 "one of queued / executing (one goroutine) / finished once, limit 1 => entry log ++ queue = enqueue order, queued > 0 => there is a limit and running = limit "
                 "(state, Enqueue results, WatchState arguments), WaitIdle nil => every job enqueued before the call has returned, no lost wake-up => no "
                 "WaitIdle blocked at an idle quiescent state, jobQueueSize = queue length. Model tied to the code by scheduled differential correspondence: "
                 "the harness drives the real queue one critical section at a time (synctest) and the extracted model must produce the same status vectors, "
                 "returned pairs, callback arguments, per-job entry/return counts and goroutine positions; seven monitor clauses (the property text) are "
                 "evaluated on the implementation's observations.",
            note=NOTE + "Gate placement and the atomicity of a Broadcast critical section are trusted (C13 argues the lock discipline). "
                        "LinkedList is modelled as a FIFO list. The Go select's random choice among several ready cases is not exercised.",
            technique="Coq inductive invariant (counting + no lost wake-up) over an interleaving model + schedule-controlled differential correspondence against the Go code",
        ),
    ),
}
