from vlib.common import nt_len, NOTE, SCHED_TRUSTED

_COQ = ["Common/ListLemmas.v", "Routine/Model.v", "Routine/Spec.v", "Routine/Proofs.v"]
_RULE = ("implementation-driven random gate-level histories of RoutineContainer and StateRoutineContainer (SetContext/SetRoutine/"
         "SetState/SwapValue/SetStateRoutine/RestartRoutine, instances stepped through their first select, user-function returns "
         "with nil/Canceled/error, bookkeeping sections, fake-clock advances and retry-timer callbacks, WaitExited callers with "
         "cancellation and error channels) + corpus; distinct = distinct event sequence; non-trivial = >= 10 events")


def _parse(ev, o):
    nret = {1: 1, 2: 2, 3: 1, 4: 4, 5: 5, 6: 3, 7: 1}.get(ev[0], 0)
    rets, o = o[:nret], o[nret:]
    n = o[0]
    insts = [tuple(o[1 + 4 * i: 5 + 4 * i]) for i in range(n)]
    o = o[1 + 4 * n:]
    chans, o = o[1:1 + o[0]], o[1 + o[0]:]
    return rets, insts, chans, o


def _proj_c04(ev, o):
    rets, insts, chans, rest = _parse(ev, o)
    return [i[0] for i in insts], chans


def _proj_c05(ev, o):
    rets, insts, chans, rest = _parse(ev, o)
    return insts


_MODELS = [
    dict(name="routine", pkg="./routinex", test="TestRoutine", coq_mod="Routine.Spec", run_check="run_check_routine",
         corpus="routine", project={"C04": _proj_c04, "C05": _proj_c05}, quick_n=1500, thorough_n=150000, nontrivial=nt_len(10), rule=_RULE),
]
_TRUSTED = SCHED_TRUSTED + [
    "modelled, not verified: time.AfterFunc/Stop (armed/fired/stopped/ran), context.WithCancel (an instance's context is cancelled only by its cancel function: root contexts are never cancelled from outside while installed), the scripted back-off passed through WithBackoff",
]
_ASSUME = ["root contexts are not cancelled from outside while installed (the model has no such event)",
           "the harness realises the eager schedule for blocked instances and WaitExited callers; the theorems cover every placement of the wake-ups",
           "exit callbacks only log (they run inside the bookkeeping section)"]

PROPS = {
    "C04": dict(pid=4, coq=_COQ + ["Routine/Props_C04.v"], props_file="Routine/Props_C04.v", models=_MODELS, trusted=_TRUSTED, assumptions=_ASSUME,
                meta=dict(text="", note=NOTE, technique="")),
    "C05": dict(pid=5, coq=_COQ + ["Routine/Props_C05.v"], props_file="Routine/Props_C05.v", models=_MODELS, trusted=_TRUSTED, assumptions=_ASSUME,
                meta=dict(text="", note=NOTE, technique="")),
    "C14": dict(pid=14, coq=_COQ + ["Routine/Props_C14.v"], props_file="Routine/Props_C14.v", models=_MODELS, trusted=_TRUSTED, assumptions=_ASSUME,
                meta=dict(text="", note=NOTE, technique="")),
}
