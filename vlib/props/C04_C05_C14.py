from vlib.common import nt_len, NOTE, SCHED_TRUSTED

_COQ = ["Backoff/Model.v", "Common/ListLemmas.v", "Routine/Model.v", "Routine/Spec.v", "Routine/Proofs.v"]
# model_satisfies_monitors for all event lists (the monitors against the model): Routine/ProofsMon.v and what it needs
_MON_COQ = ["Routine/ProofsMonInv.v", "Routine/ProofsMonObs.v", "Routine/ProofsMonStep.v", "Routine/ProofsMonDef.v", "Routine/ProofsMonR.v",
            "Routine/ProofsMonNB.v", "Routine/ProofsMonEv.v", "Routine/ProofsMonBook.v", "Routine/ProofsMonBk.v", "Routine/ProofsMon.v"]
_RULE = ("implementation-driven random gate-level histories of RoutineContainer and StateRoutineContainer (SetContext/SetRoutine/"
         "SetState/SwapValue/SetStateRoutine/RestartRoutine, instances stepped through their first select, user-function returns "
         "with nil/Canceled/error, bookkeeping sections, fake-clock advances and retry-timer callbacks, WaitExited callers with "
         "cancellation and error channels, root contexts cancelled by their owner; WaitExited caller contexts of three flavours (n-th caller: n%4 = 1 ends like a "
         "deadline, 3 cancelled with a cause, else plain) and root contexts that are plain, end like a deadline (one of them also for the derived instance contexts) or "
         "are cancelled with a cause, returned / reported errors distinguished by identity (context.Canceled itself / DeadlineExceeded / the cause / other)) + corpus; distinct = distinct event sequence; non-trivial = >= 10 events")


def _parse(ev, o):
    nret = {1: 1, 2: 2, 3: 1, 4: 4, 5: 5, 6: 3, 7: 1}.get(ev[0], 0)
    rets, o = o[:nret], o[nret:]
    n = o[0]
    insts = [tuple(o[1 + 4 * i: 5 + 4 * i]) for i in range(n)]
    o = o[1 + 4 * n:]
    chans, o = o[1:1 + o[0]], o[1 + o[0]:]
    return rets, insts, chans, o


def _proj_c04(ev, o):
    rets, insts, chans, rest = _parse(ev, o)
    return [i[0] for i in insts], chans


def _proj_c05(ev, o):
    rets, insts, chans, rest = _parse(ev, o)
    return insts


_MODELS = [
    dict(name="routine", pkg="./routinex", test="TestRoutine", coq_mod="Routine.Spec", run_check="run_check_routine",
         corpus="routine", project={"C04": _proj_c04, "C05": _proj_c05}, quick_n=1500, thorough_n=150000, nontrivial=nt_len(10), rule=_RULE,
         # the same correspondence in the free-running regime (real scheduler; C05: "also when the calls are issued concurrently
         # from several goroutines"), in every check of C04 / C05: harness/routinex/free_test.go
         free_search=dict(test="TestRoutineFree", props={"C04": [5], "C05": [6]}), free_always=True),
]
# backoff part of C14: Backoff.Construct (/repo/backoff/backoff.go) + the vendor algorithm it configures
_BACKOFF_COQ = ["Backoff/Model.v", "Backoff/Spec.v", "Backoff/Proofs.v", "Backoff/Props_C14_backoff.v"]
_BACKOFF_MODEL = dict(
    name="backoff", pkg="./backoffx", test="TestBackoff", coq_mod="Backoff.Spec", run_check="run_check_backoff",
    corpus="backoff", quick_n=1500, thorough_n=100000, nontrivial=nt_len(4), tags="",
    rule="one object per history built by (*backoff.Backoff).Construct() from a random config message inside a synctest bubble (kinds unknown/"
         "exponential/constant/undeclared; unset fields and nil sub-messages; initial 1..5000 ms, minutes, up to MaxUint32; multipliers "
         "default/1/1.5/1.8/2/2.5/3.7/random float32 in [1,4]/below 1/subnormal/huge; max_interval below, at and above the initial interval; "
         "max_elapsed_time unset (65%), small, whole seconds, around and exactly 15 minutes; randomization factor 0 (80%), 0.5, random, 1; "
         "math/rand re-seeded per history) + random sequences of NextBackOff / Reset / fake-clock advances of 1 ms .. 20 minutes, advances "
         "steered to the Stop boundary elapsed+next == max_elapsed_time +- 1 ms, retry loops that sleep for the returned interval, and "
         "bit-exact probes of Go's float64 quotient/product/truncation against the model's rounding; + corpus; distinct = distinct config + "
         "event sequence; non-trivial = >= 4 events")
_TRUSTED_BACKOFF = [
    "backoff: modelled, not verified: IEEE-754 binary64 division/multiplication (round to nearest even) and float->int64 truncation as "
    "implemented in Backoff/Model.v rne53/trunc (compared bit for bit with Go's on every run), math/rand (the drawn value is an oracle: only "
    "membership in the jitter interval, with 1 + cur/2^48 ns slack for float rounding, is checked), time.Now/Sub inside the synctest bubble",
]
_TRUSTED = SCHED_TRUSTED + [
    "modelled, not verified: time.AfterFunc/Stop (armed/fired/stopped/ran), context.WithCancel (an instance's context is cancelled by its cancel function, or together with the root context it derives from when the owner cancels that root: event 18), the scripted back-off passed through WithBackoff",
]
_ASSUME = ["root contexts are cancelled only by their owner (event 18); a cancelled root context stays cancelled",
           "the harness realises the eager schedule for blocked instances and WaitExited callers; the theorems cover every placement of the wake-ups",
           "exit callbacks only log (they run inside the bookkeeping section)"]

_TECH = "Coq inductive invariant over a gate-level interleaving model + schedule-controlled differential correspondence (synctest, fake clock) against the Go code"

PROPS = {
    "C04": dict(pid=4, coq=_COQ + ["Routine/Props_C04.v"] + ["Routine/ProofsC05.v", "Routine/ProofsC14.v", "Routine/ProofsC14b.v"] + _MON_COQ, props_file="Routine/Props_C04.v", models=_MODELS, trusted=_TRUSTED, assumptions=_ASSUME,
                meta=dict(
                    text="Coq theorems over ALL event lists of a gate-level model of RoutineContainer/StateRoutineContainer (any number of "
                         "instances, every interleaving of API sections, first-select choices, wake-ups, user-function returns, bookkeeping "
                         "sections, timer callbacks): the exit-channel chain invariant (each instance waits on its predecessor; an exit channel "
                         "closes only when its instance and all earlier ones have left user code) => at most one instance inside the managed "
                         "function, and the channel returned by SetRoutine/SetState closes only after all earlier instances returned. The pinned "
                         "code's violations (D2, D3) are _refuted theorems and corpus histories. Model tied to the code by scheduled differential "
                         "correspondence; the monitors (<=1 instance in user code; closed waitReturn => earlier instances returned) run on the "
                         "implementation's observations.",
                    note=NOTE + "Root contexts may be cancelled by their owner (event 18). Gate placement trusted.",
                    technique=_TECH)),
    "C05": dict(pid=5, coq=_COQ + ["Routine/ProofsC05.v", "Routine/Props_C05.v"] + ["Routine/ProofsC14.v", "Routine/ProofsC14b.v"] + _MON_COQ, props_file="Routine/Props_C05.v", models=_MODELS, trusted=_TRUSTED, assumptions=_ASSUME,
                meta=dict(
                    text="Coq invariant over all event lists of the same model: an instance whose context is live is the current instance of the "
                         "current routine record, the container has a context, the instance derives from exactly that context and (state variant) "
                         "carries the currently stored non-empty state; hence at most one live instance, every superseded instance is cancelled "
                         "when the call returns, and no live instance without context/routine/state. Concurrency: every API call is one critical "
                         "section, so concurrent calls are interleavings of the model's events (the lock discipline is C13's obligation; the pinned "
                         "code's wrong lock, D5, is repaired). Monitors on the implementation's observations: every live in-user instance is the "
                         "newest one, has the current root context and state, and exists only if context, routine and state are set.",
                    note=NOTE + "The harness observes an instance's context only while it is inside the user function.",
                    technique=_TECH)),
    "C14": dict(pid=14, coq=_COQ + ["Routine/ProofsC14.v", "Routine/ProofsC14b.v", "Routine/Sweep.v", "Routine/Props_C14.v"] + _BACKOFF_COQ + ["Routine/ProofsC05.v"] + _MON_COQ, props_file="Routine/Props_C14.v", extra_props_files=["Backoff/Props_C14_backoff.v"], models=_MODELS + [_BACKOFF_MODEL], trusted=_TRUSTED + _TRUSTED_BACKOFF, assumptions=_ASSUME,
                meta=dict(
                    text="Coq theorems about the same model, per step from every state (hence along every event list): only API calls and retry "
                         "callbacks start instances; a recorded success is never re-run by SetContext; a recorded error is not re-run by SetContext "
                         "without restart, which leaves the pending retry untouched (D4 repaired); the retry timer fires at its deadline and its "
                         "callback restarts (D20, a stale callback restarting a succeeded routine, was found by this check and repaired); bookkeeping "
                         "records status and back-off index (reset on success); exit callbacks exactly once per current exit; WaitExited returns the "
                         "current record's status. The reference machine itself is the monitor state run on the implementation's observations "
                         "(clauses: no re-run after success / after error except by the listed causes, retry pending until it fires, WaitExited "
                         "result, exit reporting).",
                    note=NOTE + "The reference machine of the property is the monitor; c14_model_satisfies_monitors proves, for every configuration with at least "
                                "one exit callback and non-zero back-off durations and for every event list, that the monitor reports nothing on the model's own "
                                "observations (all clauses of C04, C05 and C14), so model and reference machine agree on every history; the monitor is also "
                                "evaluated on every implementation trace. The backoff package itself (Construct defaults, the vendor's exponential/constant "
                                "algorithm with exact binary64 rounding, Stop rule) is a second model with its own theorems and harness. 'Returned nil' "
                                "means recorded as the current instance's exit (DESIGN.md C14 interpretation).",
                    technique=_TECH)),
}
