from vlib.common import nt_len, NOTE, SCHED_TRUSTED

_COQ = ["Backoff/Model.v", "Common/ListLemmas.v", "Keyed/Model.v", "Keyed/Spec.v", "Keyed/Proofs.v"]
_MON = ["Keyed/ProofsCancel.v", "Keyed/ProofsWalk.v", "Keyed/ProofsMono.v", "Keyed/ProofsData.v", "Keyed/ProofsKeys.v", "Keyed/ProofsRoot.v",
        "Keyed/ProofsMon.v", "Keyed/ProofsMon2.v", "Keyed/ProofsInc.v", "Keyed/ProofsMonAll.v",
        "Keyed/ProofsWalk2.v", "Keyed/ProofsTimers.v", "Keyed/ProofsTimers2.v", "Keyed/ProofsRef.v", "Keyed/ProofsReset.v", "Keyed/ProofsRefSim.v", "Keyed/ProofsKI.v",
        "Keyed/ProofsRefStep.v", "Keyed/ProofsGone.v", "Keyed/ProofsRefs.v", "Keyed/ProofsMonAll2.v",
        "Keyed/ProofsRetry.v", "Keyed/ProofsRetryRef.v", "Keyed/ProofsC75.v", "Keyed/ProofsMonAll3.v"]
_RULE = ("implementation-driven random gate-level histories of keyed.Keyed and keyed.KeyedRefCount over 2-3 keys (SetKey/RemoveKey/"
         "SyncKeys with duplicates/GetKey/GetKeys, AddKeyRef/Release in two segments (a third one if the call is found outside rc.mtx before "
         "Keyed.RemoveKey: gate 5, then raced against AddKeyRef of the same key)/KeyedRefCount.RemoveKey, Reset/Restart of one or all "
         "routines with conditions, SetContext/ClearContext over root contexts made on demand, the owner of a root context cancelling it "
         "(installed or not, again, before it is installed; afterwards calls of every kind and timer callbacks are steered at the dead "
         "root), instances stepped through their first select, user-function returns with "
         "nil/Canceled/error, bookkeeping sections, fake-clock advances, retry and delayed-removal timer callbacks parked and run later, the constructor's "
         "mode switched by the history - routine / nil Routine / nil Routine for odd keys - with ResetRoutine steered at records without a routine), "
         "release delay 0 or 1000 ms (a quarter of the delayed configurations hand WithReleaseDelay the negative value), back-off none/[100]/[100,200] + corpus; distinct = distinct event sequence; non-trivial = >= 10 events")


def _parse(ev, o):
    k = ev[0]
    if k in (2, 5, 6, 7, 8, 9, 10):
        nret = 2
    elif k in (3, 13):
        nret = 1
    elif k == 4:
        na = o[0]
        nret = 1 + na + 1 + o[1 + na]
    elif k == 19:
        nret = 1 + o[0]
    else:
        nret = 0
    rets, o = o[:nret], o[nret:]
    nk = o[0]
    keys, o = o[1:1 + 2 * nk], o[1 + 2 * nk:]
    ni = o[0]
    insts = [tuple(o[1 + 5 * i: 6 + 5 * i]) for i in range(ni)]
    o = o[1 + 5 * ni:]
    nd = o[0]
    delta, o = o[1:1 + 3 * nd], o[1 + 3 * nd:]
    nt = o[0]
    tims, o = o[1:1 + 3 * nt], o[1 + 3 * nt:]
    rels = o[1:1 + o[0]]
    return rets, keys, insts, delta, tims, rels


def _proj_c06(ev, o):
    # the key set with data, the return values, the removal callbacks and the Release calls; instances only as far as
    # the reference machine needs them (which key got a new instance, which exits were recorded)
    rets, keys, insts, delta, tims, rels = _parse(ev, o)
    return rets, keys, [i[1] for i in insts], delta, [tims[3 * j: 3 * j + 3] for j in range(len(tims) // 3) if tims[3 * j] == 1], rels


def _proj_c07(ev, o):
    # instances (state, key, record, context), recorded exits, retry callbacks
    rets, keys, insts, delta, tims, rels = _parse(ev, o)
    return insts, delta, [tims[3 * j: 3 * j + 3] for j in range(len(tims) // 3) if tims[3 * j] == 0]


_MODELS = [
    dict(name="keyed", pkg="./keyedx", test="TestKeyed", coq_mod="Keyed.Spec", run_check="run_check_keyed",
         corpus="keyed", project={"C06": _proj_c06, "C07": _proj_c07}, quick_n=1500, thorough_n=150000, nontrivial=nt_len(10), rule=_RULE,
         # the same correspondence in the free-running regime (real scheduler), in every check: oracles = invariants proved of the
         # model (one live instance per key that stays in the set; a referenced key is present): harness/keyedx/free_test.go
         free_search=dict(test="TestKeyedFree", props={"C06": [6], "C07": [5]}), free_always=True),
]
_TRUSTED = SCHED_TRUSTED + [
    "modelled, not verified: time.AfterFunc/Stop (armed/fired/stopped/ran), context.WithCancel (an instance's context is cancelled by its cancel function or, synchronously, with the root context it was derived from; it is born cancelled under a cancelled root), the scripted back-off built by the WithBackoff factory (one per record), the constructor callback (data = key*1000 + construction count; a routine or, as the history prescribes with event 22, a nil Routine)",
]
_ASSUME = ["Go map iteration order is unobservable: the model iterates in key order (SetContext, SyncKeys' removal loop, ResetAll/RestartAll), the harness numbers the instances spawned by one call in key order and compares key lists as sorted sets",
           "the harness realises the eager schedule for instances blocked on their predecessor; the theorems cover every placement of the wake-ups",
           "exit callbacks only log (key, data, error); they run after k.mtx is released",
           "two parked timer callbacks with the same deadline, kind and key (records of one key before and after ResetRoutine) are left parked by the generator: their relative order is not determined by the runtime"]

_TECH = "Coq inductive invariants and refinement over a gate-level interleaving model + schedule-controlled differential correspondence (synctest, fake clock) against the Go code"

_C06 = _COQ + ["Keyed/AbsSpec.v", "Keyed/ProofsC06.v", "Keyed/ProofsTm.v", "Keyed/ProofsC06b.v", "Keyed/ProofsC07.v"] + _MON + ["Keyed/Props_C06.v"]
_C07 = _COQ + ["Keyed/AbsSpec.v", "Keyed/ProofsC06.v", "Keyed/ProofsTm.v", "Keyed/ProofsC06b.v", "Keyed/ProofsC07.v"] + _MON + ["Keyed/Props_C07.v"]

PROPS = {
    "C06": dict(pid=6, coq=_C06, props_file="Keyed/Props_C06.v", models=_MODELS, trusted=_TRUSTED, assumptions=_ASSUME,
                meta=dict(
                    text="Coq refinement theorem over ALL event lists of a gate-level model of keyed.Keyed/KeyedRefCount (any keys, references, "
                         "instances, timers; key-set calls interleaved with instance steps, bookkeeping sections, clock advances and timer "
                         "callbacks that run arbitrarily late): the model's key-set part (keys in order, data, pending delayed removal per key, "
                         "references) is a run of the two-screen reference specification AbsSpec.v, every event of C06's alphabet (everything but "
                         "ResetRoutine/ResetAll) commutes with the abstraction, and every return value (data, existed, added, removed, GetKey, "
                         "GetKeys, GetKeysWithData) equals the specification's. Corollaries: a delayed key stays until the deadline of its own "
                         "removal timer (timers fire only when due: invariant); a re-requested key stays for good whatever stale callbacks run; a "
                         "failed key is removed at once; a reference-counted key is present with no removal pending while a reference is "
                         "unreleased; a second Release is a no-op. The pinned code's violations (D6, D19) are _refuted theorems and corpus "
                         "histories. Model tied to the code by scheduled differential correspondence; the reference machine itself is the monitor "
                         "state evaluated on the implementation's observations (key set after every event, data, return values, references); a "
                         "schedule point before Keyed.RemoveKey takes k.mtx (parked only when rc.mtx is free, which the verified code never "
                         "is there) exposes a Release whose removal is not atomic with its reference bookkeeping. Monitors tied to the model for ALL event "
                         "lists and configurations (model_satisfies_monitors, FULL statement proved): on the model's own observations no clause of the monitors "
                         "is ever false - 6/1 key set, 6/2 data, 6/3 return values, 6/4 references, 6/5 Release calls, 6/9 parsing (and all of 7/*): the "
                         "reference machine's key table (data, deadline of the pending removal, failed flag, constructor counts) describes the model's key map "
                         "after every step; the request-level machine simulates AbsSpec.v (extended by ResetRoutine/ResetAllRoutines) operation by operation. "
                         "The constructor callback may return NO routine (nil Routine; per-event mode, wire event 22): such a record occupies its key, is never "
                         "started, and keeps the exit channel of the instance ResetRoutine cancelled (D22 repair; the pinned code is a _refuted theorem).",
                    note=NOTE + "Interpretation: a removal request for a key whose removal is already pending changes nothing, even if the key's "
                                "routine has failed meanwhile (the code checks the pending removal first); 'failed' = the current record's recorded "
                                "exit was an error and nothing was started since. ResetRoutine on a key pending removal silently drops the removal "
                                "(outside C06's alphabet; modelled and in the correspondence).",
                    technique=_TECH)),
    "C07": dict(pid=7, coq=_C07, props_file="Keyed/Props_C07.v", models=_MODELS, trusted=_TRUSTED, assumptions=_ASSUME,
                meta=dict(
                    text="Coq invariants over ALL event lists of the same model: per incarnation of a key (lineage: the records a key has between "
                         "being added and removed; ResetRoutine keeps it) the exit-channel chain invariant => at most one instance inside the "
                         "routine function; every instance with a live context is the cancel target of the record registered under its key, so an "
                         "instance of a removed/replaced record is cancelled; removeNow unregisters and cancels; a record that is not registered "
                         "never returns to the map and no instance is ever started for it again; ClearContext cancels every instance; "
                         "SetKey(start=false)/SyncKeys(restart=false)/Get* leave retry timer, back-off and exit status untouched (D7 repaired); the "
                         "retry timer fires at its deadline and its callback starts a new instance. The pinned code's violations (D8, D8b, D7) are "
                         "_refuted theorems and corpus histories. Monitors on the implementation's observations: <=1 instance in user code per "
                         "incarnation, live in-user instances belong to a present key's current incarnation and only while the container has a "
                         "context, nothing spawned for an absent key or without context, a due retry is parked or has spawned; and against the "
                         "request-level reference key set (what the caller asked for): a key that the requests have removed - at once, or its "
                         "release delay has run out and its removal callback is not merely parked - has no in-user instance with a live "
                         "context (7/6) and gets no new instance (7/7). Root contexts cancelled by their owner (not through the container) are modelled: "
                         "an instance whose root is cancelled is cancelled in every reachable state, the container drops a cancelled root at its next "
                         "SyncKeys/ResetRoutine/RestartRoutine call and starts nothing there. A constructor that returns NO routine (nil Routine; per-event mode, wire "
                         "event 22) is modelled: the record occupies its key, is never started, RestartRoutine leaves it alone, and ResetRoutine hands it the exit "
                         "channel of the instance it cancelled so that the next record's instance still waits (D22 repair; pinned code: _refuted theorem and corpus "
                         "history). Monitors tied to the model for ALL event lists and configurations (model_satisfies_monitors, FULL statement proved, and "
                         "model_run_check_clean for run_check_keyed): on the model's own observations no clause is ever false - 7/1 7/2 7/3 7/4 (the monitors' "
                         "incarnations name the model's lineages; a live instance was started under the root the container holds), 7/5 (a retry obligation is the "
                         "pending retry timer of the record registered under the key; it survives ClearContext / SetContext(nil) / a dropped cancelled root and is "
                         "consumed when its callback runs without a live context; the monitors' back-off index is the record's; a due timer has fired after the "
                         "eager schedule), 7/6 7/7 (a key registered in the model is never gone for the reference machine: a due pending removal has its callback "
                         "parked), 7/9, and all of 6/*.",
                    note=NOTE + "Retry liveness is stated per step (fires when due; callback restarts) and monitored on every trace; 'retried while "
                                "wanted' : a pending retry survives ClearContext / SetContext(nil) and a cancelled root being dropped (non-restarting calls); at its deadline "
                                "it must be parked/carried out if the container then holds a live context; if its callback runs without one the retry is consumed (the code checks k.ctx != nil). A stale "
                                "retry callback (fired before a manual restart, run after it) restarts the routine early, also after a success - "
                                "the keyed analogue of routine's D20; not covered by C07's text, reported as an observation.",
                    technique=_TECH)),
}
