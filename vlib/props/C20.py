from vlib.common import NOTE


def nt_c20(h):
    # non-trivial: at least two calls on the object, or one call that carries at least 4 integers
    evs = h["evs"]
    return len(evs) >= 2 or (len(evs) == 1 and len(evs[0].split()) >= 4)


PROPS = {
    "C20": dict(
        pid=20,
        coq=["IO/Model.v", "IO/Spec.v", "IO/Proofs.v", "Unique/Model.v", "Unique/Spec.v", "Unique/Proofs.v", "IO/Props_C20.v"],
        props_file="IO/Props_C20.v",
        models=[
            dict(name="io", pkg="./iox", test="TestIO", coq_mod="IO.Spec", run_check="run_check_io",
                 corpus="io", quick_n=8000, thorough_n=800000, nontrivial=nt_c20, tags="",
                 rule="one object per history (config line): ioseek over a scripted ReaderAt serving exactly `size` bytes with io.SectionReader alongside "
                      "(Seek with all three whences + invalid ones, offsets around 0/size/+-1/int64 min/max and wrapping sums; Reads with short/zero counts, "
                      "errors with n>0), iosizer over scripted reader/writer (nil streams, counts > MaxUint32, > len(p), negative, MaxInt64 sums that wrap), "
                      "iocloser Read/WriteCloser (nil stream, nil close func, repeated Close, IO after Close), ioproxy one complete ProxyStreams run per event "
                      "inside a synctest bubble over two scripted ReadWriteClosers (chunk sizes around 8192, EOF/error/block-until-Close terminals, writers that "
                      "fail or write short after k bytes, nil callback); 1-15 calls; distinct = distinct config+event sequence; non-trivial = >= 2 calls or a call with >= 4 integers"),
            dict(name="unique", pkg="./uniquex", test="TestUnique", coq_mod="Unique.Spec", run_check="run_check_unique",
                 corpus="unique", quick_n=6000, thorough_n=600000, nontrivial=nt_c20, tags="",
                 rule="KeyedList[uint64,V] / KeyedMap[uint64,V], V = struct{K,P}; cmp modes payload-equal / never / parity / always; 1-12 calls of "
                      "SetValues/AppendValues/RemoveValues/RemoveKeys/GetKeys/GetValues over a small key and payload domain (duplicates within one call, "
                      "equal-per-cmp-but-different values, empty calls, absent keys, initial values with duplicates); map-iteration-ordered parts of the log sorted; "
                      "distinct = distinct config+event sequence; non-trivial as for io"),
        ],
        trusted=[
            "modelled, not verified: io.CopyBuffer (Go's; the model is its documented loop: read <= 8192, write all, stop on first error/EOF/short write, no "
            "WriterTo/ReaderFrom shortcut) -- the two ioproxy theorems are about that modelled loop; Go's is exercised by every proxy history",
            "Go map semantics as an association list sorted by key; Go map iteration order is the only nondeterminism of unique and is removed by sorting the "
            "affected parts of the notification log in the harness (rule in Unique/Spec.v)",
            "the scripted wrapped streams and io.SectionReader (third opinion for ioseek, made bounded by undoing seeks beyond the size) in the harness",
        ],
        assumptions=[
            "ioseek domain: the wrapped ReaderAt serves exactly the `size` bytes the wrapper was told about (0 <= n <= len p and off + n <= size per call, "
            "arbitrary short reads and errors); Seek offsets are arbitrary int64 values, whence arbitrary; size < 2^63",
            "iosizer: the total is compared modulo 2^64 with the sum of the POSITIVE returned counts (a wrapped stream returning a negative count is not counted, as in the code)",
            "ioproxy: streams are scripted (their Read/Write results do not depend on Close except for a Read blocked until Close); a run in which neither pump "
            "can return by itself keeps running: nothing closed, callback not called",
            "unique: replay of the notification log uses value equality on (K,P); cmp is arbitrary (no reflexivity/symmetry/transitivity assumed in any theorem)",
        ],
        meta=dict(
            text="Coq theorems over ALL call sequences of executable models: ioseek refines a bounded section reader whose position is computed in unbounded Z "
                 "(int64 wrap-around of offset sums is modelled and proved unobservable; out-of-range Seek fails with the position unchanged; Read advances by the "
                 "returned count; 0 <= position <= size); iosizer total = sum of returned counts mod 2^64 (pinned code refuted: D16); iocloser passes calls through "
                 "until Close, runs the close function exactly once, afterwards (0, EOF) without touching the wrapped stream; ioproxy (modelled copy loop) delivers a "
                 "prefix in order in both directions, all of it when the destination accepts everything, closes both sides and calls the callback twice; "
                 "unique.KeyedList/KeyedMap contents strictly sorted by key for every cmp (one value per key), per-key effect of every call = fold of 'replace unless "
                 "equal per cmp' over the entries mentioning the key (duplicates included), notification log replayed strictly on the previous contents gives the new "
                 "contents; theorems that the boolean monitors accept every model history. Models tied to the code by differential correspondence on every run "
                 "(extracted model vs. real code, monitors evaluated on the implementation's observations).",
            note=NOTE + "PARTIAL for ioproxy: the theorems c20_proxy_bytes_in_order and c20_proxy_closes_both_and_calls_cb_twice are about the modelled "
                        "io.CopyBuffer loop; Go's io.CopyBuffer is exercised by the harness, not verified. Wrapped streams are oracles (scripted by the harness).",
            technique="Coq proof (refinement to an unbounded-Z section reader, list induction, sortedness invariant, log replay) about executable Gallina models + "
                      "differential correspondence against the Go code",
        ),
    ),
}
