from vlib.common import NOTE


def _nt_lifo(h):
    # non-trivial: a free-running stream, or a scheduled history with at least 3 calls and 8 events
    if h["cfg"] and h["cfg"].split()[:1] == ["1"]:  # free-running stream
        return True
    calls = sum(1 for e in h["evs"] if e.split()[:1] in (["1"], ["2"]))
    return calls >= 3 and len(h["evs"]) >= 8


def _nt_ll(h):
    if h["cfg"] and h["cfg"].split()[:1] == ["1"]:  # free-running stream
        return True
    return len(h["evs"]) >= 6


_RULE_LIFO = ("implementation-driven gate-level histories of AtomicLIFO (2-10 Push/Pop calls, 2-4 concurrently pending, every load and "
              "compare-and-swap a separate step; 30% start with a scripted 'park A between load and CAS, let B complete, step A' prefix; "
              "15% duplicate values; 15% end with calls still pending; every history ends with a drain) + every 10th history a free-running "
              "stream (4-8 unparked goroutines, Gosched in the hook, 50-450 pushes, conservation only) + corpus; distinct = distinct event "
              "sequence; non-trivial = free stream, or >= 3 calls and >= 8 events")
_RULE_LL = ("random sequential histories of LinkedList (5-40 calls of Push/PushFront/Pop/Peek/PeekTail/IsEmpty/Reset, list kept short so "
            "that the empty and one-element transitions dominate, 0-2 initial elements through NewLinkedList, drains) + every 10th history a "
            "free-running stream (4-8 goroutines, conservation only) + corpus; distinct = distinct event sequence; non-trivial = free stream or >= 6 events")

PROPS = {
    "C12": dict(
        pid=12,
        coq=["Common/ListLemmas.v", "Lifo/Lin.v", "Lifo/Model.v", "Lifo/Spec.v", "Lifo/Proofs.v",
             "Lifo/ProofsMon.v", "Lifo/ProofsMon2.v",
             "Lifo/LLModel.v", "Lifo/LLSpec.v", "Lifo/LLProofs.v", "Lifo/Props_C12.v"],
        props_file="Lifo/Props_C12.v",
        models=[
            dict(name="lifo", pkg="./lifox", test="TestLifo", coq_mod="Lifo.Spec", run_check="run_check_lifo",
                 corpus="lifo", quick_n=1500, thorough_n=150000, nontrivial=_nt_lifo, rule=_RULE_LIFO),
            dict(name="linkedlist", pkg="./lifox", test="TestLinkedList", coq_mod="Lifo.LLSpec", run_check="run_check_linkedlist",
                 corpus="linkedlist", quick_n=1500, thorough_n=150000, nontrivial=_nt_ll, rule=_RULE_LL),
        ],
        trusted=[
            "memory model of Lifo/Model.v and Lifo/LLModel.v: node/cell addresses are never reused while referenced (Go's garbage collector; this IS the "
            "no-ABA assumption), atomic.Pointer Load/CompareAndSwap are sequentially consistent single steps, a node is written only by the Push that "
            "allocated it and only before its successful CAS",
            "schedule points: cqueue.VerifHook sites 0-3 (/repo/cqueue/verif_on.go) cut Push/Pop exactly at their shared-memory accesses; "
            "LinkedList: one critical section of l.mtx is one model step (Go's sync.RWMutex trusted)",
            "Go 1.26.8 testing/synctest (exact quiescence), goroutine-id parsing in the harness; the free-running streams run outside a bubble",
            "monitor clause 1 uses an executable search over linearization orders (lin_search, histories with <= 10 calls); the search is a monitor, "
            "not a proof: the proof of linearizability is c12_lifo_linearizable / c12_linkedlist_linearizable via Lin.lp_run_linearizable; "
            "that the search (and clauses 2-4) accept every observation of the lifo model, for all configs and event lists, is "
            "c12_lifo_model_satisfies_monitors (no longer trusted)",
        ],
        assumptions=[
            "pushed values are non-zero in AtomicLIFO histories (Pop returns the zero value for 'empty'); c12_pop_zero_iff_empty_at_lp states the value form under this premise",
            "the scheduled harness observes an operation as returned in the same step as its linearization point (the actor runs on to its return); "
            "the theorems cover every later placement of the response (Ret is a separate model event)",
            "LinkedList histories of the scheduled stream are sequential (each call is one whole critical section, run in history order); concurrency of "
            "LinkedList calls is exercised only by the free-running stream (conservation) and covered by the theorem over all interleavings of critical sections",
            "the free-running streams are compared order-free (sorted multiset of popped+drained values against one schedule of the model; justified by c12_lifo_conservation)",
        ],
        meta=dict(
            text="Coq theorems over ALL event lists of an atomic-operation-level interleaving model of cqueue.AtomicLIFO (any number of Push/Pop calls, every "
                 "interleaving of loads, compare-and-swaps and returns; never-reused node addresses): representation invariant, abstraction function = values "
                 "reachable from top, linearization points (successful CAS / load that saw nil) perform the sequential push/pop and all other steps leave the "
                 "abstract stack unchanged, hence every history is Herlihy-Wing linearizable w.r.t. the sequential LIFO (generic meta-theorem Lin.lp_run_linearizable, "
                 "proved once, axiom-free); Pop returns zero iff empty at its linearization point; multiset conservation (linearized pushes = popped + remaining; "
                 "no value returned more often than pushed). LinkedList: pointer-level model (heap, head, tail, mutable next), representation theorem "
                 "(tail=nil iff head=nil), every method refines the sequential deque operation, every interleaving of critical sections is linearizable. "
                 "Models tied to the code by scheduled differential correspondence: the harness steps the real AtomicLIFO one atomic access at a time through "
                 "the cqueue hooks (forcing CAS failures), the extracted model must produce the same status vectors and results, and linearizability "
                 "(search over linearization orders), zero-iff-empty and conservation monitors are evaluated on the implementation's observations; free-running "
                 "multi-goroutine streams are checked for conservation.",
            note=NOTE + "The no-ABA / garbage-collection memory assumption is part of the model. Linearizability of observed histories is checked by a bounded search (monitor); the proof is about the model.",
            technique="Coq forward simulation to a linearization-point automaton (Herlihy-Wing meta-theorem) + inductive invariants over an interleaving model + schedule-controlled differential correspondence against the Go code",
        ),
    ),
}
