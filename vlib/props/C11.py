from vlib.common import NOTE, SCHED_TRUSTED


def _triples(o):
    xs = o.split()
    return [(xs[i], xs[i + 1], xs[i + 2]) for i in range(0, len(xs) - 2, 3)]


def nt_promise(h):
    # non-trivial: at least 8 events, some actor observed blocked (status 2) and some await observed returned (status 4)
    return (len(h["evs"]) >= 8 and any(c == "2" for o in h["obs"] for c, _, _ in _triples(o))
            and any(c == "4" for o in h["obs"] for c, _, _ in _triples(o)))


PROPS = {
    "C11": dict(
        pid=11,
        coq=["Common/ListLemmas.v", "Promise/Model.v", "Promise/Spec.v", "Promise/Proofs.v", "Promise/ProofsMon.v", "Promise/ProofsMon2.v",
             "Promise/ProofsElide.v", "Promise/Props_C11.v"],
        props_file="Promise/Props_C11.v",
        models=[
            dict(name="promise", pkg="./promisex", test="TestPromise", coq_mod="Promise.Spec", run_check="run_check_promise",
                 corpus="promise", quick_n=2500, thorough_n=250000, nontrivial=nt_promise,
                 rule="implementation-driven random histories of one PromiseContainer and up to 6 Promises (NewPromise / NewPromiseWithResult, "
                      "SetResult calls parked between the winning Swap and the field writes, the three Await variants on promises and on the "
                      "container incl. pre-cancelled contexts and pre-fired channels, context cancellations, error/cancel channel sends and closes, "
                      "container SetPromise incl. nil and the same promise, container SetResult, GetPromise; one HoldLock section at a time; the n-th awaiter "
                      "of a history brings a context of flavour n mod 4: 0, 2 plain WithCancel, 1 ending like a deadline (Err() = DeadlineExceeded), 3 cancelled "
                      "with a cause; error codes tell context.Canceled / DeadlineExceeded / the cause / the harness's other errors / anything else apart; in a "
                      "third of the histories container awaiters also park at the exit gate so that several select cases are ready; thorough tier only: one saturation history, 2^32 SetResult calls on one resolved promise of which the calls number 2^8+1, 2^16+1 and 2^32+1 are recorded events and the others, no-ops by c11_setresult_on_resolved_is_noop, are elided) + every tenth history a "
                      "free-running stress history (100 rounds of 2-5 SetResult calls racing with 1-5 awaiters on a fresh promise, real parallelism, no gates: "
                      "exactly one true, every awaiter got that call's result, no panic) + corpus (D11, D20); "
                      "distinct = distinct event sequence; non-trivial = >= 8 events, an actor observed blocked and an await observed returned"),
        ],
        trusted=SCHED_TRUSTED + [
            "a spinning awaiter is recognised by the harness: more than 3 passes of its HoldLock entry gate while nothing else runs => status 7; "
            "a goroutine that spins without passing a gate trips a 30 s wall-clock watchdog (the run fails, last history on disk)",
        ],
        assumptions=[
            "the harness realises the eager schedule (a blocked awaiter whose select becomes ready runs on at once); the theorems cover every placement of wake-ups",
            "when several select cases are ready the Go runtime chooses; the choice is read off the stepped actor's status and passed to the model with the event",
            "liveness stated as quiescence safety; 'without consuming CPU' is PARTIAL by nature: proved as a bound of 3 solo segments on the model (c11_no_spin), "
            "enforced on the implementation by the harness's gate-pass budget and watchdog; CPU time itself is not modelled",
            "'returns the result of the promise that is current' is read at the awaiter's last HoldLock section",
            "error identity under an ended context (clauses 2 / 3): an await that returns on account of its context returns (zero value, context.Canceled) "
            "-- the identical error value -- also when the context's own Err() is DeadlineExceeded or it carries a cancellation cause; the property text "
            "does not name the error, the code and its doc comments do ('Returns nil, context.Canceled if ctx is canceled'), the model predicts it and "
            "the clauses accept nothing else under a cancelled context; the flavour is derived from the number of awaiters created before (replayable) "
            "and is not an argument of the model",
            "one PromiseContainer per history holding plain Promises (a container nested in a container is not modelled)",
            "interleavings of the memory accesses INSIDE one segment (Swap vs. Load+Store, fields written after close(done)) cannot be forced by the "
            "controller; they are covered by the model theorems and searched for by the free-running stress histories (chance-dependent)",
            "Go's select choice is not seeded: a replayed history may take the other ready case; hints are recomputed on replay",
            "monitors tied to the model for ALL event lists and both configurations (c11_model_satisfies_monitors, c11_model_run_check_clean): on the model's own "
            "observations no clause other than clause 7 is ever false; clause 7 is the recorded finding D20/D21, false on the model as on the code "
            "(c11_monitors_clause7_refuted), and raised only in that situation (c11_clause7_only_in_d21); the bounded sweep "
            "c11_monitors_accept_model_bounded is kept as an independent kernel computation",
        ],
        meta=dict(
            text="Coq theorems over ALL event lists of an interleaving model of promise.Promise at memory-access granularity (Swap | gate | field writes + close) and of "
                 "PromiseContainer at HoldLock-section granularity, any number of setters / awaiters / replacements, every result incl. (v, context.Canceled): exactly the "
                 "first Swap wins, fields are written once before done is closed, every await that returns by result returns the winner's arguments, no awaiter is blocked "
                 "at quiescence while a result is available / its context is cancelled / its channel fired (with the recorded exception D20 for container awaiters), a "
                 "container awaiter blocked at quiescence waits on the CURRENT promise, returns the current result whatever its error, and blocks or returns within 3 solo "
                 "segments. The pinned code's spin (D11) is a _refuted theorem and a corpus history. Model tied to the code by scheduled differential correspondence "
                 "(synctest, promise/broadcast schedule points); monitors evaluated on the implementation's observations.",
            note=NOTE + "Gate placement trusted. 'Without consuming CPU' is partial by nature (bounded solo segments on the model; gate-pass budget + watchdog on the implementation).",
            technique="Coq inductive invariants over an interleaving model + schedule-controlled differential correspondence against the Go code",
        ),
    ),
}
