from vlib.common import nt_pure, NOTE

PROPS = {
    "C19": dict(
        pid=19,
        coq=["Pure/Model.v", "Pure/Spec.v", "Pure/Proofs.v", "Pure/Props_C19.v"],
        props_file="Pure/Props_C19.v",
        models=[
            dict(name="pure", pkg="./pure", test="TestPure", coq_mod="Pure.Spec", run_check="run_check_pure",
                 corpus="pure", quick_n=6000, thorough_n=600000, nontrivial=nt_pure, tags="",
                 rule="one call per case (pad with capacity variants and dirty tail, unpad on arbitrary/crafted input, "
                      "round trip, Prefix/TrimPrefix over 0-6 strings with shared prefixes incl. bytes >= 0x80, reader "
                      "chunkings incl. 0 and > 8, seed splits); distinct = distinct event line; non-trivial = at least 3 payload integers"),
        ],
        trusted=[
            "modelled, not verified: SHA-256 and ChaCha8 (Go's; parameters H/src of the model; exercised by the seed-split cases), "
            "Go slice/capacity semantics as written in pad_mem, strings.HasPrefix/TrimPrefix as is_prefix/skipn",
        ],
        assumptions=[
            "bytes are 0..255 (harness); the model is over arbitrary N",
            "different seed data yields different streams (oracle assumption used only by the seed-split cases)",
        ],
        meta=dict(
            text="Coq theorems over all byte lists / string lists / chunk-size lists for executable models of PadInPlace (both capacity branches), "
                 "UnpadInPlace, Prefix, TrimPrefix and randReader.Read, plus the theorem that the boolean monitors accept every model output; "
                 "model tied to the code by differential correspondence on every run (boundary-heavy generated inputs, extracted model vs. real code, "
                 "monitors evaluated on the implementation's outputs).",
            note=NOTE + "SHA-256 and ChaCha8 are parameters of the model (exercised by seed-split cases, not verified).",
            technique="Coq proof (list induction, loop invariants) about an executable Gallina model + differential correspondence against the Go code",
        ),
    ),
}
