from vlib.common import NOTE, SCHED_TRUSTED


def nt_ccall(h):
    # non-trivial: a call with at least two entries that got at least to a function return and a record section,
    # or any history of at least 6 events
    return len(h["evs"]) >= 6


PROPS = {
    "C17": dict(
        pid=17,
        coq=["Common/ListLemmas.v", "CCall/Model.v", "CCall/Spec.v", "CCall/Proofs.v", "CCall/Props_C17.v"],
        props_file="CCall/Props_C17.v",
        models=[
            dict(name="ccall", pkg="./ccallx", test="TestCCall", coq_mod="CCall.Spec", run_check="run_check_ccall",
                 corpus="ccall", quick_n=2500, thorough_n=150000, nontrivial=nt_ccall,
                 # the same correspondence in the free-running regime, in every check (harness/ccallx/free_test.go)
                 free_search=dict(test="TestCCallFree", props={"C17": [5]}), free_always=True,
                 rule="one CallConcurrently call per history: 0-5 entries incl. nil entries (also only nil entries), caller context cancelled "
                      "before / during the call or never, every function returns nil / context.Canceled / one of three errors in an "
                      "implementation-driven random order against the caller's gates; the caller's context is plain / ends like a deadline / is cancelled with a cause "
                      "(config [k], harness/hctx; result codes distinguish context.Canceled, context.DeadlineExceeded, the cause, any other foreign error) (entry AND exit gates of the caller's two sections, entry "
                      "gate of every record section), both select cases ready in a share of the histories, function returns after the call "
                      "returned; + corpus (D12 window, single nil function, all-nil, inline path with cancelled context); distinct = distinct "
                      "event sequence; non-trivial = at least 6 events"),
        ],
        trusted=SCHED_TRUSTED + [
            "the caller is parked at the HoldLock exit gates of its own sections, so the window between a section and the code that follows it is a schedule point; "
            "worker goroutines are identified by the goroutine that entered the harness-owned function",
        ],
        assumptions=[
            "functions are harness-owned: they do not panic and return exactly what the history prescribes (nil, context.Canceled itself, or one of a fixed set of error values compared by identity)",
            "which select case Go takes when both are ready cannot be forced; the harness retries until the prescribed case was taken and logs the cut attempts as histories of their own (the theorems cover both cases: Wake is its own event)",
            "liveness stated as quiescence safety: in no state without enabled internal steps is the caller blocked while it could return",
            "one-function path (interpretation recorded in DESIGN.md): the call is that function's result even if the caller's context is cancelled",
        ],
        meta=dict(
            text="Coq theorems over ALL event lists of a gate-level interleaving model of ccall.CallConcurrently (any number of entries incl. nil entries, every "
                 "interleaving of the caller's spawn/read sections and their exit windows, the workers' record sections, function returns with any outcome, caller "
                 "cancellation, both select cases): every function entered exactly once; nil only if every function returned nil and recorded it; an error result "
                 "is an error some function returned and a returned non-Canceled error is never masked by nil; Canceled only if the caller's context was cancelled "
                 "or a function returned Canceled; the functions' context is cancelled once the call has returned; at quiescence the caller is not blocked while it "
                 "could return. The pinned code's violation (D12: shared counter read after the spawn section) is a _refuted theorem and a corpus history. Model tied "
                 "to the code by scheduled differential correspondence (synctest): the extracted model must reproduce the status vectors, the call's result, entry "
                 "counts and context states; the six monitor clauses are evaluated on the implementation's observations.",
            note=NOTE + "Gate placement and the atomicity of a Broadcast critical section are trusted (C13 argues the lock discipline).",
            technique="Coq inductive invariant over an interleaving model + schedule-controlled differential correspondence against the Go code",
        ),
    ),
}
