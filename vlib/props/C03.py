from vlib.common import NOTE, SCHED_TRUSTED


def _nt_bcast(h):
    # non-trivial: at least 8 events and some observation in which an actor is blocked (status 2)
    if len(h["evs"]) < 8:
        return False
    for o in h["obs"]:
        f = o.split()
        if len(f) >= 2 and "2" in f[2:2 + int(f[1])]:
            return True
    return False


PROPS = {
    "C03": dict(
        pid=3,
        coq=["Common/ListLemmas.v", "Bcast/Model.v", "Bcast/Spec.v", "Bcast/Proofs.v", "Bcast/Props_C03.v"],
        props_file="Bcast/Props_C03.v",
        models=[
            dict(name="bcast", pkg="./bcastx", test="TestBcast", coq_mod="Bcast.Spec", run_check="run_check_bcast",
                 corpus="bcast", quick_n=2000, thorough_n=200000, nontrivial=_nt_bcast,
                 # the same correspondence in the free-running regime, in every check (harness/bcastx/free_test.go)
                 free_search=dict(test="TestBcastFree", props={"C03": [5]}), free_always=True,
                 rule="implementation-driven random gate-level histories on one Broadcast guarding a harness-owned integer "
                      "(HoldLock / TryHoldLock / HoldLockMaybeAsync callbacks running small programs of broadcast, getWaitCh, g++ and g:=v, "
                      "callbacks that stay inside the lock, callers that block on the channel they took, Wait with 4 predicate kinds incl. "
                      "errors, nil arguments, pre-cancelled contexts, cancellations while parked / blocked / at the exit gate; the contexts of the Wait calls are "
                      "plain / ending like a deadline / cancelled with a cause in turn (harness/hctx; statuses distinguish context.Canceled, "
                      "context.DeadlineExceeded, the cause, any other error); in 3 of 5 random histories 10-35% of the client callbacks PANIC after a prefix "
                      "of their program (on all three entry points, also after having stayed inside the lock with others queueing; the caller recovers; "
                      "never on HoldLockMaybeAsync's own goroutine); directed: a Wait call parked "
                      "at its HoldLock gate (also queueing behind a callback that holds the lock, also after having been woken) is cancelled and then "
                      "runs its section with the predicate returning error / true / false, new calls often use the current value as parameter) + corpus; "
                      "distinct = distinct event sequence; non-trivial = >= 8 events and some actor observed blocked"),
        ],
        trusted=SCHED_TRUSTED,
        assumptions=[
            "the harness realises the eager schedule (woken waiters run to their next gate at once); the theorems cover every placement of wake-ups",
            "'both select cases ready' (context cancelled and channel closed before the select) is produced through the HoldLock exit gate; both orders end in context.Canceled in the code and in the model",
            "a panic raised by a callback on the goroutine HoldLockMaybeAsync starts when the mutex is taken cannot be recovered by anybody (it kills the process, in the unchanged code too): such calls are not events of the model and are never generated",
            "a mutex that stays locked although no callback is inside is detected by the harness (TryLock on the Broadcast's sync.Mutex field at quiescent points) before it lets an actor run into its section; such an actor is left at its gate and reported as blocked, which is what it would be (a sync.Mutex block is not durable under synctest)",
            "liveness stated as quiescence safety: in every reachable quiescent state no blocked Wait call's predicate holds, under the client discipline 'every callback that writes the guarded value broadcasts afterwards' (a boolean on the event list)",
        ],
        meta=dict(
            text="Coq theorems over ALL event lists of a gate-level interleaving model of broadcast.Broadcast (any number of HoldLock / TryHoldLock / "
                 "HoldLockMaybeAsync callers running arbitrary programs of broadcast / getWaitCh / writes, any number of Wait calls, every interleaving of "
                 "critical sections, wake-ups, cancellations): a handed-out channel is closed iff a broadcast happened since (first later broadcast closes, "
                 "open until the next, closing monotone); Wait returns nil only on a true predicate, passes the predicate's error through (both directions: returned "
             "10+e only after an evaluation that gave e, and an evaluation that gives e is returned in that very step whether or not the context has been "
             "cancelled meanwhile - monitor clause 8 reads this on the observed trace), returns Canceled "
                 "only if cancelled; a callback that panics ends its critical section there (prefix of its program performed, mutex released, caller gets the panic: "
                 "c03_panicking_callback_releases_the_lock / _holder_), and all theorems quantify over such programs; no-lost-wake-up invariant (closed c or g = sampled value or an undisciplined write happened) and its quiescence corollary; "
                 "and the theorem that the property monitors report nothing on the model's own observations for every event list (c03_model_satisfies_monitors). "
                 "Model tied to the code by scheduled differential correspondence (synctest, one critical section at a time, extracted model must produce the same "
                 "status vectors, guarded value and channel open/closed flags); monitors evaluated on the implementation's observations.",
            note=NOTE + "Gate placement and the atomicity of a Broadcast critical section are trusted (C13 argues the lock discipline).",
            technique="Coq inductive invariant over an interleaving model + schedule-controlled differential correspondence against the Go code",
        ),
    ),
}
