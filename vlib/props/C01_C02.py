from vlib.common import nt_sched, NOTE, SCHED_TRUSTED

_CSYNC_COQ = ["Common/ListLemmas.v", "CSync/RWModel.v", "CSync/RWProofs.v", "CSync/RWSpec.v", "CSync/MModel.v", "CSync/MProofs.v", "CSync/MSpec.v",
              "CSync/MonCore.v", "CSync/RWProofsMon.v", "CSync/MProofsMon.v"]
_CSYNC_RULE = ("implementation-driven random gate-level histories (Lock/TryLock read+write, Locker.Lock/Unlock on the write and read lockers, one critical section at a time, "
               "context cancellations, release calls incl. double releases) + corpus; distinct = distinct event sequence; "
               "non-trivial = >= 8 events and some actor observed blocked")
_CSYNC_MODELS = [
    dict(name="rwmutex", pkg="./csyncx", test="TestRWMutex", coq_mod="CSync.RWSpec", run_check="run_check_rwmutex",
         corpus="rwmutex", quick_n=1500, thorough_n=150000, nontrivial=nt_sched, rule=_CSYNC_RULE,
         free_search=dict(test="TestRWMutexFree", props={"C01": [5], "C02": [6]}), free_always=True),
    dict(name="mutex", pkg="./csyncx", test="TestMutex", coq_mod="CSync.MSpec", run_check="run_check_mutex",
         corpus="mutex", quick_n=1500, thorough_n=150000, nontrivial=nt_sched, rule=_CSYNC_RULE,
         free_search=dict(test="TestMutexFree", props={"C01": [5], "C02": [6]}), free_always=True),
]

PROPS = {
    "C01": dict(
        pid=1, coq=_CSYNC_COQ + ["CSync/Props_C01.v"], props_file="CSync/Props_C01.v", models=_CSYNC_MODELS,
        trusted=SCHED_TRUSTED,
        assumptions=["the harness realises the eager schedule (woken waiters run to their next gate at once); the theorems cover every placement of wake-ups",
                     "'both select cases ready' is covered by the theorems (CancelWake/Wake are separate events) but not produced by the harness"],
        meta=dict(
            text="Coq theorems over ALL event lists of gate-level interleaving models of csync.Mutex and csync.RWMutex (any number of calls, every "
                 "interleaving of critical sections, cancellations, wake-ups, release calls): counting invariant => at most one API-level write holder and then no "
                 "read holder; release idempotent; failed TryLock / cancelled Lock inert. Models tied to the code by scheduled differential correspondence: "
                 "the harness drives the real locks one critical section at a time (synctest) and the extracted model must produce the same status vectors; "
                 "exclusion monitors are evaluated on the implementation's observations; c01_*_model_satisfies_monitors: for all event lists the monitors (through the sync.Locker layer) report nothing on the model's own observations.",
            note=NOTE + "Gate placement and the atomicity of a Broadcast critical section are trusted (C13 argues the lock discipline). The sync.Locker wrappers (Locker(), RLocker(), MutexLocker) are in the codec and the harness as Lock-with-background-context plus a stack of release functions (events 6/7; monitor clause 1/3: Unlock panics exactly when the locker holds nothing).",
            technique="Coq inductive invariant over an interleaving model + schedule-controlled differential correspondence against the Go code",
        ),
    ),
    "C02": dict(
        pid=2, coq=_CSYNC_COQ + ["CSync/MTerm.v", "CSync/RWTerm.v", "CSync/Props_C02.v"], props_file="CSync/Props_C02.v", models=_CSYNC_MODELS,
        trusted=SCHED_TRUSTED,
        assumptions=["liveness stated as quiescence safety: no grantable waiter is blocked in any state without enabled internal steps",
                     "termination of internal steps is a theorem for both locks, with explicit measures (c02_mutex_internal_steps_terminate, c02_rwmutex_internal_steps_terminate: only the unlocking section of an entered release() and the give-up section of a cancelled waiting writer broadcast, each call at most once)"],
        meta=dict(
            text="Coq theorems over all event lists of the same models: no-lost-wake-up invariant (a caller blocked on an open channel is not grantable), hence at every "
                 "quiescent state no grantable waiter is blocked and no cancelled caller is blocked; counters have no residue from cancelled/failed calls; a read grant "
                 "happens only when no writer is registered waiting (writer preference). The pinned code's violation (D1) is a _refuted theorem and a corpus history. "
                 "Correspondence as C01, with quiescence monitors on the implementation's observations.",
            note=NOTE + "Liveness is stated as quiescence safety plus termination of internal steps (proved for Mutex and RWMutex with explicit measures, MTerm.v / RWTerm.v). The monitors are tied to the models by c02_*_model_satisfies_monitors (all event lists, through the sync.Locker layer).",
            technique="Coq inductive invariant (no lost wake-up) over an interleaving model + schedule-controlled differential correspondence",
        ),
    ),
}
