from vlib.common import NOTE, SCHED_TRUSTED


def _pairs(o):
    xs = o.split()
    return [(xs[i], xs[i + 1]) for i in range(0, len(xs) - 1, 2)]


def nt_once(h):
    # non-trivial: at least 8 events, some caller observed blocked in Await and at least one callback entry
    return (len(h["evs"]) >= 8 and any(c == "2" for o in h["obs"] for c, _ in _pairs(o))
            and any(c == "6" for o in h["obs"] for c, _ in _pairs(o)))


def nt_memo(h):
    # non-trivial: at least 3 events and some caller observed blocked on done
    return len(h["evs"]) >= 3 and any(c == "2" for o in h["obs"] for c, _ in _pairs(o))


PROPS = {
    "C16": dict(
        pid=16,
        coq=["Common/ListLemmas.v", "Once/Model.v", "Once/Spec.v", "Once/Proofs.v", "Once/ProofsMon.v", "Once/ProofsMon2.v",
             "Once/ProofsMonMemo.v", "Once/Props_C16.v"],
        props_file="Once/Props_C16.v",
        models=[
            dict(name="once", pkg="./oncex", test="TestOnce", coq_mod="Once.Spec", run_check="run_check_once",
                 corpus="once", quick_n=2500, thorough_n=250000, nontrivial=nt_once,
                 # the same correspondence in the free-running regime (Once and MemoizeFunc), in every check (harness/oncex/free_test.go)
                 free_search=dict(test="TestOnceFree", props={"C16": [5]}), free_always=True,
                 rule="implementation-driven random gate-level histories of one promise.Once (Resolve calls incl. pre-cancelled contexts, "
                      "critical sections of callers and of the callback goroutine one at a time, context cancellations of waiters and of "
                      "the spawner incl. the starter of a running callback while others wait, callback outcomes value / error / Canceled / "
                      "non-zero value together with an error; the k-th Resolve of a history brings a context of flavour k mod 4: 0, 2 plain WithCancel, "
                      "1 ending like a deadline (Err() = DeadlineExceeded), 3 cancelled with a cause (Cause = a harness error); return codes tell "
                      "context.Canceled / DeadlineExceeded / the cause / a callback's error / any other error apart) + corpus; "
                      "distinct = distinct event sequence; non-trivial = >= 8 events, a caller observed blocked and a callback entered"),
            dict(name="memo", pkg="./oncex", test="TestMemo", coq_mod="Once.Spec", run_check="run_check_memo",
                 corpus="memo", quick_n=1500, thorough_n=100000, nontrivial=nt_memo,
                 rule="random histories of one memo.MemoizeFunc (calls before, while and after the harness-owned function runs, "
                      "outcome value / error / non-zero value together with an error) + corpus; distinct = distinct event sequence; non-trivial = >= 3 events and a caller observed blocked"),
        ],
        trusted=SCHED_TRUSTED + [
            "memo.MemoizeFunc has no schedule point of its own: the harness cannot interleave two callers between the atomic swap and "
            "the function entry, nor between the result write and close(done); those interleavings are covered by the model theorems only",
        ],
        assumptions=[
            "the harness realises the eager schedule (woken waiters run to their next gate at once); the theorems cover every placement of wake-ups",
            "when both cases of the select in Promise.Await are ready (caller cancelled while parked before the section, promise already resolved) "
            "the Go runtime chooses; the choice is read off the result and passed to the model as an argument of the event",
            "reading of 'a caller whose own context is cancelled gets context.Canceled without preventing other callers from obtaining a result' "
            "(monitor clause 9): a caller whose own context is live is never handed the error of an invocation whose starter's context was already "
            "cancelled when that invocation's callback returned (observable because the harness cancels at gates); a cancellation that arrives after "
            "the callback has returned is not covered by the clause (the code retries there too, up to its ctx.Err() test)",
            "reading of 'a caller whose own context is cancelled gets context.Canceled' as to the error's identity (monitor clause 10): no Resolve call "
            "returns context.DeadlineExceeded or the cancellation cause of a context; the harness-owned callback never returns these two errors, so in "
            "the observed traces they can only stem from a context (the caller's own, or the starter's through the promise); the context flavour is "
            "derived from the number of earlier Resolve events (replayable) and is not an argument of the model, because Once returns the literal "
            "context.Canceled for every flavour",
            "a (value, error) result is observed as one integer value<<20 + error id; Once hands (zero value, error) to its callers whatever value "
            "the callback returned with the error (compared through the correspondence), MemoizeFunc hands the pair on unchanged (clause 7)",
            "liveness stated as quiescence safety: in no state without enabled internal steps is a caller blocked on a resolved or orphaned promise, or blocked with a cancelled context",
            "reading of 'every Resolve with a live context, concurrent or later, returns that value': a waiter that joined an EARLIER failed attempt may "
            "still be handed that attempt's error after a later attempt has succeeded (the failed attempt's SetResult is delayed); every Resolve "
            "whose critical section runs after the successful return gets the value",
        ],
        meta=dict(
            text="Coq theorems over ALL event lists of a gate-level interleaving model of promise.Once (any number of Resolve calls, every interleaving of "
                 "caller sections, Await wake-ups by result or by context, the callback goroutine's clear section and SetResult, context cancellations, "
                 "callback outcomes) and of an operation-level model of memo.MemoizeFunc (swap, function, result write, close, read as separate steps): "
                 "at most one callback invocation in user code; a successful promise is never cleared, no callback starts afterwards and late callers "
                 "return that value; a failed attempt is detached before it is delivered, so later Resolves obtain their result from a later invocation; "
                 "Canceled only for callers whose own context is cancelled (and, on the observed traces, the identical context.Canceled whatever the context's "
                 "own Err() or cause: clause 10, never produced by the model); a live caller never receives the error of an invocation whose starter was already "
                 "cancelled when the callback returned; quiescence: no caller blocked on a resolved/orphaned promise; memo: exactly one "
                 "function call, result published before done is closed and never rewritten, every return is that call's full (value, error) result. Models tied to the code "
                 "by scheduled differential correspondence (synctest, promise.VerifHook sites 1-3, harness-owned callback) and monitors on the observed traces; "
                 "for every event list the monitors report nothing on the models' own observations (c16_once_model_satisfies_monitors, "
                 "c16_memo_model_satisfies_monitors: unbounded simulation between monitor state and model state).",
            note=NOTE + "Gate placement is trusted; memo has no hook, so its racy windows are covered by the model theorems only.",
            technique="Coq inductive invariants over interleaving models + schedule-controlled differential correspondence against the Go code",
        ),
    ),
}
