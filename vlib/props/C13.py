# C13 - no data races inside the library.  DIFFERENT IN KIND from the other registrations: kind="table".
# The tie to the code is not a differential harness but the TRANSLATOR /verif/lockscan, which regenerates the race
# table (a Coq definition) from /repo's sources on every run; the decision is "the Coq development compiles, the
# generated table passes check_table (gen/TableOk.v compiles), and check_table rejects the three seeded self-test
# tables (gen/SelfTestOk.v compiles)".  ./check dispatches on kind (decide_table).  PARTIAL BY NATURE: see meta.note.

FILES = [
    "broadcast/broadcast.go", "csync/mutex.go", "csync/rwmutex.go", "ccontainer/ccontainer.go", "ccall/ccall.go",
    "conc/queue.go", "cqueue/lifo.go", "linkedlist/linkedlist.go", "keyed/keyed.go", "keyed/routine.go",
    "keyed/keyed-refcount.go", "routine/routine.go", "routine/state.go", "refcount/refcount.go", "promise/promise.go",
    "promise/container.go", "promise/once.go", "memo/memo.go", "iocloser/read-closer.go", "iocloser/write-closer.go",
    "iosizer/iosizer.go",
]

# location-name prefix (longest match) -> free-running -race workloads (harness/racex) exercising that type
RACE_TESTS = {
    "broadcast.": ["TestRace_Broadcast"],
    "csync.Mutex": ["TestRace_CsyncMutex"],
    "csync.RWMutex": ["TestRace_CsyncRWMutex"],
    "ccontainer.": ["TestRace_CContainer", "TestRace_CContainerVariants"],
    "ccall.": ["TestRace_CallConcurrently"],
    "conc.": ["TestRace_ConcurrentQueue"],
    "cqueue.": ["TestRace_AtomicLIFO"],
    "linkedlist.": ["TestRace_LinkedList"],
    "keyed.KeyedRef": ["TestRace_KeyedRefCount"],
    "keyed.": ["TestRace_Keyed", "TestRace_KeyedOptions", "TestRace_KeyedRefCount"],
    "routine.StateRoutineContainer": ["TestRace_StateRoutineContainer", "TestRace_StateRoutineContainerVariants"],
    "routine.": ["TestRace_RoutineContainer", "TestRace_RoutineContainerOptions", "TestRace_StateRoutineContainer", "TestRace_StateRoutineContainerVariants"],
    "refcount.": ["TestRace_RefCount", "TestRace_RefCountVariants"],
    "promise.PromiseContainer": ["TestRace_PromiseContainer"],
    "promise.Once": ["TestRace_Once"],
    "promise.": ["TestRace_Promise", "TestRace_PromiseContainer", "TestRace_Once"],
    "memo.": ["TestRace_MemoizeFunc"],
    "iocloser.": ["TestRace_IOCloser"],
    "iosizer.": ["TestRace_SizeReadWriter"],
}

PARTIAL = ("PARTIAL BY NATURE: (1) the translator /verif/lockscan is trusted (that every execution of every client program "
           "conforms to the table it prints: held-set inference, escape/construction analysis, callback-field derivation, the "
           "idioms of this code base and not arbitrary Go); (2) lock classes, not lock instances (ownership assumption); "
           "(3) construct-phase accesses are ordered before shared ones by publication (not formalised); (4) the ordering "
           "hypotheses of the 7 allow-listed publish-pattern locations come from the fine-grained models of C11/C16/C12 and of "
           "refcount, not from the lock discipline; (5) races inside user callbacks are out of scope by the property's wording.")

PROPS = {
    "C13": dict(
        kind="table",
        pid=13,
        coq=["Lockset/Trace.v", "Lockset/Soundness.v", "Lockset/Check.v", "Lockset/Props_C13.v"],
        props_file="Lockset/Props_C13.v",
        models=[],
        files=FILES,
        race_pkg="./racex",
        race_tests=RACE_TESTS,
        race_seconds=dict(quick=2, thorough=60),
        trusted=[
            "THE TRANSLATOR /verif/lockscan (Go 1.23 toolchain, go/packages + go/types from golang.org/x/tools v0.29.0): "
            "the link from 'executions of the Go program' to 'executions conforming to the table' (Lockset/Check.v: conforms) is not proved; "
            "validated on every run by its seeded self-test (6 discipline violations, among them the racy twins of the three semantic idioms - "
            "lock callback bound to a local and called by `go`, field written after the fresh object escaped, node field written after the "
            "publishing compare-and-swap succeeded - must be rejected by check_table in Coq) and, thorough tier, by free-running -race workloads per type",
            "translator rules that are assumptions about Go / this code base: `defer X.Unlock()` means X is held until the return; "
            "sync.Once.Do(f) runs f synchronously; a closure passed to Broadcast.HoldLock/TryHoldLock/Wait runs under that "
            "Broadcast's lock on the calling goroutine, whether it is written in place or bound to a local variable that is only ever called "
            "directly or handed to these functions in a plain (not `go`) call; "
            "the broadcast/getWaitCh method values handed to such a callback are only used during it (documented Broadcast "
            "contract; checked for in-library callers, assumed for clients); a call on a freshly allocated, not yet escaped receiver "
            "does not constrain the callee's entry lock set (construct-phase call; what the callee does to the object is followed by the flow "
            "analysis, anything else it touches gets no lock from this caller); "
            "construction phase and publish-by-CAS are decided by a flow analysis of the allocating function (lockscan/objflow.go: escape = "
            "returned / stored / sent / go / closure that does not run inline / passed to a function that is not followed; a CompareAndSwap "
            "publishes only on its true outcome; direct calls of functions of the scanned files are followed, depth <= 4, no recursion), whose "
            "imprecision is always on the rejecting side; unexported helpers are assumed to be called from the 21 scanned files only; "
            "structured control flow (goto is reported as a residual); "
            "addresses of tabled fields are not taken (reported as a residual); slice/map contents are conflated with the field that holds them",
            "only the 21 files of the property are scanned: the With* option closures (keyed/keyed-opts.go, routine/options.go) that write "
            "releaseDelay/exitedCbs/backoffFactory/retryBo run inside the constructors before the object is returned and are outside the claim",
            "lock classes, not instances: a guarded field is reached only through the owner whose lock is held (guard_of in c13_race_free_under_table)",
            "publish patterns (allow-list in Lockset/Check.v + shape check): promise.Promise.result/err and memo's result/doneErr (publish by close, "
            "single closer guarded by the first Swap on an atomic.Bool), cqueue.atomicLIFONode.next/value (publish by CAS), "
            "refcount WaitWithReleased#ref (written under RefCount.mtx, read by a goroutine forked under RefCount.mtx by a LATER callback invocation): "
            "their ordering hypotheses are those of c11_fields_published_before_close, c16_memo_publish_before_close, c12_lifo_repr and the refcount model",
            "modelled, not verified: Go's sync.Mutex, sync/atomic (write-like atomic -> later atomic on the same cell), channel close -> receive, go statement semantics (The Go Memory Model)",
            "Coq 8.16.1 kernel; vm_compute for check_table on the generated table",
        ],
        assumptions=[
            "clients use the APIs as documented (e.g. do not retain broadcast/getWaitCh beyond the HoldLock callback, do not copy the structs)",
            "races inside user callbacks are out of scope by the property's own wording",
        ],
        meta=dict(
            text="PARTIAL (translator trusted; lock classes not instances; user callbacks out of scope). Coq theorems (no axioms): in every well-formed "
                 "execution (mutual exclusion of locks, fork-before-run, receive-of-close after close) that conforms to a race table accepted by the "
                 "boolean check_table, conflicting accesses to lock-guarded locations are ordered by happens-before, immutable locations have no "
                 "conflicting pair, confined ones are accessed by one goroutine (check_sound, c13_race_free_under_table; lockset_sound, "
                 "publish_by_close_sound, cas_publish_sound, fork_under_lock_sound on instances). The table (every read/write of every field and "
                 "captured variable in the 21 files, with the inferred set of lock classes held, phase and publish shape) is REGENERATED from /repo's "
                 "sources by the translator /verif/lockscan on every run and 'check_table table = true' is re-proved by vm_compute; a racy edit breaks "
                 "that compile and the replay lists the unordered read/write pairs with file:line and held sets.",
            note="Trusted: Coq 8.16.1 kernel; no axioms (Print Assumptions checked every run). " + PARTIAL,
            technique="static lock-discipline table generated from the Go sources (entry-lockset inference by greatest fixpoint over the call graph) "
                      "+ Coq-checked table (vm_compute) + Coq soundness theorems of the lockset / immutability / publish protocols over a "
                      "happens-before trace model; translator self-test with seeded violations every run; free-running -race workloads (thorough)",
        ),
    ),
}
