from vlib.common import NOTE, SCHED_TRUSTED


def _nt(h):
    # non-trivial: at least 8 events and some waiter observed blocked in its select (status code 2)
    return len(h["evs"]) >= 8 and any("2" in o.split() for o in h["obs"])


PROPS = {
    "C15": dict(
        pid=15,
        coq=["Common/ListLemmas.v", "CContainer/Model.v", "CContainer/Spec.v", "CContainer/Proofs.v", "CContainer/Props_C15.v"],
        props_file="CContainer/Props_C15.v",
        models=[
            dict(name="ccontainer", pkg="./ccontainerx", test="TestCContainer", coq_mod="CContainer.Spec", run_check="run_check_ccontainer",
                 corpus="ccontainer", quick_n=2000, thorough_n=200000, nontrivial=_nt, tags="",
                 # the same correspondence in the free-running regime, in every check (harness/ccontainerx/free_test.go)
                 free_search=dict(test="TestCContainerFree", props={"C15": [5]}), free_always=True,
                 rule="implementation-driven random gate-level histories on a CContainer[uint64] (config: one of 7 equality functions incl. none / "
                      "mod 2 / always equal / asymmetric a<=b / div 4 / the NON-REFLEXIVE never-equal and a<b, initial value) or on a "
                      "ccontainer.NewCContainerVT container over a pointer type with an EqualVT method (nil = empty, every value freshly allocated: "
                      "equal but not identical pointers), both driven through one adapter: GetValue, SetValue v, SwapValue with callback nil | +k | "
                      "const k | identity, waiters WaitValue | WaitValueChange old | WaitValueEmpty | WaitValueWithValidator (5 validator families "
                      "incl. nil and error-returning) with or without error channel, each waiter / watcher context of a flavour that is part of the event "
                      "(plain WithCancel / ends like a deadline, Err()=DeadlineExceeded / cancelled with a cause; 1 call in 12 with a context that has already "
                      "ended) and the returned error classified by identity (context.Canceled, context.DeadlineExceeded, the cause, the error channel's, "
                      "the validator's, other), ccontainer.WatchChanges(initial, ToWatchable(ctr), cb) watchers (initial "
                      "empty / non-empty, equal / unequal to the content; the callback parks and returns nil or an error as the history says; "
                      "cancel / error-channel events also while inside the callback); one critical section at a time, waiters additionally parked "
                      "between their sampling section and the select; context cancellations; error channel nil / error / close; + corpus; "
                      "distinct = distinct event sequence + config; non-trivial = >= 8 events and some waiter observed blocked"),
        ],
        trusted=SCHED_TRUSTED + [
            "user callbacks (equality, SwapValue callback, validator) are pure functions from small coded families, mirrored in Gallina (eq_of_code, apply_f, validator)",
            "context flavours come from harness/hctx: the deadline-like context is a cancel context whose Err() reports context.DeadlineExceeded once it has ended (no clock involved), the with-cause context is context.WithCancelCause",
            "the NewCContainerVT container holds *msg{id}; EqualVT compares ids; the harness adapter maps the history's number v to a freshly allocated &msg{id: v} (0 to nil) and back, so proto.IsEqualVT on the elements is equality of the numbers (eq_of_code 7)",
            "the WatchChanges callback is harness-owned: it records its argument, parks (ctl.ParkUser) and returns nil or one fixed error as the history prescribes (model event CbRet)",
        ],
        assumptions=[
            "the harness realises the eager schedule (a blocked waiter whose select has a ready case runs to its next gate at once); the theorems cover every placement of wake-ups (Wake / CancelWake / ErrWake are separate events)",
            "'two select cases ready' (Go chooses at random) is covered by the theorems but never produced by the harness: a waiter never has a cancelled context and a pending error-channel item together, and is parked between sample and select only when neither is pending",
            "'the context's error' is read as ctx.Err() of the ended context (Canceled for a plain or with-cause context, DeadlineExceeded for a deadline context); a closed error channel yields the literal context.Canceled (the code's documented treatment); clauses 6 / 9 / 10 require every returned error identity to be that of a source that fired: Canceled needs a context that ended with Err()=Canceled or a closed error channel, DeadlineExceeded a deadline context that ended, and the cancellation cause (context.Cause) is never the context's error; an error of unknown identity (status 8) is left to the correspondence",
            "liveness ('never remain blocked while the content satisfies the condition') is stated as quiescence safety on top of the no-lost-wake-up invariant",
            "WatchChanges is modelled as rounds of the WaitValueChange(current) waiter followed by the callback; there is no schedule point between the callback's return and the next round's HoldLock entry gate, so a round's 'held' values start at the content present when the callback returns; that WatchChanges returns the callback's error unchanged is compared through the correspondence (status 11) and is not a monitor clause (not C15 text)",
            "c15_swap_no_lost_update assumes the equality function never identifies v and v+1 (otherwise SwapValue by design does not store); all other theorems assume nothing about the equality function",
        ],
        meta=dict(
            text="Coq theorems over ALL event lists of a gate-level interleaving model of ccontainer.CContainer with an arbitrary (uninterpreted) equality "
                 "function: each critical section of Get/Set/Swap is one step of the sequential cell and the section order is a linearization "
                 "(c15_section_is_cell_step, c15_cell_linearizable), N SwapValue(+1) from any interleaving end at +N (c15_swap_no_lost_update), a waiter "
                 "returns only a value the cell held during the call and that satisfies its condition, no-lost-wake-up invariant and quiescence "
                 "(no waiter blocked while the content satisfies its condition), errors only from a source that fired and with that source's identity "
                 "(the ctx.Done case returns ctx.Err(): Canceled or DeadlineExceeded by the flavour of the context, a closed error channel the literal Canceled); WatchChanges: every callback "
                 "invocation gets a value held during that round's wait and different from current, no watcher blocked at quiescence while the content "
                 "differs from current, it returns only an error whose source fired or the callback's own (c15_watch_*, c15_watcher_*). Model tied to the code by "
                 "scheduled differential correspondence: the harness drives the real container one critical section at a time (synctest), with an extra "
                 "gate between a waiter's sample and its select; the extracted model must produce the same status vectors; monitors (sequential-cell "
                 "results, held-and-satisfying, quiescence, error sources) are evaluated on the implementation's observations; model_satisfies_monitors "
                 "ties the monitors to the model.",
            note=NOTE + "Gate placement and the atomicity of a Broadcast critical section are trusted (C13 argues the lock discipline). "
                        "Go's random choice among several ready select cases is not exercised by the harness (covered by the theorems only).",
            technique="Coq inductive invariants (no lost wake-up, linearization log) over an interleaving model + schedule-controlled differential correspondence against the Go code",
        ),
    ),
}
