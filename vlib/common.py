# Shared constants of the per-property configuration files in vlib/props/.
#
# models: the correspondence runs that decide the property.  Each names a harness package
#   (under /verif/harness), the Go test that generates/executes histories, the model name the
#   OCaml driver dispatches on, the Coq module holding run_check_<model>, and sizes per tier.
# coq: the files whose Qed-closed statements are the proof obligations of the property
#   (Common/ is always included).
# pid: the number the Coq monitors use for the property.

COMMON_COQ = ["Common/Base.v"]

TRUSTED_BASE_COMMON = [
    "Coq 8.16.1 kernel (coqc); vm_compute used in finite sweeps and in the extraction cross-check; native_compute not used",
    "axioms: none (Print Assumptions under every property theorem prints 'Closed under the global context'; checked on every run)",
    "extraction: ExtrOcamlBasic only (Extract Inductive bool/option/unit/list/prod/sumbool/sumor, Extract Inlined Constant andb/orb); nat/positive/N/Z stay extracted inductives; no Extract Constant of our own; OCaml 4.13.1; /verif/ocaml/driver.ml; a sample of every run is re-evaluated by vm_compute inside Coq",
    "the Go correspondence harness under /verif/harness (differential execution of the real code from /repo's working tree), Go 1.26.8 toolchain for the harness build",
]




def nt_pure(h):
    # non-trivial: the single call carries at least 3 payload integers
    return len(h["evs"]) >= 1 and len(h["evs"][0]) >= 4


def nt_sched(h):
    # non-trivial scheduled history: at least 8 events and at least one observation with a blocked actor (code 2)
    return len(h["evs"]) >= 8 and any(" 2" in (" " + o) for o in h["obs"])


def nt_len(n):
    return lambda h: len(h["evs"]) >= n


SCHED_TRUSTED = [
    "gate placement: verif-tagged schedule points (/repo */verif_on.go; Broadcast.HoldLock entry/exit and the package-specific sites); a critical section is one model step (granularity justified by the lock discipline, C13)",
    "Go 1.26.8 testing/synctest (fake clock, exact quiescence), goroutine-id parsing in the harness",
    "modelled, not verified: Go's sync.Mutex, atomic, channel and select semantics; contexts as cancellation flags",
]

NOTE = ("Trusted: Coq 8.16.1 kernel; no axioms (Print Assumptions checked every run); extraction with ExtrOcamlBasic only, "
        "cross-checked by vm_compute on a sample of every run; the Go harness and Go 1.26.8 runtime/synctest. "
        "The theorems are about the hand-written model; the tie to /repo is the differential correspondence run on every check. ")
