# Texts for MANIFEST.json that are not per property (per-property texts live in vlib/props/*.py under "meta").
HOOK_COMMITS = ["4e61baf", "39445bc", "4a3f00d", "f8ba652", "f66a3c2", "c597d22", "97a6f39", "4409171", "eccba09", "5a6d740"]
PENDING_REASON = "not claimed yet: its model and check are still being built (DESIGN.md §8 build order); the technique applies"
NOT_APPLICABLE = {}
# Properties whose check has been reviewed and passes on the unchanged tree; only these are claimed in MANIFEST.json.
READY = ["C01", "C02", "C03", "C04", "C05", "C06", "C07", "C08", "C09", "C10", "C11", "C12", "C13", "C14", "C15", "C16", "C17", "C18", "C19", "C20"]
