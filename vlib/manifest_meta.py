# Texts for MANIFEST.json, per property.
HOOK_COMMITS = ["4e61baf"]
PENDING_REASON = "not claimed yet: its model and check are still being built (DESIGN.md §8 build order); the technique applies"
NOT_APPLICABLE = {}

_NOTE = ("Trusted: Coq 8.16.1 kernel; no axioms (Print Assumptions checked every run); extraction with ExtrOcamlBasic only, "
         "cross-checked by vm_compute on a sample of every run; the Go harness and Go 1.26.8 runtime/synctest. "
         "The theorems are about the hand-written model; the tie to /repo is the differential correspondence run on every check. ")

META = {
    "C01": dict(
        text="Coq theorems over ALL event lists of gate-level interleaving models of csync.Mutex and csync.RWMutex (any number of calls, every "
             "interleaving of critical sections, cancellations, wake-ups, release calls): counting invariant => at most one API-level write holder and then no "
             "read holder; release idempotent; failed TryLock / cancelled Lock inert. Models tied to the code by scheduled differential correspondence: "
             "the harness drives the real locks one critical section at a time (synctest) and the extracted model must produce the same status vectors; "
             "exclusion monitors are evaluated on the implementation's observations.",
        note=_NOTE + "Gate placement and the atomicity of a Broadcast critical section are trusted (C13 argues the lock discipline). Locker wrappers are exercised by the harness only through Lock/release.",
        technique="Coq inductive invariant over an interleaving model + schedule-controlled differential correspondence against the Go code",
    ),
    "C02": dict(
        text="Coq theorems over all event lists of the same models: no-lost-wake-up invariant (a caller blocked on an open channel is not grantable), hence at every "
             "quiescent state no grantable waiter is blocked and no cancelled caller is blocked; counters have no residue from cancelled/failed calls; a read grant "
             "happens only when no writer is registered waiting (writer preference). The pinned code's violation (D1) is a _refuted theorem and a corpus history. "
             "Correspondence as C01, with quiescence monitors on the implementation's observations.",
        note=_NOTE + "Liveness is stated as quiescence safety; termination of internal steps is not yet a theorem for this model.",
        technique="Coq inductive invariant (no lost wake-up) over an interleaving model + schedule-controlled differential correspondence",
    ),
    "C19": dict(
        text="Coq theorems over all byte lists / string lists / chunk-size lists for executable models of PadInPlace (both capacity branches), "
             "UnpadInPlace, Prefix, TrimPrefix and randReader.Read, plus the theorem that the boolean monitors accept every model output; "
             "model tied to the code by differential correspondence on every run (boundary-heavy generated inputs, extracted model vs. real code, "
             "monitors evaluated on the implementation's outputs).",
        note=_NOTE + "SHA-256 and ChaCha8 are parameters of the model (exercised by seed-split cases, not verified).",
        technique="Coq proof (list induction, loop invariants) about an executable Gallina model + differential correspondence against the Go code",
    ),
}
