# Texts for MANIFEST.json, per property.
HOOK_COMMITS = []
PENDING_REASON = "not claimed yet: its model and check are still being built (DESIGN.md §8 build order); the technique applies"
NOT_APPLICABLE = {}

_NOTE = ("Trusted: Coq 8.16.1 kernel; no axioms (Print Assumptions checked every run); extraction with ExtrOcamlBasic only, "
         "cross-checked by vm_compute on a sample of every run; the Go harness and Go 1.26.8 runtime/synctest. "
         "The theorems are about the hand-written model; the tie to /repo is the differential correspondence run on every check. ")

META = {
    "C19": dict(
        text="Coq theorems over all byte lists / string lists / chunk-size lists for executable models of PadInPlace (both capacity branches), "
             "UnpadInPlace, Prefix, TrimPrefix and randReader.Read, plus the theorem that the boolean monitors accept every model output; "
             "model tied to the code by differential correspondence on every run (boundary-heavy generated inputs, extracted model vs. real code, "
             "monitors evaluated on the implementation's outputs).",
        note=_NOTE + "SHA-256 and ChaCha8 are parameters of the model (exercised by seed-split cases, not verified).",
        technique="Coq proof (list induction, loop invariants) about an executable Gallina model + differential correspondence against the Go code",
    ),
}
