# Per-property configuration of the checks.  Table-driven: ./check reads this.
#
# models: the correspondence runs that decide the property.  Each names a harness package
#   (under /verif/harness), the Go test that generates/executes histories, the model name the
#   OCaml driver dispatches on, the Coq module holding run_check_<model>, and sizes per tier.
# coq: the files whose Qed-closed statements are the proof obligations of the property
#   (Common/ is always included).
# pid: the number the Coq monitors use for the property.

COMMON_COQ = ["Common/Base.v"]

TRUSTED_BASE_COMMON = [
    "Coq 8.16.1 kernel (coqc); vm_compute used in finite sweeps and in the extraction cross-check; native_compute not used",
    "axioms: none (Print Assumptions under every property theorem prints 'Closed under the global context'; checked on every run)",
    "extraction: ExtrOcamlBasic only (Extract Inductive bool/option/unit/list/prod/sumbool/sumor, Extract Inlined Constant andb/orb); nat/positive/N/Z stay extracted inductives; no Extract Constant of our own; OCaml 4.13.1; /verif/ocaml/driver.ml; a sample of every run is re-evaluated by vm_compute inside Coq",
    "the Go correspondence harness under /verif/harness (differential execution of the real code from /repo's working tree), Go 1.26.8 toolchain for the harness build",
]


def _nt_pure(h):
    # non-trivial: the single call carries at least 3 payload integers
    return len(h["evs"]) >= 1 and len(h["evs"][0]) >= 4


def _nt_sched(h):
    # non-trivial scheduled history: at least 8 events and at least one observation with a blocked actor (code 2)
    return len(h["evs"]) >= 8 and any(" 2" in (" " + o) for o in h["obs"])


_CSYNC_COQ = ["Common/ListLemmas.v", "CSync/RWModel.v", "CSync/RWProofs.v", "CSync/RWSpec.v", "CSync/MModel.v", "CSync/MProofs.v", "CSync/MSpec.v"]
_CSYNC_RULE = ("implementation-driven random gate-level histories (Lock/TryLock read+write, one critical section at a time, "
               "context cancellations, release calls incl. double releases) + corpus; distinct = distinct event sequence; "
               "non-trivial = >= 8 events and some actor observed blocked")
_CSYNC_MODELS = [
    dict(name="rwmutex", pkg="./csyncx", test="TestRWMutex", coq_mod="CSync.RWSpec", run_check="run_check_rwmutex",
         corpus="rwmutex", quick_n=1500, thorough_n=150000, nontrivial=_nt_sched, rule=_CSYNC_RULE),
    dict(name="mutex", pkg="./csyncx", test="TestMutex", coq_mod="CSync.MSpec", run_check="run_check_mutex",
         corpus="mutex", quick_n=1500, thorough_n=150000, nontrivial=_nt_sched, rule=_CSYNC_RULE),
]
_SCHED_TRUSTED = [
    "gate placement: verif-tagged schedule points at Broadcast.HoldLock entry/exit (/repo broadcast/verif_on.go); a critical section is one model step (granularity justified by the lock discipline, C13)",
    "Go 1.26.8 testing/synctest (fake clock, exact quiescence), goroutine-id parsing in the harness",
    "modelled, not verified: Go's sync.Mutex, atomic, channel and select semantics; contexts as cancellation flags",
]

PROPS = {
    "C01": dict(
        pid=1, coq=_CSYNC_COQ + ["CSync/Props_C01.v"], props_file="CSync/Props_C01.v", models=_CSYNC_MODELS,
        trusted=_SCHED_TRUSTED,
        assumptions=["the harness realises the eager schedule (woken waiters run to their next gate at once); the theorems cover every placement of wake-ups",
                     "'both select cases ready' is covered by the theorems (CancelWake/Wake are separate events) but not produced by the harness"],
    ),
    "C02": dict(
        pid=2, coq=_CSYNC_COQ + ["CSync/Props_C02.v"], props_file="CSync/Props_C02.v", models=_CSYNC_MODELS,
        trusted=_SCHED_TRUSTED,
        assumptions=["liveness stated as quiescence safety: no grantable waiter is blocked in any state without enabled internal steps",
                     "termination of internal steps is argued, not yet proved, for csync (each section moves an actor forward; only release/give-up sections broadcast)"],
    ),
    "C19": dict(
        pid=19,
        coq=["Pure/Model.v", "Pure/Spec.v", "Pure/Proofs.v", "Pure/Props_C19.v"],
        props_file="Pure/Props_C19.v",
        models=[
            dict(name="pure", pkg="./pure", test="TestPure", coq_mod="Pure.Spec", run_check="run_check_pure",
                 corpus="pure", quick_n=6000, thorough_n=600000, nontrivial=_nt_pure, tags="",
                 rule="one call per case (pad with capacity variants and dirty tail, unpad on arbitrary/crafted input, "
                      "round trip, Prefix/TrimPrefix over 0-6 strings with shared prefixes incl. bytes >= 0x80, reader "
                      "chunkings incl. 0 and > 8, seed splits); distinct = distinct event line; non-trivial = at least 3 payload integers"),
        ],
        trusted=[
            "modelled, not verified: SHA-256 and ChaCha8 (Go's; parameters H/src of the model; exercised by the seed-split cases), "
            "Go slice/capacity semantics as written in pad_mem, strings.HasPrefix/TrimPrefix as is_prefix/skipn",
        ],
        assumptions=[
            "bytes are 0..255 (harness); the model is over arbitrary N",
            "different seed data yields different streams (oracle assumption used only by the seed-split cases)",
        ],
    ),
}
