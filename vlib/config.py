# Per-property configuration of the checks.  Table-driven: ./check reads this.
# Every file vlib/props/*.py defines PROPS = {"Cxx": {...}}; see vlib/props/C19.py for the fields:
#   pid         the number the Coq monitors use for the property
#   coq         the theory files whose Qed-closed statements are the proof obligations (Common/Base.v always included)
#   props_file  the statement-only file (Theorem ... exact lemma. Qed. Print Assumptions ...)
#   models      the correspondence runs that decide the property: harness package, Go test name,
#               model name the OCaml driver dispatches on, Coq module holding run_check_<model>, sizes per tier
#   trusted, assumptions   texts for the evidence file
#   meta        texts for MANIFEST.json (text, note, technique)
import importlib
import os
import pkgutil

from vlib.common import COMMON_COQ, TRUSTED_BASE_COMMON  # noqa: F401

PROPS = {}
_d = os.path.join(os.path.dirname(os.path.abspath(__file__)), "props")
for _m in sorted(pkgutil.iter_modules([_d]), key=lambda m: m.name):
    _mod = importlib.import_module("vlib.props." + _m.name)
    PROPS.update(getattr(_mod, "PROPS", {}))


def all_models():
    seen, out = set(), []
    for p in sorted(PROPS):
        for m in PROPS[p]["models"]:
            if m["name"] not in seen:
                seen.add(m["name"])
                out.append(m)
    return out


def all_coq_files():
    out = []
    for f in COMMON_COQ + [f for p in sorted(PROPS) for f in PROPS[p]["coq"]]:
        if f not in out:
            out.append(f)
    return out
